package address

import (
	"path"

	"berty.tech/go-orbit-db/internal/vstub"
)

var verifHarnesses = map[string]func(){
	"VerifC14AddressRoundTrip": VerifC14AddressRoundTrip,
}

// VerifC14AddressRoundTrip: for every database name of up to L bytes (ALL byte
// values: '/', '.', '%', spaces, ...), the address built the way
// DetermineAddress builds it (Parse of path.Join("/orbitdb", root, name)) - when
// it is accepted and rooted at the manifest - prints to a string that is a
// valid address and parses back to the same root and path, and printing is
// stable (parse . print is the identity on printed addresses).
func VerifC14AddressRoundTrip() {
	maxLen := vstub.Param("L", 4)
	root := vstub.MkCid(1)
	l := vstub.NdChoice("nameLen", maxLen+1)
	name := vstub.NdString("name", l)
	a, err := Parse(path.Join("/orbitdb", root.String(), name))
	if err != nil {
		vstub.Cover("refused")
		return
	}
	if !a.GetRoot().Equals(root) {
		// DetermineAddress refuses names that walk out of the manifest root
		vstub.Cover("escapes-root")
		return
	}
	vstub.Cover("parsed")
	printed := a.String()
	vstub.Assert(IsValid(printed) == nil, "C14 the printed address is a valid address")
	b, perr := Parse(printed)
	vstub.Assert(perr == nil, "C14 the printed address parses")
	if perr != nil {
		return
	}
	vstub.Assert(b.GetRoot().Equals(a.GetRoot()), "C14 the printed address parses back to the same root")
	vstub.Assert(b.GetPath() == a.GetPath(), "C14 the printed address parses back to the same path")
	vstub.Assert(b.String() == printed, "C14 printing a parsed address is stable")
}

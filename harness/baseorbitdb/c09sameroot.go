package baseorbitdb

import (
	"berty.tech/go-orbit-db/internal/vstub"
)

func init() {
	verifHarnesses["VerifC09SameRoot"] = VerifC09SameRoot
}

// VerifC09SameRoot: two databases whose addresses share ONE manifest root and
// differ in their path (the second is opened from a hand-formed address: Open
// does not compare the path with the manifest's name) are two databases - own log
// id, topic, cache.  Both are open on two instances; alpha is written behind a
// partition and exchanged on heal over the direct channel: alpha's entries reach
// alpha on the peer, beta stays empty with an untouched status and no events;
// closing beta afterwards does not stop alpha's exchanges.
func VerifC09SameRoot() {
	w := newSysWorld()
	a := w.boot("a", nil, false)
	b := w.boot("b", nil, false)
	if a == nil || b == nil {
		return
	}
	sa := a.create("alpha", "eventlog")
	if sa == nil {
		return
	}
	addrA := sa.Address().String()
	addrB := "/orbitdb/" + sa.Address().GetRoot().String() + "/beta"
	// alpha and beta are opened in either order on both instances
	if vstub.NdChoice("beta-first-on-b", 2) == 1 {
		if a.open(addrB) == nil || b.open(addrB) == nil || b.open(addrA) == nil {
			return
		}
	} else {
		if a.open(addrB) == nil || b.open(addrA) == nil || b.open(addrB) == nil {
			return
		}
	}
	vstub.WaitIdle()
	sysEventsMatch(b)
	w.net.Cut(a.id, b.id)
	n := 1 + vstub.NdChoice("writes", 2)
	for k := 0; k < n; k++ {
		if a.add(addrA, 'a') == nil {
			return
		}
	}
	vstub.WaitIdle()
	w.net.Heal(a.id, b.id)
	vstub.WaitIdle()
	vstub.Cover("exchanged-on-heal")
	bA, bB := b.stores[addrA], b.stores[addrB]
	for _, e := range w.acks[addrA] {
		vstub.Assert(sysHolds(bA, e), "C09/C02 the entries of a database reach THAT database on the peer, also when another database shares its manifest root")
	}
	vstub.Assert(bB.OpLog().Len() == 0, "C09 a database sharing another's manifest root stays empty when only the other is written")
	vstub.Assert(bB.ReplicationStatus().GetProgress() == 0 && bB.ReplicationStatus().GetMax() == 0, "C09 its replication status is untouched")
	// closing beta on the receiving side does not disturb alpha
	if err := bB.Close(); err != nil {
		vstub.Fail("C09 Close of beta failed")
	}
	vstub.WaitIdle()
	w.net.Cut(a.id, b.id)
	e := a.add(addrA, 'z')
	if e == nil {
		return
	}
	vstub.WaitIdle()
	w.net.Heal(a.id, b.id)
	vstub.WaitIdle()
	vstub.Assert(sysHolds(bA, e), "C09 closing a database that shares another's manifest root does not stop the other's head exchanges")
	vstub.Cover("beta-closed")
	w.wireClean(a.o)
}

package baseorbitdb

import (
	"berty.tech/go-orbit-db/internal/vstub"
	"berty.tech/go-orbit-db/internal/vstubodb"
)

func init() {
	verifHarnesses["VerifC02ThreeWay"] = VerifC02ThreeWay
}

// VerifC02ThreeWay: three replicas.  Two of them write while every link is cut
// (their logs diverge); then the links are healed in any order, so that the
// third replica sees both writers join almost at once and their head exchanges
// reach its direct channel BACK TO BACK (queued behind each other), optionally
// one of them twice (a duplicated message).  At quiescence every replica holds
// every acknowledged write and all list the same entries.
func VerifC02ThreeWay() {
	w := newSysWorld()
	a := w.boot("a", nil, false)
	b := w.boot("b", nil, false)
	c := w.boot("c", nil, false)
	if a == nil || b == nil || c == nil {
		return
	}
	sa := a.create("dbA", "eventlog")
	if sa == nil {
		return
	}
	addr := sa.Address().String()
	if b.open(addr) == nil || c.open(addr) == nil {
		return
	}
	vstub.WaitIdle()
	w.net.Cut(a.id, b.id)
	w.net.Cut(a.id, c.id)
	w.net.Cut(b.id, c.id)
	vstub.WaitIdle()
	na := 1 + vstub.NdChoice("a-writes", 2)
	nb := 1 + vstub.NdChoice("b-writes", 2)
	for k := 0; k < na; k++ {
		if a.add(addr, 'a') == nil {
			return
		}
	}
	for k := 0; k < nb; k++ {
		if b.add(addr, 'b') == nil {
			return
		}
	}
	vstub.WaitIdle()
	// the links come back; c's two links first (in either order, without waiting in
	// between), then the writers' own link - or the writers' link never comes back
	// directly (c relays)
	if vstub.NdChoice("b-link-first", 2) == 1 {
		w.net.Heal(b.id, c.id)
		w.net.Heal(a.id, c.id)
	} else {
		w.net.Heal(a.id, c.id)
		w.net.Heal(b.id, c.id)
	}
	vstub.WaitIdle()
	vstub.Cover("c-reconnected")
	for _, e := range w.acks[addr] {
		vstub.Assert(sysHolds(c.stores[addr], e), "C02 a replica that two diverged writers rejoin at once holds every acknowledged write of both")
	}
	w.net.Heal(a.id, b.id)
	vstub.WaitIdle()
	vstub.Cover("all-connected")
	ref := sysHashes(a.stores[addr])
	for _, p := range w.peers {
		st := p.stores[addr]
		for _, e := range w.acks[addr] {
			vstub.Assert(sysHolds(st, e), "C02 once every pair is connected again every replica holds every acknowledged write (three replicas)")
		}
		vstub.Assert(vstubodb.SameStrings(sysHashes(st), ref), "C02 once every pair is connected again all three replicas show the same state")
	}
}

package baseorbitdb

import (
	"context"

	"berty.tech/go-orbit-db/internal/vstub"
	"berty.tech/go-orbit-db/stores"
)

func init() {
	verifHarnesses["VerifC09CloseTwice"] = VerifC09CloseTwice
}

// VerifC09CloseTwice: database A of an instance is closed MORE THAN ONCE (Close
// twice, Close then Drop, Drop then Close - the usual clean-up idioms) while
// database B of the same instance stays open.  B keeps working: a write to B
// still produces its write event (naming B), is announced and reaches the peer;
// loading B still succeeds; B's replication status describes its own log.
func VerifC09CloseTwice() {
	w := newSysWorld()
	a := w.boot("a", nil, false)
	b := w.boot("b", nil, false)
	if a == nil || b == nil {
		return
	}
	sa, sb := a.create("dbA", "eventlog"), a.create("dbB", "eventlog")
	if sa == nil || sb == nil {
		return
	}
	addrA, addrB := sa.Address().String(), sb.Address().String()
	if a.add(addrA, 'a') == nil {
		return
	}
	if b.open(addrA) == nil || b.open(addrB) == nil {
		return
	}
	vstub.WaitIdle()
	switch vstub.NdChoice("how", 3) {
	case 0:
		_ = sa.Close()
		_ = sa.Close()
		vstub.Cover("closed-twice")
	case 1:
		_ = sa.Close()
		_ = sa.Drop()
		vstub.Cover("closed-then-dropped")
	case 2:
		_ = sa.Drop()
		_ = sa.Close()
		vstub.Cover("dropped-then-closed")
	}
	vstub.WaitIdle()
	writeEvents := 0
	if hb, ok := a.env.Bus.(*vstub.HookBus); ok {
		hb.OnEmit = func(evt interface{}) {
			if e, isW := evt.(stores.EventWrite); isW {
				vstub.Assert(e.Address.String() == addrB, "C09 the write event names database B")
				writeEvents++
			}
		}
		defer func() { hb.OnEmit = nil }()
	}
	e := a.add(addrB, 'b')
	if e == nil {
		return
	}
	vstub.WaitIdle()
	vstub.Assert(writeEvents == 1, "C09 closing database A repeatedly does not silence database B's write events")
	vstub.Assert(sysHolds(b.stores[addrB], e), "C09 after database A was closed repeatedly a write to database B still reaches the peer")
	if err := sb.Load(context.Background(), -1); err != nil {
		vstub.Fail("C09 loading database B fails after database A was closed repeatedly")
	}
	vstub.WaitIdle()
	rs := sb.ReplicationStatus()
	vstub.Assert(rs.GetProgress() == rs.GetMax() && rs.GetMax() == sb.OpLog().Len(), "C09/C19 database B's replication status describes its own log")
	vstub.Cover("B-still-works")
}

package baseorbitdb

import (
	"context"

	ipfslog "berty.tech/go-ipfs-log"
	"berty.tech/go-ipfs-log/entry"
	"berty.tech/go-orbit-db/accesscontroller"
	"berty.tech/go-orbit-db/iface"
	"berty.tech/go-orbit-db/internal/vstub"
	"berty.tech/go-orbit-db/stores/operation"
	"github.com/libp2p/go-libp2p/core/peer"
)

// c03Params builds access-controller parameters of the given kind
// (0 = ipfs controller with a manifest, 1 = manifest-less "simple" controller)
// for the given write list (nil = none given: the creator's id is the default).
func c03Params(kind int, writers []string) accesscontroller.ManifestParams {
	if kind == 1 {
		access := map[string][]string{}
		if len(writers) > 0 {
			access["write"] = append([]string{}, writers...)
		}
		return accesscontroller.NewSimpleManifestParams("simple", access)
	}
	return acParams(writers)
}

func sameList(a, b []string) bool {
	if len(a) != len(b) {
		return false
	}
	for k := range a {
		if a[k] != b[k] {
			return false
		}
	}
	return true
}

// VerifC03Instance: ONE real instance holds two databases with different write
// lists and access-controller kinds (ipfs with manifest / manifest-less simple),
// created in either order: a permissive one (wildcard, or a list naming a third
// identity) and a restricted one (creator only, explicit or by default).  Each
// database enforces ITS OWN write list: the list reported by its controller is
// the one given at creation, an entry of a non-writer delivered by manual sync,
// direct-channel head exchange or topic announcement is never merged, and a
// local write by the non-writer on its own replica of the database is refused
// when the list is recorded in the manifest.  (The write list is resolved by
// createStore -> acutils.Resolve from the address recorded in the manifest.)
func VerifC03Instance() {
	w := newSysWorld()
	a := w.boot("a", nil, false)
	m := w.boot("m", nil, false)
	if a == nil || m == nil {
		return
	}
	ctx := context.Background()
	writer, intruder := a.env.Identity.ID, m.env.Identity.ID
	kindOpen, kindPriv := vstub.NdChoice("ac-kind-open", 2), vstub.NdChoice("ac-kind-private", 2)
	var openList []string
	switch vstub.NdChoice("open-list", 2) {
	case 0:
		openList = []string{"*"}
	case 1:
		openList = []string{writer, intruder}
	}
	// creator only: explicit, or (ipfs controller only: the simple controller has
	// no default, an empty list there means nobody) by default
	privList := []string{writer}
	if kindPriv == 0 && vstub.NdChoice("private-list", 2) == 0 {
		privList = nil
	}
	wantPriv := []string{writer}

	mk := func(name string, kind int, list []string) Store {
		st, err := a.o.Create(ctx, name, "eventlog", &CreateDBOptions{AccessController: c03Params(kind, list), IO: a.env.IO})
		if err != nil {
			vstub.Fail("C03 Create failed")
			return nil
		}
		a.stores[st.Address().String()] = st
		return st
	}
	var pub, priv Store
	if vstub.NdChoice("order", 2) == 0 {
		pub = mk("board", kindOpen, openList)
		priv = mk("journal", kindPriv, privList)
	} else {
		priv = mk("journal", kindPriv, privList)
		pub = mk("board", kindOpen, openList)
	}
	if pub == nil || priv == nil {
		return
	}
	vstub.Cover("created")
	got, err := priv.AccessController().GetAuthorizedByRole("write")
	vstub.Assert(err == nil && sameList(got, wantPriv), "C03 the restricted database's controller reports its own write list")
	got, err = pub.AccessController().GetAuthorizedByRole("write")
	vstub.Assert(err == nil && sameList(got, openList), "C03 the permissive database's controller reports its own write list")

	// the writer writes one entry to each
	if _, err := pub.(iface.EventLogStore).Add(ctx, []byte("hello")); err != nil {
		vstub.Fail("C03 the creator cannot write to its permissive database")
		return
	}
	if _, err := priv.(iface.EventLogStore).Add(ctx, []byte("mine")); err != nil {
		vstub.Fail("C03 the creator cannot write to its restricted database")
		return
	}
	vstub.WaitIdle()

	// the non-writer forges an entry for the restricted database in a log of its
	// own (nothing stops it locally) and delivers it to the writer's instance
	privAddr := priv.Address().String()
	l, err := ipfslog.NewLog(m.env.IPFS, m.env.Identity, &ipfslog.LogOptions{ID: privAddr, IO: m.env.IO})
	if err != nil {
		vstub.Fail("C03 NewLog failed")
		return
	}
	data, _ := operation.NewOperation(nil, "ADD", []byte("not mine")).Marshal()
	rogue, err := l.Append(ctx, data, nil)
	if err != nil {
		vstub.Fail("C03 rogue Append failed")
		return
	}
	payload, err := a.o.messageMarshaler.Marshal(&iface.MessageExchangeHeads{Address: privAddr, Heads: []*entry.Entry{rogue.(*entry.Entry)}})
	if err != nil {
		vstub.Fail("C03 Marshal failed")
		return
	}
	// optionally the non-writer first announces a COPY of the writer's genuine entry
	// whose claimed address is the rogue entry's: refused (wrong address), and whatever
	// verdict the controller computed on the way must not stick to that address
	if vstub.NdChoice("spoofed-address-first", 2) == 1 {
		sp := priv.OpLog().Heads().Slice()[0].Copy()
		sp.SetHash(rogue.GetHash())
		_ = priv.Sync(ctx, []ipfslog.Entry{sp})
		vstub.WaitIdle()
		vstub.Cover("spoofed-address-first")
	}
	switch vstub.NdChoice("route", 3) {
	case 0:
		_ = priv.Sync(ctx, []ipfslog.Entry{rogue.Copy()})
		vstub.Cover("via-sync")
	case 1:
		if err := w.net.Inject(m.id, a.id, payload); err != nil {
			vstub.Fail("C03 inject failed")
		}
		vstub.Cover("via-direct-channel")
	case 2:
		vstub.Assert(w.net.InjectTopic(a.id, privAddr, payload), "C03 harness: the instance is subscribed to the database topic")
		vstub.Cover("via-topic")
	}
	vstub.WaitIdle()
	vstub.Assert(!sysHolds(priv, rogue), "C03 an entry of a non-writer never enters the restricted database")
	vstub.Assert(priv.OpLog().Len() == 1, "C03 the restricted database holds only the writer's entry")
	ops, lerr := priv.(iface.EventLogStore).List(ctx, nil)
	vstub.Assert(lerr == nil && len(ops) == 1, "C03 the restricted database shows only the writer's entry")

	// the permissive database still accepts the other identity (its list is its own too)
	l2, err := ipfslog.NewLog(m.env.IPFS, m.env.Identity, &ipfslog.LogOptions{ID: pub.Address().String(), IO: m.env.IO})
	if err != nil {
		vstub.Fail("C03 NewLog failed")
		return
	}
	ok2, err := l2.Append(ctx, data, nil)
	if err != nil {
		vstub.Fail("C03 Append failed")
		return
	}
	_ = pub.Sync(ctx, []ipfslog.Entry{ok2.Copy()})
	vstub.WaitIdle()
	vstub.Assert(sysHolds(pub, ok2), "C03 an authorised identity's entry is accepted by the permissive database")
	vstub.Cover("delivered")

	// a local write by the non-writer on its own replica is refused when the
	// write list travels with the database (manifest-backed controller)
	if kindPriv == 0 {
		// the opener may pass access-controller parameters of its own: an explicit
		// list naming itself, or a value it used before to create a database of its own
		// (the controller's defaulting wrote the creator's id into it); the write list
		// of an OPENED database is the one recorded at its creation all the same
		oopts := &CreateDBOptions{IO: m.env.IO}
		switch vstub.NdChoice("opener-parameters", 3) {
		case 1:
			oopts.AccessController = acParams([]string{intruder})
			vstub.Cover("opener-passes-own-list")
		case 2:
			reused := acParams(nil)
			if _, err := m.o.Create(ctx, "own", "eventlog", &CreateDBOptions{AccessController: reused, IO: m.env.IO}); err != nil {
				vstub.Fail("C03 the non-writer cannot create a database of its own")
				return
			}
			oopts.AccessController = reused
			vstub.Cover("opener-reuses-parameters")
		}
		rs, err := m.o.Open(ctx, privAddr, oopts)
		if err != nil {
			vstub.Fail("C03 the non-writer cannot open the database")
			return
		}
		gotW, gerr := rs.AccessController().GetAuthorizedByRole("write")
		vstub.Assert(gerr == nil && sameList(gotW, wantPriv), "C03 an opened database enforces the write list recorded at its creation, whatever parameters the opener passes")
		_, werr := rs.(iface.EventLogStore).Add(ctx, []byte("x"))
		vstub.Assert(werr != nil, "C03 a local write by a non-writer fails with an error")
		vstub.Assert(rs.OpLog().Len() == 0, "C03 a refused local write changes nothing")
		vstub.Cover("local-write-refused")
	}
}

var _ = peer.ID("")

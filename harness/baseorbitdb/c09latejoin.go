package baseorbitdb

import (
	"berty.tech/go-orbit-db/internal/vstub"
)

func init() {
	verifHarnesses["VerifC09LateJoin"] = VerifC09LateJoin
}

// VerifC09LateJoin: the messages a store BUILDS.  An instance holds databases A
// and B (both written); a peer opens A first, A is written 1..3 more times while
// that peer is on A's topic (write announcements), and only then the peer opens B
// (so B's heads are exchanged after A's announcements were built).  Every message
// on the wire - publication or direct - carries only heads of the database it
// names, on that database's topic; the peer ends with each database's own entries.
func VerifC09LateJoin() {
	w := newSysWorld()
	a := w.boot("a", nil, false)
	b := w.boot("b", nil, false)
	if a == nil || b == nil {
		return
	}
	sa, sb := a.create("dbA", "eventlog"), a.create("dbB", "eventlog")
	if sa == nil || sb == nil {
		return
	}
	addrA, addrB := sa.Address().String(), sb.Address().String()
	if a.add(addrA, 'a') == nil || a.add(addrB, 'b') == nil {
		return
	}
	if b.open(addrA) == nil {
		return
	}
	vstub.WaitIdle()
	n := 1 + vstub.NdChoice("announcements-of-A", 3)
	for k := 0; k < n; k++ {
		if a.add(addrA, 'a') == nil {
			return
		}
		vstub.WaitIdle()
	}
	if b.open(addrB) == nil {
		return
	}
	vstub.WaitIdle()
	vstub.Cover("peer-joined-B-after-announcements-of-A")
	w.wireClean(a.o)
	for _, addr := range []string{addrA, addrB} {
		st := b.stores[addr]
		for _, e := range w.acks[addr] {
			vstub.Assert(sysHolds(st, e), "C02/C09 the peer holds every entry of each database it opened")
		}
		for _, e := range st.OpLog().Values().Slice() {
			vstub.Assert(e.GetLogID() == addr, "C09 a database never holds entries of another database")
		}
	}
}

package baseorbitdb

import (
	"context"

	ipfslog "berty.tech/go-ipfs-log"
	"berty.tech/go-orbit-db/iface"
	"berty.tech/go-orbit-db/internal/vstub"
)

// VerifC05Reopen: clean close / reopen cycles of a real instance on a
// directory (cache manager cacheleveldown over the disk model).  A database is
// created by name and written; the instance is closed; a new instance on the
// same directory reopens it - by address, or by name with Create (what the
// Log / KeyValue / Docs helpers do, which goes through Create with Overwrite) -
// possibly after an attempt that FAILED (network unreachable while the manifest
// is read, caller's context cancelled, store type not registered); whatever
// happened in between, the final healthy reopen + Load(-1) yields every
// acknowledged entry, only those, and the database can still be written.
func VerifC05Reopen() {
	cycles := vstub.Param("CYCLES", 2)
	w := newSysWorld()
	ctx := context.Background()
	a := w.boot("a", nil, false)
	if a == nil {
		return
	}
	typ := "eventlog"
	st := a.create("journal", typ)
	if st == nil {
		return
	}
	addr := st.Address().String()
	var acks []ipfslog.Entry
	write := func(p *sysPeer, s Store) bool {
		op, err := s.(iface.EventLogStore).Add(ctx, []byte{'x', vstub.NdByte("val")})
		if err != nil {
			vstub.Fail("C05 Add failed")
			return false
		}
		acks = append(acks, op.GetEntry())
		return true
	}
	if !write(a, st) || !write(a, st) {
		return
	}
	cur := a
	for c := 0; c < cycles; c++ {
		if err := cur.o.Close(); err != nil {
			vstub.Fail("C05 instance Close failed")
			return
		}
		vstub.WaitIdle()
		cur.o = nil
		next := w.boot("a", cur, false)
		if next == nil {
			return
		}
		yes := true
		byName := func(octx context.Context) (Store, error) {
			return next.o.Open(octx, "journal", &CreateDBOptions{Create: &yes, StoreType: &typ,
				AccessController: acParams([]string{"*"}), IO: next.env.IO})
		}
		byAddr := func(octx context.Context) (Store, error) {
			return next.o.Open(octx, addr, &CreateDBOptions{IO: next.env.IO})
		}
		// an attempt that fails
		if fk := vstub.NdChoice("failed-attempt", 4); fk > 0 {
			open := byName
			if vstub.NdChoice("failed-how", 2) == 1 {
				open = byAddr
			}
			var ferr error
			switch fk {
			case 1:
				w.dag.Offline = true
				_, ferr = open(ctx)
				w.dag.Offline = false
			case 2:
				cctx, cancel := context.WithCancel(ctx)
				cancel()
				_, ferr = open(cctx)
			case 3:
				next.o.UnregisterStoreType(typ)
				_, ferr = open(ctx)
				next.o.RegisterStoreType(typ, storeCtors[typ])
			}
			if ferr == nil {
				// the attempt happened to succeed (e.g. nothing had to be fetched): fine too
				vstub.Cover("attempt-succeeded")
			} else {
				vstub.Cover("attempt-failed")
			}
			if ferr != nil && vstub.NdChoice("restart-after-failure", 2) == 1 {
				_ = next.o.Close()
				vstub.WaitIdle()
				next.o = nil
				next = w.boot("a", next, false)
				if next == nil {
					return
				}
			} else if ferr == nil {
				// close what the successful attempt opened before reopening
				_ = next.o.Close()
				vstub.WaitIdle()
				next.o = nil
				next = w.boot("a", next, false)
				if next == nil {
					return
				}
			}
		}
		// the healthy reopen
		var rs Store
		var err error
		if vstub.NdChoice("reopen-how", 2) == 0 {
			rs, err = byAddr(ctx)
			vstub.Cover("by-address")
		} else {
			rs, err = byName(ctx)
			vstub.Cover("by-name")
		}
		vstub.Assert(err == nil, "C05 the database reopens from its directory")
		if err != nil {
			return
		}
		vstub.Assert(rs.Address().String() == addr, "C05 the reopened database is the same database")
		if err := rs.Load(ctx, -1); err != nil {
			vstub.Fail("C05 Load after reopen failed")
			return
		}
		vstub.WaitIdle()
		vstub.Cover("reopened")
		for _, e := range acks {
			vstub.Assert(sysHolds(rs, e), "C05 after a clean restart the log contains every acknowledged write")
		}
		vstub.Assert(rs.OpLog().Len() == len(acks), "C05 after a clean restart the log contains only entries that were written")
		next.stores[addr] = rs
		if !write(next, rs) {
			return
		}
		cur = next
	}
}

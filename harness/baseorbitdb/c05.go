package baseorbitdb

import (
	"context"

	ipfslog "berty.tech/go-ipfs-log"
	acipfs "berty.tech/go-orbit-db/accesscontroller/ipfs"
	"berty.tech/go-orbit-db/cache/cacheleveldown"
	"berty.tech/go-orbit-db/iface"
	"berty.tech/go-orbit-db/internal/vstub"
	"berty.tech/go-orbit-db/internal/vstubodb"
	"berty.tech/go-orbit-db/stores/eventlogstore"
)

// VerifC05Reopen: clean close / reopen cycles of a real instance on a
// directory (cache manager cacheleveldown over the disk model).  A database is
// created by name and written; the instance is closed; a new instance on the
// same directory reopens it - by address, or by name with Create (what the
// Log / KeyValue / Docs helpers do, which goes through Create with Overwrite) -
// possibly after an attempt that FAILED (network unreachable while the manifest
// is read, caller's context cancelled, store type not registered); whatever
// happened in between, the final healthy reopen + Load(-1) yields every
// acknowledged entry, only those, and the database can still be written.
func VerifC05Reopen() {
	cycles := vstub.Param("CYCLES", 2)
	w := newSysWorld()
	ctx := context.Background()
	a := w.boot("a", nil, false)
	if a == nil {
		return
	}
	typ := "eventlog"
	st := a.create("journal", typ)
	if st == nil {
		return
	}
	addr := st.Address().String()
	var acks []ipfslog.Entry
	write := func(p *sysPeer, s Store) bool {
		op, err := s.(iface.EventLogStore).Add(ctx, []byte{'x', vstub.NdByte("val")})
		if err != nil {
			vstub.Fail("C05 Add failed")
			return false
		}
		acks = append(acks, op.GetEntry())
		return true
	}
	if !write(a, st) || !write(a, st) {
		return
	}
	cur := a
	for c := 0; c < cycles; c++ {
		if err := cur.o.Close(); err != nil {
			vstub.Fail("C05 instance Close failed")
			return
		}
		vstub.WaitIdle()
		cur.o = nil
		next := w.boot("a", cur, false)
		if next == nil {
			return
		}
		yes := true
		byName := func(octx context.Context) (Store, error) {
			return next.o.Open(octx, "journal", &CreateDBOptions{Create: &yes, StoreType: &typ,
				AccessController: acParams([]string{"*"}), IO: next.env.IO})
		}
		byAddr := func(octx context.Context) (Store, error) {
			return next.o.Open(octx, addr, &CreateDBOptions{IO: next.env.IO})
		}
		// an attempt that fails
		if fk := vstub.NdChoice("failed-attempt", 4); fk > 0 {
			open := byName
			if vstub.NdChoice("failed-how", 2) == 1 {
				open = byAddr
			}
			var ferr error
			switch fk {
			case 1:
				w.dag.Offline = true
				_, ferr = open(ctx)
				w.dag.Offline = false
			case 2:
				cctx, cancel := context.WithCancel(ctx)
				cancel()
				_, ferr = open(cctx)
			case 3:
				next.o.UnregisterStoreType(typ)
				_, ferr = open(ctx)
				next.o.RegisterStoreType(typ, storeCtors[typ])
			}
			if ferr == nil {
				// the attempt happened to succeed (e.g. nothing had to be fetched): fine too
				vstub.Cover("attempt-succeeded")
			} else {
				vstub.Cover("attempt-failed")
			}
			if ferr != nil && vstub.NdChoice("restart-after-failure", 2) == 1 {
				_ = next.o.Close()
				vstub.WaitIdle()
				next.o = nil
				next = w.boot("a", next, false)
				if next == nil {
					return
				}
			} else if ferr == nil {
				// close what the successful attempt opened before reopening
				_ = next.o.Close()
				vstub.WaitIdle()
				next.o = nil
				next = w.boot("a", next, false)
				if next == nil {
					return
				}
			}
		}
		// the healthy reopen
		var rs Store
		var err error
		if vstub.NdChoice("reopen-how", 2) == 0 {
			rs, err = byAddr(ctx)
			vstub.Cover("by-address")
		} else {
			rs, err = byName(ctx)
			vstub.Cover("by-name")
		}
		vstub.Assert(err == nil, "C05 the database reopens from its directory")
		if err != nil {
			return
		}
		vstub.Assert(rs.Address().String() == addr, "C05 the reopened database is the same database")
		if err := rs.Load(ctx, -1); err != nil {
			vstub.Fail("C05 Load after reopen failed")
			return
		}
		vstub.WaitIdle()
		vstub.Cover("reopened")
		for _, e := range acks {
			vstub.Assert(sysHolds(rs, e), "C05 after a clean restart the log contains every acknowledged write")
		}
		vstub.Assert(rs.OpLog().Len() == len(acks), "C05 after a clean restart the log contains only entries that were written")
		next.stores[addr] = rs
		if !write(next, rs) {
			return
		}
		cur = next
	}
}

// bootFull starts a real instance through the PUBLIC constructor NewOrbitDB with
// no keystore and no identity given: the keystore (leveldb under
// <directory>/<peer id>/keystore) and the identity (idp.CreateIdentity over it,
// the real go-ipfs-log keystore and orbitdb identity provider; key generation
// and signatures are symbolic stand-ins) are created by the real code.
func bootFull(w *sysWorld, name string, dir *string) (*orbitDB, *sysPeer) {
	if dir == nil {
		return bootFullAt(w, name, nil)
	}
	d := vstub.Dir(*dir)
	return bootFullAt(w, name, &d)
}

// bootFullAt is bootFull with the directory option given as is (an already
// resolved path, possibly another spelling of a directory: vstub.DirAlias).
func bootFullAt(w *sysWorld, name string, dir *string) (*orbitDB, *sysPeer) {
	p := &sysPeer{w: w, name: name, stores: map[string]Store{}}
	p.blocks = vstub.NewBlocks(nil)
	for _, q := range w.peers {
		if q.name == name {
			p.blocks = q.blocks
		}
	}
	env := vstubodb.NewEnv(name, 1, "unused", p.blocks, nil)
	env.IPFS.DagStore = w.dag
	p.env = env
	p.id = env.IPFS.Peer
	p.node = w.net.Node(p.id)
	opts := &NewOrbitDBOptions{Cache: cacheleveldown.New(nil), DirectChannelFactory: p.node.DirectFactory(),
		PubSub: p.node, EventBus: env.Bus, PeerID: p.id}
	if dir != nil {
		d := *dir
		opts.Directory = &d
	}
	o, err := NewOrbitDB(context.Background(), env.IPFS, opts)
	if err != nil {
		return nil, p
	}
	odb := o.(*orbitDB)
	odb.RegisterStoreType("eventlog", eventlogstore.NewOrbitDBEventLogStore)
	_ = odb.RegisterAccessControllerType(acipfs.NewIPFSAccessController)
	p.o = odb
	found := false
	for i, q := range w.peers {
		if q.name == name {
			w.peers[i] = p
			found = true
		}
	}
	if !found {
		w.peers = append(w.peers, p)
	}
	return odb, p
}

// VerifC05Identity: "the peer keeps its identity across the restart, so it can
// still write".  An instance made by NewOrbitDB on a directory creates a
// database with the default write list (its creator only) and writes; after
// Close, a new instance on the SAME directory has the same identity (id and
// public key), reopens the database and can still write; an instance on
// ANOTHER directory (or with the in-memory default) is a different identity and
// its write is refused; while the first instance is still open a second one on
// the same directory cannot take over its keystore.
func VerifC05Identity() {
	w := newSysWorld()
	ctx := context.Background()
	dir := "/data/alice"
	o1, p1 := bootFull(w, "alice", &dir)
	if o1 == nil {
		vstub.Fail("C05 NewOrbitDB failed")
		return
	}
	id1 := o1.Identity()
	vstub.Assert(id1 != nil && id1.ID != "" && len(id1.PublicKey) > 0, "C05 harness: the instance has an identity")
	st, err := o1.Create(ctx, "journal", "eventlog", &CreateDBOptions{IO: p1.env.IO})
	if err != nil {
		vstub.Fail("C05 Create failed")
		return
	}
	addr := st.Address().String()
	first, err := st.(iface.EventLogStore).Add(ctx, []byte("one"))
	if err != nil {
		vstub.Fail("C05 the creator cannot write to its own database")
		return
	}
	vstub.Cover("created")

	switch vstub.NdChoice("second-instance", 4) {
	case 0: // clean restart on the same directory
		if err := o1.Close(); err != nil {
			vstub.Fail("C05 Close failed")
			return
		}
		vstub.WaitIdle()
		var o2 *orbitDB
		var p2 *sysPeer
		if vstub.NdChoice("restart-spelling", 2) == 1 {
			// the same directory designated by ANOTHER string (a symbolic link natively)
			alias := vstub.DirAlias("/mnt/link-to-alice", dir)
			o2, p2 = bootFullAt(w, "alice", &alias)
			vstub.Cover("restarted-through-another-spelling")
		} else {
			o2, p2 = bootFull(w, "alice", &dir)
		}
		vstub.Assert(o2 != nil, "C05 after Close a new instance starts on the same directory")
		if o2 == nil {
			return
		}
		id2 := o2.Identity()
		vstub.Assert(id2.ID == id1.ID, "C05 the peer keeps its identity id across a restart")
		vstub.Assert(string(id2.PublicKey) == string(id1.PublicKey), "C05 the peer keeps its public key across a restart")
		rs, err := o2.Open(ctx, addr, &CreateDBOptions{IO: p2.env.IO})
		if err != nil {
			vstub.Fail("C05 the database does not reopen")
			return
		}
		if err := rs.Load(ctx, -1); err != nil {
			vstub.Fail("C05 Load failed")
			return
		}
		vstub.WaitIdle()
		vstub.Assert(sysHolds(rs, first.GetEntry()), "C05 the acknowledged write is there after the restart")
		_, werr := rs.(iface.EventLogStore).Add(ctx, []byte("two"))
		vstub.Assert(werr == nil, "C05 after a restart the peer can still write to its own database")
		vstub.Assert(rs.OpLog().Len() == 2, "C05 the write after the restart extends the recovered log")
		vstub.Cover("restarted-same-identity")
	case 1: // another directory: another identity, which is not a writer
		_ = o1.Close()
		vstub.WaitIdle()
		other := "/data/elsewhere"
		o2, p2 := bootFull(w, "alice", &other)
		if o2 == nil {
			vstub.Fail("C05 NewOrbitDB failed")
			return
		}
		vstub.Assert(o2.Identity().ID != id1.ID, "C05 harness: a fresh directory yields a fresh identity")
		rs, err := o2.Open(ctx, addr, &CreateDBOptions{IO: p2.env.IO})
		if err != nil {
			return
		}
		_, werr := rs.(iface.EventLogStore).Add(ctx, []byte("intruder"))
		vstub.Assert(werr != nil, "C03/C05 an identity other than the creator cannot write to a creator-only database")
		vstub.Cover("other-directory")
	case 2: // in-memory default: a fresh identity every time
		_ = o1.Close()
		vstub.WaitIdle()
		o2, _ := bootFull(w, "alice", nil)
		if o2 == nil {
			vstub.Fail("C05 NewOrbitDB failed")
			return
		}
		vstub.Assert(o2.Identity().ID != id1.ID, "C05 harness: the in-memory default yields a fresh identity")
		vstub.Cover("in-memory")
	case 3: // the first instance is still open: its keystore directory is locked
		o2, _ := bootFull(w, "alice", &dir)
		vstub.Assert(o2 == nil, "C05 a second instance cannot take over the keystore of one that is still open")
		vstub.Cover("still-open")
		// and once the first one is closed the directory is usable again
		_ = o1.Close()
		vstub.WaitIdle()
		o3, _ := bootFull(w, "alice", &dir)
		vstub.Assert(o3 != nil, "C18/C05 Close releases the keystore: the directory is reopenable")
		if o3 != nil {
			vstub.Assert(o3.Identity().ID == id1.ID, "C05 the peer keeps its identity id across a restart")
		}
	}
}

package baseorbitdb

import (
	"context"

	"berty.tech/go-orbit-db/iface"
	"berty.tech/go-orbit-db/internal/vstub"
)

func init() {
	verifHarnesses["VerifC05WriteAfterClose"] = VerifC05WriteAfterClose
}

// VerifC05WriteAfterClose: a writer keeps calling Add on a store handle while the
// handle (or the whole instance) is being closed - the calls made after the
// close either fail or are durable.  W writes before the close, 1..2 after it;
// then the instance is closed, a new instance on the same directory reopens the
// database and loads it: every write that was ACKNOWLEDGED (returned success),
// before or after the close, is listed.
func VerifC05WriteAfterClose() {
	dag := vstub.NewMemDag()
	blocks := vstub.NewBlocks(nil)
	p1, e1 := newInstance("alice", "/data/alice", dag, blocks)
	if p1 == nil {
		return
	}
	ctx := context.Background()
	no, yes := false, true
	s1, err := p1.Create(ctx, "db", "eventlog", &CreateDBOptions{IO: e1.IO, Replicate: &no})
	if err != nil {
		vstub.Fail("C05 Create failed")
		return
	}
	addr := s1.Address().String()
	log := s1.(iface.EventLogStore)
	var acked []string
	before := 1 + vstub.NdChoice("writes-before", 2)
	for k := 0; k < before; k++ {
		op, err := log.Add(ctx, []byte{'b', byte('0' + k)})
		if err != nil {
			vstub.Fail("C05 Add on an open store failed")
			return
		}
		acked = append(acked, op.GetEntry().GetHash().String())
	}
	switch vstub.NdChoice("closed", 2) {
	case 0:
		_ = s1.Close()
		vstub.Cover("store-closed")
	case 1:
		_ = p1.Close()
		vstub.Cover("instance-closed")
	}
	vstub.WaitIdle()
	after := 1 + vstub.NdChoice("writes-after", 2)
	for k := 0; k < after; k++ {
		op, err := log.Add(ctx, []byte{'a', byte('0' + k)})
		if err != nil {
			vstub.Cover("write-after-close-refused")
			continue
		}
		vstub.Cover("write-after-close-acknowledged")
		acked = append(acked, op.GetEntry().GetHash().String())
	}
	_ = p1.Close()
	vstub.WaitIdle()
	p2, e2 := newInstance("alice", "/data/alice", dag, blocks)
	if p2 == nil {
		return
	}
	r, err := p2.Open(ctx, addr, &CreateDBOptions{IO: e2.IO, Replicate: &no, LocalOnly: &yes})
	if err != nil {
		vstub.Fail("C05 reopening the database after a clean close failed")
		return
	}
	if err := r.Load(ctx, -1); err != nil {
		vstub.Fail("C05 Load after reopen failed")
		return
	}
	vstub.WaitIdle()
	vstub.Cover("reloaded")
	have := map[string]bool{}
	for _, e := range r.OpLog().Values().Slice() {
		have[e.GetHash().String()] = true
	}
	for _, h := range acked {
		vstub.Assert(have[h], "C05 every acknowledged write - also one acknowledged after the handle was closed - is recovered after a clean close and reopen")
	}
}

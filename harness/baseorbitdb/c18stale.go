package baseorbitdb

import (
	"context"

	"berty.tech/go-orbit-db/iface"
	"berty.tech/go-orbit-db/internal/vstub"
	"berty.tech/go-orbit-db/stores/operation"
)

func init() {
	verifHarnesses["VerifC18StaleHandle"] = VerifC18StaleHandle
}

// VerifC18StaleHandle: what an instance remembers about a database after its
// handle was closed or dropped.
//   - closed, REOPENED on the same instance, then the stale first handle is
//     closed again (an explicit Close plus a deferred one): a no-op - the live
//     second handle stays registered with the instance, keeps working, and is
//     closed by the instance's Close (nothing is left running); the user's
//     CloseFunc of each handle ran exactly once;
//   - DROPPED: the instance no longer knows the database locally - a local-only
//     open is refused, and creating it again is not refused as "already exists"
//     (C14), on the same instance and on a new instance over the same directory.
func VerifC18StaleHandle() {
	dag := vstub.NewMemDag()
	blocks := vstub.NewBlocks(nil)
	p1, e1 := newInstance("alice", "/data/alice", dag, blocks)
	if p1 == nil {
		return
	}
	ctx := context.Background()
	no, yes := false, true
	kind := []string{"eventlog", "keyvalue", "docstore"}[vstub.NdChoice("type", 3)]
	closed1, closed2 := 0, 0
	s1, err := p1.Create(ctx, "db", kind, &CreateDBOptions{IO: e1.IO, Replicate: &no, CloseFunc: func() { closed1++ }})
	if err != nil {
		vstub.Fail("C18 Create failed")
		return
	}
	addr := s1.Address().String()
	if _, err := s1.AddOperation(ctx, opFor(kind, "one"), nil); err != nil {
		vstub.Fail("C18 write failed")
		return
	}
	switch vstub.NdChoice("how", 2) {
	case 0:
		if err := s1.Close(); err != nil {
			vstub.Fail("C18 Close failed")
			return
		}
		vstub.WaitIdle()
		vstub.Assert(closed1 == 1, "C18 the handle's CloseFunc ran once when it was closed")
		h2, err := p1.Open(ctx, addr, &CreateDBOptions{IO: e1.IO, Replicate: &no, LocalOnly: &yes, CloseFunc: func() { closed2++ }})
		if err != nil {
			vstub.Fail("C18 reopening a closed database on the same instance failed")
			return
		}
		if err := h2.Load(ctx, -1); err != nil {
			vstub.Fail("C18 Load failed")
			return
		}
		vstub.WaitIdle()
		// the stale handle is closed again, once or twice
		for k := 0; k < 1+vstub.NdChoice("again", 2); k++ {
			vstub.Assert(s1.Close() == nil, "C18 closing a closed handle again returns no error")
		}
		vstub.WaitIdle()
		vstub.Cover("stale-handle-closed-again")
		vstub.Assert(closed1 == 1, "C18 closing a closed handle again does not run its CloseFunc again")
		reg, ok := p1.getStore(addr)
		vstub.Assert(ok && reg == iface.Store(h2), "C18 closing a stale handle again leaves the live handle of the same database registered with the instance")
		if _, err := h2.AddOperation(ctx, opFor(kind, "two"), nil); err != nil {
			vstub.Fail("C18 the live handle cannot be written after the stale one was closed again")
		}
		vstub.Assert(h2.OpLog().Len() == 2, "C18 the live handle holds its entries")
		if err := p1.Close(); err != nil {
			vstub.Fail("C18 instance Close returned an error")
		}
		vstub.WaitIdle()
		vstub.Assert(closed2 == 1, "C18 the instance's Close closes the live handle (its CloseFunc ran once)")
		vstub.Assert(vstub.LiveThreads("berty.tech/go-orbit-db/stores") == 0, "C18 closing the instance leaves no store activity behind (a stale handle was closed again)")
		vstub.Assert(vstub.LiveThreads("berty.tech/go-orbit-db/baseorbitdb") == 0, "C18 closing the instance leaves no instance activity behind (a stale handle was closed again)")
		vstub.Cover("instance-closed")
	case 1:
		if err := s1.Drop(); err != nil {
			vstub.Fail("C18 Drop returned an error")
			return
		}
		vstub.WaitIdle()
		vstub.Cover("dropped")
		p := p1
		e := e1
		if vstub.NdChoice("new-instance", 2) == 1 {
			_ = p1.Close()
			vstub.WaitIdle()
			p, e = newInstance("alice", "/data/alice", dag, blocks)
			if p == nil {
				return
			}
			vstub.Cover("new-instance")
		}
		switch vstub.NdChoice("then", 2) {
		case 0:
			_, err := p.Open(ctx, addr, &CreateDBOptions{IO: e.IO, Replicate: &no, LocalOnly: &yes})
			vstub.Assert(err != nil, "C14 a local-only open of a dropped database is refused")
			vstub.Cover("local-only-open-after-drop")
		case 1:
			s, err := p.Create(ctx, "db", kind, &CreateDBOptions{IO: e.IO, Replicate: &no})
			vstub.Assert(err == nil, "C14 creating a dropped database again is not refused as already existing")
			if err == nil {
				vstub.Assert(s.Address().String() == addr, "C14 the same parameters give the same address after a drop")
				vstub.Assert(s.OpLog().Len() == 0, "C18 a database created again after a drop starts empty")
			}
			vstub.Cover("create-after-drop")
		}
	}
}

// opFor returns an operation the store type's index understands.
func opFor(kind, val string) operation.Operation {
	switch kind {
	case "keyvalue":
		k := "k-" + val
		return operation.NewOperation(&k, "PUT", []byte(val))
	case "docstore":
		k := "d-" + val
		return operation.NewOperation(&k, "PUT", []byte(`{"_id":"`+k+`"}`))
	}
	return operation.NewOperation(nil, "ADD", []byte(val))
}

package baseorbitdb

import (
	"context"
	"encoding/json"
	"fmt"

	ipfslog "berty.tech/go-ipfs-log"
	"berty.tech/go-ipfs-log/entry"
	idp "berty.tech/go-ipfs-log/identityprovider"
	odbaddress "berty.tech/go-orbit-db/address"
	"berty.tech/go-orbit-db/cache/cacheleveldown"
	"berty.tech/go-orbit-db/iface"
	"berty.tech/go-orbit-db/internal/vstub"
	"berty.tech/go-orbit-db/internal/vstubodb"
	"berty.tech/go-orbit-db/stores"
	"berty.tech/go-orbit-db/stores/documentstore"
	"berty.tech/go-orbit-db/stores/eventlogstore"
	"berty.tech/go-orbit-db/stores/kvstore"
	"berty.tech/go-orbit-db/stores/operation"

	acipfs "berty.tech/go-orbit-db/accesscontroller/ipfs"
	acsimple "berty.tech/go-orbit-db/accesscontroller/simple"
	cid "github.com/ipfs/go-cid"
	coreiface "github.com/ipfs/kubo/core/coreiface"
	"github.com/libp2p/go-libp2p/core/peer"
)

// ---------------------------------------------------------------------------
// A closed system of REAL orbitDB instances wired by the REAL code only:
// newOrbitDB -> makeDirectChannel / monitorDirectChannel, Create / Open ->
// createStore -> store constructors -> InitBaseStore (storeListener,
// pubSubChanListener, onNewPeerJoined, exchangeHeads, Sync, replicator, ...)
// and handleEventExchangeHeads.  The only stand-ins are the network
// (vstubodb.Net: pubsub + pairwise direct channel), IPFS blocks/DAG, the disk
// under the cache manager and the identity provider.
// ---------------------------------------------------------------------------

type sysPeer struct {
	sharedOpts bool
	opts       *CreateDBOptions
	w          *sysWorld
	name       string
	dir        string
	id         peer.ID
	o          *orbitDB
	env        *vstubodb.Env
	node       *vstubodb.NetNode
	blocks     *vstub.Blocks
	stores     map[string]Store // by database address
	wrote      bool             // this peer has acknowledged writes
	gen        int              // number of times its storage was wiped
	// cancelParent cancels the context the instance was created with
	cancelParent context.CancelFunc
}

type sysWorld struct {
	net   *vstubodb.Net
	dag   *vstub.MemDag
	peers []*sysPeer
	acks  map[string][]ipfslog.Entry // database address -> acknowledged writes
}

func newSysWorld() *sysWorld {
	return &sysWorld{net: vstubodb.NewNet(), dag: vstub.NewMemDag(), acks: map[string][]ipfslog.Entry{}}
}

// boot starts a (new incarnation of a) peer: a fresh instance over the peer's
// directory and block store.  prev is the previous incarnation or nil.
func (w *sysWorld) boot(name string, prev *sysPeer, wipe bool) *sysPeer {
	p := &sysPeer{w: w, name: name, dir: "/data/" + name, stores: map[string]Store{}}
	if prev != nil && !wipe {
		p.blocks = prev.blocks
		p.wrote, p.gen, p.dir = prev.wrote, prev.gen, prev.dir
	} else {
		// first boot, or a restart that lost its storage (the default
		// configuration keeps the cache in memory): empty directory, no blocks
		p.blocks = vstub.NewBlocks(nil)
		if prev != nil {
			p.gen = prev.gen + 1
			p.dir = p.dir + "-" + string(rune('0'+p.gen))
		}
	}
	env := vstubodb.NewEnv(name, 1, "unused", p.blocks, nil)
	env.IPFS.DagStore = w.dag
	p.env = env
	p.id = env.IPFS.Peer
	// blocks held by a peer that is connected right now are fetchable
	p.blocks.PeersFn = func() []*vstub.Blocks {
		var out []*vstub.Blocks
		for _, q := range w.peers {
			if q.name != name && q.o != nil && !w.net.IsCut(p.id, q.id) {
				out = append(out, q.blocks)
			}
		}
		return out
	}
	p.node = w.net.Node(p.id)
	d := vstub.Dir(p.dir)
	pctx, pcancel := context.WithCancel(context.Background())
	p.cancelParent = pcancel
	o, err := newOrbitDB(pctx, env.IPFS, env.Identity, &NewOrbitDBOptions{
		Cache: cacheleveldown.New(nil), Directory: &d, DirectChannelFactory: p.node.DirectFactory(),
		PubSub: p.node, EventBus: env.Bus, PeerID: p.id,
	})
	if err != nil {
		vstub.Fail("newOrbitDB failed")
		return nil
	}
	odb := o.(*orbitDB)
	odb.RegisterStoreType("eventlog", eventlogstore.NewOrbitDBEventLogStore)
	odb.RegisterStoreType("keyvalue", kvstore.NewOrbitDBKeyValue)
	odb.RegisterStoreType("docstore", documentstore.NewOrbitDBDocumentStore)
	_ = odb.RegisterAccessControllerType(acipfs.NewIPFSAccessController)
	_ = odb.RegisterAccessControllerType(acsimple.NewSimpleAccessController)
	p.o = odb
	for i, q := range w.peers {
		if q.name == name {
			w.peers[i] = p
			return p
		}
	}
	w.peers = append(w.peers, p)
	return p
}

// create makes database `name` on p (anyone may write).
func (p *sysPeer) create(name, typ string) Store {
	st, err := p.o.Create(context.Background(), name, typ, &CreateDBOptions{
		AccessController: acParams([]string{"*"}), IO: p.env.IO})
	if err != nil {
		vstub.Fail("sys: Create failed")
		return nil
	}
	p.stores[st.Address().String()] = st
	return st
}

// open opens the database at addr on p (as a second peer, or after a restart) and loads it.
func (p *sysPeer) open(addr string) Store {
	opts := &CreateDBOptions{IO: p.env.IO}
	if p.sharedOpts {
		// the caller reuses ONE options value for every database it opens
		if p.opts == nil {
			p.opts = opts
		}
		opts = p.opts
	}
	st, err := p.o.Open(context.Background(), addr, opts)
	if err != nil {
		vstub.Fail("sys: Open failed")
		return nil
	}
	p.stores[addr] = st
	if err := st.Load(context.Background(), -1); err != nil {
		vstub.Fail("sys: Load failed")
		return nil
	}
	return st
}

func (p *sysPeer) add(addr string, tag byte) ipfslog.Entry {
	st := p.stores[addr]
	op, err := st.(iface.EventLogStore).Add(context.Background(), []byte{tag, vstub.NdByte("val")})
	if err != nil {
		vstub.Fail("sys: Add failed")
		return nil
	}
	e := op.GetEntry()
	p.w.acks[addr] = append(p.w.acks[addr], e)
	p.wrote = true
	return e
}

func sysHashes(st Store) []string {
	var out []string
	for _, e := range st.OpLog().Values().Slice() {
		out = append(out, e.GetHash().String())
	}
	return out
}

func sysHolds(st Store, e ipfslog.Entry) bool {
	_, ok := st.OpLog().Get(e.GetHash())
	if !ok {
		return false
	}
	for _, x := range st.OpLog().Values().Slice() {
		if x.GetHash().Equals(e.GetHash()) {
			return true
		}
	}
	return false
}

// wireClean checks every message that went on the wire: a publication on a
// topic names that topic's database; every message carries only heads of the
// database it names (C09: nothing of one database travels on another's channels).
func (w *sysWorld) wireClean(o *orbitDB) {
	for _, m := range w.net.Messages() {
		msg := iface.MessageExchangeHeads{}
		if err := o.messageMarshaler.Unmarshal(m.Data, &msg); err != nil {
			vstub.Fail("sys: a message produced by the library does not decode")
			continue
		}
		if !m.Direct {
			vstub.Assert(msg.Address == m.Topic, "C09 a publication on a database's topic names that database")
		}
		for _, h := range msg.Heads {
			if h == nil {
				vstub.Fail("sys: the library sent a null head")
				continue
			}
			vstub.Assert(h.GetLogID() == msg.Address, "C09 a message carries only heads of the database it names")
		}
	}
}

// VerifSysHeal (C02, C09): N real instances hold database A (written) and
// database B (idle).  A symbolic fault plan interleaves writes with link cuts,
// heals, lost / duplicated announcements and restarts of a peer.  Then writes
// stop and every link is re-established (each side sees the other join).  At
// quiescence every replica of A holds every acknowledged write and all list the
// same entries; B is untouched everywhere and nothing of A travelled on B's
// channels.
func VerifSysHeal() {
	steps := vstub.Param("STEPS", 3)
	npeers := vstub.Param("PEERS", 2)
	faults := vstub.Param("FAULTS", 2) // kinds of fate per publication: 1 = delivered, 2 = +lost, 3 = +duplicated
	w := newSysWorld()
	var addrA, addrB string
	for k := 0; k < npeers; k++ {
		p := w.boot(string(rune('a'+k)), nil, false)
		if p == nil {
			return
		}
		if k == 0 {
			a := p.create("dbA", "eventlog")
			b := p.create("dbB", "eventlog")
			if a == nil || b == nil {
				return
			}
			addrA, addrB = a.Address().String(), b.Address().String()
		} else {
			if p.open(addrA) == nil || p.open(addrB) == nil {
				return
			}
		}
	}
	vstub.WaitIdle()
	if faults > 1 {
		w.net.Fault = func(from, to peer.ID, topic string) int { return vstub.NdChoice("fate", faults) }
	}
	for s := 0; s < steps; s++ {
		kind := vstub.NdChoice("step", 7)
		who := vstub.NdChoice("who", npeers)
		p := w.peers[who]
		switch kind {
		case 0: // a write on some peer; its announcement meets the fault plan
			if _, open := p.stores[addrA]; !open {
				continue
			}
			if p.add(addrA, byte('a'+who)) == nil {
				return
			}
			vstub.Cover("write")
		case 1: // cut the link between p and the next peer
			q := w.peers[(who+1)%npeers]
			w.net.Cut(p.id, q.id)
			vstub.Cover("cut")
		case 2: // heal it
			q := w.peers[(who+1)%npeers]
			w.net.Heal(p.id, q.id)
			vstub.Cover("heal")
		case 5:
			// p closes its replica of A (the store, not the instance) ...
			st, open := p.stores[addrA]
			if !open || p.o == nil {
				continue
			}
			if err := st.Close(); err != nil {
				vstub.Fail("sys: store Close failed")
				return
			}
			delete(p.stores, addrA)
			vstub.Cover("store-closed")
		case 6:
			// ... and opens it again later on the same instance
			if _, open := p.stores[addrA]; open || p.o == nil {
				continue
			}
			if p.open(addrA) == nil {
				return
			}
			vstub.Cover("store-reopened")
		case 3, 4:
			// restart p: close the instance, boot a new one on the same directory and
			// blocks (3), or - for a peer that has not written anything, so that no
			// acknowledged write exists only there - with its storage lost (4: the
			// default configuration keeps the cache in memory)
			wipe := kind == 4
			if wipe && p.wrote {
				continue
			}
			if err := p.o.Close(); err != nil {
				vstub.Fail("sys: instance Close failed")
				return
			}
			vstub.WaitIdle()
			p.o = nil
			np := w.boot(p.name, p, wipe)
			if np == nil {
				return
			}
			if np.open(addrA) == nil || np.open(addrB) == nil {
				return
			}
			if wipe {
				vstub.Cover("restart-wiped")
			} else {
				vstub.Cover("restart")
			}
		}
		vstub.WaitIdle()
	}
	// ---- writes stop; every replica that was closed is opened again
	for _, p := range w.peers {
		if _, open := p.stores[addrA]; !open {
			if p.open(addrA) == nil {
				return
			}
		}
	}
	vstub.WaitIdle()
	// every link is (re-)established, which - as with real
	// pubsub - makes each side observe the other joining the topic
	w.net.Fault = nil
	for i := range w.peers {
		for j := i + 1; j < len(w.peers); j++ {
			w.net.Cut(w.peers[i].id, w.peers[j].id)
			w.net.Heal(w.peers[i].id, w.peers[j].id)
		}
	}
	vstub.WaitIdle()
	vstub.Cover("healed")
	ref := sysHashes(w.peers[0].stores[addrA])
	for _, p := range w.peers {
		st := p.stores[addrA]
		for _, e := range w.acks[addrA] {
			vstub.Assert(sysHolds(st, e), "C02 after the heal every replica holds every acknowledged write")
		}
		vstub.Assert(vstubodb.SameStrings(sysHashes(st), ref), "C02 after the heal all replicas show the same state")
		vstub.Assert(st.OpLog().Len() == len(w.acks[addrA]), "C02 a replica holds exactly the entries that were written")
		idle := p.stores[addrB]
		vstub.Assert(idle.OpLog().Len() == 0, "C09 an idle database's contents are unaffected by another database's traffic")
		vstub.Assert(idle.ReplicationStatus().GetProgress() == 0 && idle.ReplicationStatus().GetMax() == 0,
			"C09 an idle database's replication status is unaffected by another database's traffic")
	}
	w.wireClean(w.peers[0].o)
}

var _ = entry.Entry{}

// sysHead builds one head of a decoded head-exchange message in which every
// structurally optional part is independently absent or present (what
// json.Unmarshal can produce from attacker-chosen bytes).
func sysHead(logID string, writer string, k int, victim ipfslog.Entry) *entry.Entry {
	if vstub.NdChoice("head-nil", 2) == 1 {
		return nil // JSON null
	}
	e := &entry.Entry{LogID: logID, V: 2, Payload: []byte("x")}
	copied := false
	switch vstub.NdChoice("identity", 4) {
	case 3: // identity block, key and signature copied from a real entry; the payload differs
		e.Identity = victim.GetIdentity()
		e.Key = victim.GetKey()
		e.Sig = victim.GetSig()
		copied = true
	case 0: // absent
	case 1:
		e.Identity = &idp.Identity{ID: writer, PublicKey: []byte("pk-mallory"), Type: "orbitdb"}
	case 2:
		e.Identity = &idp.Identity{ID: writer, PublicKey: []byte("pk-mallory"), Type: "orbitdb",
			Signatures: &idp.IdentitySignature{ID: []byte("s"), PublicKey: []byte("s")}}
	}
	if vstub.NdChoice("clock", 2) == 1 {
		e.Clock = &entry.LamportClock{ID: []byte("pk-mallory"), Time: vstub.NdInt("time")}
	}
	switch vstub.NdChoice("hash", 3) {
	case 1:
		e.Hash = vstub.MkCid(100 + k)
	case 2:
		// announced under the address of a valid entry the replica has not merged yet
		e.Hash = victim.GetHash()
	}
	if !copied && vstub.NdChoice("keysig", 2) == 1 {
		e.Key = []byte("pk-mallory")
		e.Sig = []byte("garbage")
	}
	return e
}

type sysIllTypedHeads struct {
	Address int            `json:"address"`
	Heads   []*entry.Entry `json:"heads"`
}

type sysIllTyped struct {
	Address int    `json:"address"`
	Heads   string `json:"heads"`
}

// VerifSysMalformed (C12, C04, C09): a peer receives, on the instance's direct
// channel or on a database's topic, a payload that is undecodable, ill-typed,
// addressed to an unknown / empty / other database, or well-formed with
// malformed heads, or that carries a VALID head of database A in a message
// naming database B.  Nothing panics, no database changes, and valid traffic
// sent afterwards by both routes (announcement, head exchange on join) is
// still handled.
func VerifSysMalformed() {
	w := newSysWorld()
	a := w.boot("a", nil, false)
	b := w.boot("b", nil, false)
	if a == nil || b == nil {
		return
	}
	sa, sb := a.create("dbA", "eventlog"), a.create("dbB", "eventlog")
	if sa == nil || sb == nil {
		return
	}
	addrA, addrB := sa.Address().String(), sb.Address().String()
	if b.open(addrA) == nil || b.open(addrB) == nil {
		return
	}
	vstub.WaitIdle()
	// database B is idle throughout: when the traffic is delivered to database A's
	// channels only (idleStrict, set below) no store event may name B and B's
	// replication status must stay untouched
	idleStrict := false
	if hb, ok := b.env.Bus.(*vstub.HookBus); ok {
		idle := func(addr string) {
			if idleStrict {
				vstub.Assert(addr != addrB, "C09 an idle database emits no store event because of traffic delivered to another database")
			}
		}
		hb.OnEmit = func(evt interface{}) {
			switch e := evt.(type) {
			case stores.EventReplicate:
				idle(e.Address.String())
			case stores.EventReplicateProgress:
				idle(e.Address.String())
			case stores.EventReplicated:
				idle(e.Address.String())
			case stores.EventWrite:
				idle(e.Address.String())
			}
		}
	}
	// b is partitioned from a while a writes one entry: b does not hold it yet
	w.net.Cut(a.id, b.id)
	first := a.add(addrA, 'a')
	if first == nil {
		return
	}
	vstub.WaitIdle()

	var payload []byte
	var err error
	foreignForA := false
	switch vstub.NdChoice("payload", 6) {
	case 5:
		// ILL-TYPED but with well-formed head objects inside (a number where the address
		// string belongs; a head carrying a next link): decoding reports a type error
		// after having filled in what it could - nothing of it may stick to the decoding
		// of the NEXT message (the honest relay's head has no next link)
		payload, err = json.Marshal(&sysIllTypedHeads{Address: 42, Heads: []*entry.Entry{{
			LogID: addrA, Payload: []byte("x"), Next: []cid.Cid{first.GetHash()}, Refs: []cid.Cid{first.GetHash()},
			Clock: entry.NewLamportClock(a.env.Identity.PublicKey, 2), V: 2, Key: a.env.Identity.PublicKey,
		}}})
		vstub.Cover("ill-typed-with-heads")
	case 4:
		// a VALID entry written for database B (by a writer both databases accept), sent
		// in a message that names database A
		lb, lerr := ipfslog.NewLog(a.env.IPFS, a.env.Identity, &ipfslog.LogOptions{ID: addrB, IO: a.env.IO})
		if lerr != nil {
			vstub.Fail("sys: NewLog failed")
			return
		}
		data, _ := operation.NewOperation(nil, "ADD", []byte("for-B")).Marshal()
		fe, aerr := lb.Append(context.Background(), data, nil)
		if aerr != nil {
			vstub.Fail("sys: Append failed")
			return
		}
		payload, err = a.o.messageMarshaler.Marshal(&iface.MessageExchangeHeads{Address: addrA, Heads: []*entry.Entry{fe.(*entry.Entry)}})
		foreignForA = true
		vstub.Cover("foreign-head-for-A")
	case 0:
		// every byte string of 0..3 bytes (the LENGTH is a decision too: a decoder that
		// looks at a fixed offset before checking the length fails on the short ones)
		payload = vstub.NdBytes("raw", vstub.NdChoice("raw-len", 4))
		vstub.Cover("raw-bytes")
	case 1:
		payload, err = json.Marshal(&sysIllTyped{Address: 7, Heads: "x"})
		vstub.Cover("ill-typed")
	case 2:
		var address string
		switch vstub.NdChoice("address", 6) {
		case 5:
			// the address of a database whose OPEN FAILED on b (its store constructor
			// returned an error): it is not open, messages for it are to be dropped
			b.o.RegisterStoreType("broken", func(coreiface.CoreAPI, *idp.Identity, odbaddress.Address, *iface.NewStoreOptions) (iface.Store, error) {
				return nil, fmt.Errorf("constructor failed")
			})
			bopts := &CreateDBOptions{AccessController: acParams([]string{"*"}), IO: b.env.IO}
			if _, cerr := b.o.Create(context.Background(), "dbX", "broken", bopts); cerr == nil {
				vstub.Fail("sys: the open was meant to fail")
				return
			}
			ax, derr := b.o.DetermineAddress(context.Background(), "dbX", "broken", &DetermineAddressOptions{AccessController: acParams([]string{"*"})})
			if derr != nil {
				vstub.Fail("sys: DetermineAddress failed")
				return
			}
			address = ax.String()
			vstub.Cover("address-of-a-failed-open")
		case 0:
			address = addrA
		case 1:
			address = addrB
		case 2:
			address = ""
		case 3:
			address = "/orbitdb/" + vstub.MkCid(77).String() + "/nope"
		case 4:
			address = vstub.NdString("addr", 2)
		}
		n := 1 + vstub.NdChoice("nheads", vstub.Param("H", 1))
		var heads []*entry.Entry
		for k := 0; k < n; k++ {
			heads = append(heads, sysHead(addrA, a.env.Identity.ID, k, first))
		}
		payload, err = a.o.messageMarshaler.Marshal(&iface.MessageExchangeHeads{Address: address, Heads: heads})
		vstub.Cover("malformed-heads")
	case 3:
		// a VALID head of database A inside a message that names database B
		payload, err = a.o.messageMarshaler.Marshal(&iface.MessageExchangeHeads{Address: addrB, Heads: []*entry.Entry{first.(*entry.Entry)}})
		vstub.Cover("misrouted-valid-head")
	}
	if err != nil {
		vstub.Fail("sys: Marshal failed")
		return
	}
	// blocks of a are reachable for b's fetches (the attacker relays them), the pubsub link stays cut
	b.blocks.PeersFn = func() []*vstub.Blocks { return []*vstub.Blocks{a.blocks} }
	// pacing: the malformed message alone, or in one burst with an honest relay
	// of `first` (right behind or right before it) on the same channel
	relay, rerr := a.o.messageMarshaler.Marshal(&iface.MessageExchangeHeads{Address: addrA, Heads: []*entry.Entry{first.(*entry.Entry)}})
	if rerr != nil {
		vstub.Fail("sys: Marshal failed")
		return
	}
	pacing := vstub.NdChoice("pacing", 3)
	route := vstub.NdChoice("route", 3)
	if foreignForA && route == 2 {
		// an entry written for B delivered on B's own topic is honest traffic for B: not this case
		return
	}
	idleStrict = foreignForA
	send := func(data []byte, honest bool) {
		switch {
		case route == 0:
			if err := w.net.Inject(peer.ID("peer-mallory"), b.id, data); err != nil {
				vstub.Fail("sys: inject failed")
			}
		case route == 1 || honest:
			vstub.Assert(w.net.InjectTopic(b.id, addrA, data), "sys: b is subscribed to A's topic")
		default:
			vstub.Assert(w.net.InjectTopic(b.id, addrB, data), "sys: b is subscribed to B's topic")
		}
	}
	if pacing == 2 {
		send(relay, true)
	}
	send(payload, false)
	if pacing == 1 {
		send(relay, true)
	}
	switch route {
	case 0:
		vstub.Cover("via-direct-channel")
	case 1:
		vstub.Cover("via-topic-A")
	case 2:
		vstub.Cover("via-topic-B")
	}
	vstub.WaitIdle()
	bA, bB := b.stores[addrA], b.stores[addrB]
	if pacing != 0 {
		vstub.Cover("burst")
		vstub.Assert(sysHolds(bA, first), "C12 an honest message in the same burst as a malformed one is still handled")
	}
	vstub.Assert(bB.OpLog().Len() == 0, "C12/C04 a database never merges entries written for another database, whatever the message says")
	if idleStrict {
		vstub.Assert(bB.ReplicationStatus().GetProgress() == 0 && bB.ReplicationStatus().GetMax() == 0, "C09 an idle database's replication status is unaffected by traffic delivered to another database")
	}
	// the only entry that may legitimately appear in A is the valid head `first`
	// (a well-formed relay of it is honest traffic); nothing else
	for _, e := range bA.OpLog().Values().Slice() {
		vstub.Assert(e.GetHash().Equals(first.GetHash()), "C12 malformed traffic never adds an entry to a database")
	}

	// ---- valid traffic afterwards: the link comes back (head exchange on join), then an announcement
	w.net.Heal(a.id, b.id)
	vstub.WaitIdle()
	vstub.Assert(sysHolds(bA, first), "C12 a head exchange after malformed traffic is still handled")
	second := a.add(addrA, 'b')
	if second == nil {
		return
	}
	vstub.WaitIdle()
	vstub.Cover("valid-after")
	vstub.Assert(sysHolds(bA, second), "C12 an announcement after malformed traffic is still handled")
	vstub.Assert(bA.OpLog().Len() == 2, "C12 the database holds exactly the valid entries")
	vstub.Assert(bB.OpLog().Len() == 0, "C09 the idle database stays empty")
}

// sysEventsMatch installs a bus hook on p: every store event observed on the
// instance's (shared) bus names the database whose log the announced entries
// belong to (C09).
func sysEventsMatch(p *sysPeer) {
	hb, ok := p.env.Bus.(*vstub.HookBus)
	if !ok {
		return
	}
	same := func(addr string, e ipfslog.Entry, what string) {
		if e != nil {
			vstub.Assert(e.GetLogID() == addr, what)
		}
	}
	hb.OnEmit = func(evt interface{}) {
		switch e := evt.(type) {
		case stores.EventWrite:
			same(e.Address.String(), e.Entry, "C09 a write event names the database its entry was written to")
		case stores.EventReplicated:
			for _, x := range e.Entries {
				same(e.Address.String(), x, "C09 a replicated event names the database its entries belong to")
			}
		case stores.EventReplicateProgress:
			same(e.Address.String(), e.Entry, "C09 a replicate-progress event names the database its entry belongs to")
		case stores.EventLoadProgress:
			same(e.Address.String(), e.Entry, "C09 a load-progress event names the database its entry belongs to")
		}
	}
}

// VerifSysTwoDBs (C09, C02, C19): two instances hold the SAME two databases
// (an event log and a key-value store); both databases are written on a while b
// is partitioned, b may write too; when the link heals, the head exchanges of
// both databases travel back to back over the one direct channel and both
// replications run on b's shared bus at the same time.  Each database ends up
// with exactly its own entries on both sides, its replication status describes
// its own log, and every store event names the database its entries belong to.
func VerifSysTwoDBs() {
	w := newSysWorld()
	a := w.boot("a", nil, false)
	b := w.boot("b", nil, false)
	if a == nil || b == nil {
		return
	}
	sa, sb := a.create("dbA", "eventlog"), a.create("dbB", "keyvalue")
	if sa == nil || sb == nil {
		return
	}
	addrA, addrB := sa.Address().String(), sb.Address().String()
	if vstub.NdChoice("shared-options", 2) == 1 {
		b.sharedOpts = true
		vstub.Cover("shared-options")
	}
	if b.open(addrA) == nil || b.open(addrB) == nil {
		return
	}
	vstub.WaitIdle()
	sysEventsMatch(a)
	sysEventsMatch(b)
	w.net.Cut(a.id, b.id)
	ctx := context.Background()
	nA := 1 + vstub.NdChoice("nA", vstub.Param("N", 2))
	nB := 1 + vstub.NdChoice("nB", vstub.Param("N", 2))
	for k := 0; k < nA; k++ {
		if a.add(addrA, 'a') == nil {
			return
		}
	}
	for k := 0; k < nB; k++ {
		op, err := a.stores[addrB].(iface.KeyValueStore).Put(ctx, "k"+string(rune('0'+k)), []byte{vstub.NdByte("kv")})
		if err != nil {
			vstub.Fail("sys: Put failed")
			return
		}
		w.acks[addrB] = append(w.acks[addrB], op.GetEntry())
	}
	if vstub.NdChoice("b-writes", 2) == 1 {
		if b.add(addrA, 'b') == nil {
			return
		}
		vstub.Cover("both-write")
	}
	vstub.WaitIdle()
	w.net.Heal(a.id, b.id)
	vstub.WaitIdle()
	vstub.Cover("healed")
	for _, addr := range []string{addrA, addrB} {
		ref := sysHashes(a.stores[addr])
		for _, p := range w.peers {
			st := p.stores[addr]
			for _, e := range w.acks[addr] {
				vstub.Assert(sysHolds(st, e), "C02 after the heal every replica of each database holds every acknowledged write")
			}
			vstub.Assert(st.OpLog().Len() == len(w.acks[addr]), "C09 a database holds exactly the entries written to it")
			vstub.Assert(vstubodb.SameStrings(sysHashes(st), ref), "C02 both replicas of each database show the same state")
			for _, e := range st.OpLog().Values().Slice() {
				vstub.Assert(e.GetLogID() == addr, "C09 a database never holds entries of another database")
			}
			rs := st.ReplicationStatus()
			maxClock := 0
			for _, e := range st.OpLog().Values().Slice() {
				if t := e.GetClock().GetTime(); t > maxClock {
					maxClock = t
				}
			}
			vstub.Assert(rs.GetProgress() == rs.GetMax(), "C19 at rest replication progress equals its maximum (every database of the instance)")
			vstub.Assert(rs.GetMax() >= maxClock && rs.GetMax() <= st.OpLog().Len(), "C19/C09 a database's replication status describes its own log")
		}
	}
	// the key-value views agree too
	va, vb := a.stores[addrB].(iface.KeyValueStore).All(), b.stores[addrB].(iface.KeyValueStore).All()
	vstub.Assert(len(va) == len(vb) && len(va) == nB, "C01 both replicas of the key-value database show the same keys")
	w.wireClean(a.o)
}

// VerifSysClose (C18): a real orbitDB instance holding two databases is closed
// - the whole instance, or one of its stores - at ANY visible operation of a
// cross-instance replication (head exchange on join travelling over the direct
// channel, fetches, joins), of a local write, or when idle; Close is then
// repeated.  Nothing is left running once the other instance is closed too,
// later operations on the closed stores and instance return, and a new
// instance on the same directory reopens both databases with every
// acknowledged entry.
func VerifSysClose() {
	w := newSysWorld()
	a := w.boot("a", nil, false)
	b := w.boot("b", nil, false)
	if a == nil || b == nil {
		return
	}
	sa, sb := a.create("dbA", "eventlog"), a.create("dbB", "eventlog")
	if sa == nil || sb == nil {
		return
	}
	addrA, addrB := sa.Address().String(), sb.Address().String()
	if b.open(addrA) == nil || b.open(addrB) == nil {
		return
	}
	vstub.WaitIdle()
	// acknowledged writes on b (must survive), then a partition during which a writes
	mineA := b.add(addrA, 'b')
	mineB := b.add(addrB, 'b')
	if mineA == nil || mineB == nil {
		return
	}
	vstub.WaitIdle()
	w.net.Cut(a.id, b.id)
	for k := 0; k < vstub.Param("N", 2); k++ {
		if a.add(addrA, 'a') == nil {
			return
		}
	}
	vstub.WaitIdle()

	full := vstub.Param("FULL", 0) == 1
	target := vstub.NdChoice("close-what", 2) // 0 the whole instance, 1 only store A of b
	closer := func() {
		go func() {
			if target == 0 {
				_ = b.o.Close()
			} else {
				_ = b.stores[addrA].Close()
			}
		}()
	}
	ctx := context.Background()
	var late ipfslog.Entry
	activity := vstub.NdChoice("activity", 3)
	// the choices after the close (parent context, repeats, later operation) are
	// explored in full when the instance was idle; after a close in the middle of
	// an activity only with FULL=1 (thorough tier)
	wide := full || activity == 0
	switch activity {
	case 0:
		closer()
		vstub.Cover("idle")
	case 1: // while the heads of both databases arrive and replicate
		vstub.FaultAtAnyStep(closer)
		w.net.Heal(a.id, b.id)
		vstub.WaitIdle()
		vstub.Cover("mid-replication")
	case 2: // while b writes locally
		vstub.FaultAtAnyStep(closer)
		op, err := b.stores[addrA].(iface.EventLogStore).Add(ctx, []byte("late"))
		if err == nil {
			late = op.GetEntry()
		}
		vstub.Cover("mid-write")
	}
	vstub.WaitIdle()
	vstub.FaultDisarm()
	// the context the application created the instance with may be cancelled
	// before Close is called (signal-driven shutdown, deferred calls in the
	// "wrong" order): Close must still close everything
	if wide && vstub.NdChoice("parent-context-cancelled-first", 2) == 1 {
		b.cancelParent()
		vstub.WaitIdle()
		vstub.Cover("parent-cancelled-first")
	}
	repeats := 1
	if wide {
		repeats = 1 + vstub.NdChoice("repeats", 2)
	}
	for k := 0; k < repeats; k++ {
		if err := b.o.Close(); err != nil {
			vstub.Fail("C18 instance Close reported an error")
		}
	}
	vstub.WaitIdle()
	vstub.Cover("closed")
	// later operations on the closed instance / stores return (error or harmless result)
	later := 2
	if wide {
		later = vstub.NdChoice("later", 5)
	}
	switch later {
	case 0:
		_, _ = b.stores[addrA].(iface.EventLogStore).Add(ctx, []byte("x"))
	case 1:
		_ = b.stores[addrB].Load(ctx, -1)
	case 2:
		_ = b.stores[addrA].Sync(ctx, a.stores[addrA].OpLog().Heads().Slice())
	case 3:
		_ = b.stores[addrB].Close()
	case 4:
		_, _ = b.o.Open(ctx, addrA, &CreateDBOptions{IO: b.env.IO})
		_ = b.o.Close()
	}
	vstub.WaitIdle()
	vstub.Cover("later-returned")
	// with the other instance closed as well, nothing at all may be left running
	if err := a.o.Close(); err != nil {
		vstub.Fail("C18 instance Close reported an error")
	}
	vstub.WaitIdle()
	vstub.Assert(vstub.LiveThreads("berty.tech/go-orbit-db/stores") == 0, "C18 closing the instances leaves no store activity behind")
	vstub.Assert(vstub.LiveThreads("berty.tech/go-orbit-db/baseorbitdb") == 0, "C18 closing the instances leaves no instance activity behind")

	// a new instance on b's directory reopens both databases with all acknowledged data
	b.o = nil
	nb := w.boot("b", b, false)
	if nb == nil {
		return
	}
	ra, rb := nb.open(addrA), nb.open(addrB)
	if ra == nil || rb == nil {
		return
	}
	vstub.WaitIdle()
	vstub.Cover("reopened")
	vstub.Assert(sysHolds(ra, mineA), "C18 data acknowledged before Close is there after reopening (A)")
	vstub.Assert(sysHolds(rb, mineB), "C18 data acknowledged before Close is there after reopening (B)")
	if late != nil {
		vstub.Assert(sysHolds(ra, late), "C18 a write acknowledged while Close was running is there after reopening")
	}
	_ = nb.o.Close()
}

// VerifSysOpenRace (C02): a peer (re)opens a database while another replica that
// holds acknowledged writes is connected and idle (writes have stopped).  The
// opening peer's subscription makes the other side see it join and send its
// heads over the direct channel AT ONCE - possibly before Open has returned.
// Under every schedule with at most P preemptions of the opening thread and the
// threads it starts, the opened replica ends up holding every acknowledged
// write once everything is quiet.
func VerifSysOpenRace() {
	w := newSysWorld()
	a := w.boot("a", nil, false)
	if a == nil {
		return
	}
	sa := a.create("dbA", "eventlog")
	if sa == nil {
		return
	}
	addrA := sa.Address().String()
	n := 1 + vstub.NdChoice("writes", 2)
	for k := 0; k < n; k++ {
		if a.add(addrA, 'a') == nil {
			return
		}
	}
	vstub.WaitIdle()
	b := w.boot("b", nil, false)
	if b == nil {
		return
	}
	vstub.ExploreSchedules(vstub.Param("P", 1))
	st, err := b.o.Open(context.Background(), addrA, &CreateDBOptions{IO: b.env.IO})
	vstub.ExploreSchedules(0)
	if err != nil {
		vstub.Fail("sys: Open failed")
		return
	}
	vstub.WaitIdle()
	vstub.Cover("opened")
	for _, e := range w.acks[addrA] {
		vstub.Assert(sysHolds(st, e), "C02 a replica that joins while writes have stopped receives every acknowledged write")
	}
}

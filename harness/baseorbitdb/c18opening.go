package baseorbitdb

import (
	"context"

	idp "berty.tech/go-ipfs-log/identityprovider"
	odbaddress "berty.tech/go-orbit-db/address"
	"berty.tech/go-orbit-db/iface"
	"berty.tech/go-orbit-db/internal/vstub"
	"berty.tech/go-orbit-db/stores/eventlogstore"
	coreiface "github.com/ipfs/kubo/core/coreiface"
)

func init() {
	verifHarnesses["VerifC18CloseDuringOpen"] = VerifC18CloseDuringOpen
}

// VerifC18CloseDuringOpen: the INSTANCE is closed while a Create is still in
// progress on it - its store constructor is running (a constructor that takes a
// while).  Once the constructor finishes and both calls have returned, nothing
// the instance started is left running: no store goroutine, no topic watcher,
// whether Create then reports an error or hands out a store (closed with it).
func VerifC18CloseDuringOpen() {
	w := newSysWorld()
	a := w.boot("a", nil, false)
	if a == nil {
		return
	}
	ctx := context.Background()
	// another database, open and idle
	if a.create("other", "eventlog") == nil {
		return
	}
	started, release := make(chan struct{}), make(chan struct{})
	a.o.RegisterStoreType("slow", func(api coreiface.CoreAPI, id *idp.Identity, addr odbaddress.Address, opts *iface.NewStoreOptions) (iface.Store, error) {
		close(started)
		<-release
		return eventlogstore.NewOrbitDBEventLogStore(api, id, addr, opts)
	})
	created := make(chan struct{})
	var st Store
	go func() {
		defer close(created)
		st, _ = a.o.Create(ctx, "slowdb", "slow", &CreateDBOptions{AccessController: acParams([]string{"*"}), IO: a.env.IO})
	}()
	<-started
	closed := make(chan struct{})
	go func() {
		defer close(closed)
		_ = a.o.Close()
	}()
	vstub.WaitIdle() // Close has gone as far as it can while the constructor runs
	close(release)
	<-created
	<-closed
	vstub.WaitIdle()
	vstub.Cover("closed-during-open")
	if st != nil {
		vstub.Cover("create-returned-a-store")
	}
	vstub.Assert(vstub.LiveThreads("berty.tech/go-orbit-db/stores") == 0, "C18 closing the instance while a store is being opened leaves no store activity behind once the open has finished")
	vstub.Assert(vstub.LiveThreads("berty.tech/go-orbit-db/baseorbitdb") == 0, "C18 closing the instance while a store is being opened leaves no instance activity behind")
	// closing again and using the late store return
	_ = a.o.Close()
	if st != nil {
		_ = st.Close()
	}
	vstub.WaitIdle()
	vstub.Assert(vstub.LiveThreads("berty.tech/go-orbit-db/stores") == 0, "C18 nothing is left after closing again")
}

package baseorbitdb

import (
	"berty.tech/go-orbit-db/internal/vstub"
)

func init() {
	verifHarnesses["VerifC09SameName"] = VerifC09SameName
}

// VerifC09SameName: two databases with the SAME NAME and different manifests (an
// event log "users" and a key-value store "users": same path, different roots) plus
// a control database are open on one instance, with a peer on every topic.  The
// event log is written 1..2 times: only its own topic carries an announcement, every
// message names the database whose heads it carries, the peer's key-value store and
// control database stay empty with an untouched status and the events of each store
// are its own.
func VerifC09SameName() {
	w := newSysWorld()
	a := w.boot("a", nil, false)
	b := w.boot("b", nil, false)
	if a == nil || b == nil {
		return
	}
	var addrE, addrK string
	if vstub.NdChoice("key-value-first", 2) == 1 {
		sk := a.create("users", "keyvalue")
		se := a.create("users", "eventlog")
		if sk == nil || se == nil {
			return
		}
		addrE, addrK = se.Address().String(), sk.Address().String()
	} else {
		se := a.create("users", "eventlog")
		sk := a.create("users", "keyvalue")
		if sk == nil || se == nil {
			return
		}
		addrE, addrK = se.Address().String(), sk.Address().String()
	}
	sc := a.create("control", "eventlog")
	if sc == nil {
		return
	}
	addrC := sc.Address().String()
	vstub.Assert(addrE != addrK, "C14 databases of different types have different addresses although they share a name")
	if b.open(addrE) == nil || b.open(addrK) == nil || b.open(addrC) == nil {
		return
	}
	vstub.WaitIdle()
	n := 1 + vstub.NdChoice("writes", 2)
	for k := 0; k < n; k++ {
		if a.add(addrE, 'e') == nil {
			return
		}
		vstub.WaitIdle()
	}
	vstub.Cover("written")
	for _, m := range w.net.Messages() {
		if !m.Direct && m.From == a.id && (m.Topic == addrK || m.Topic == addrC) {
			vstub.Fail("C09 a write to one database is announced on the topic of another database (same name, another manifest)")
		}
	}
	w.wireClean(a.o)
	for _, e := range w.acks[addrE] {
		vstub.Assert(sysHolds(b.stores[addrE], e), "C09/C02 the write reaches the database it was made to on the peer")
	}
	for _, other := range []string{addrK, addrC} {
		st := b.stores[other]
		vstub.Assert(st.OpLog().Len() == 0, "C09 a database with the same name and another manifest stays empty when only the other is written")
		vstub.Assert(st.ReplicationStatus().GetProgress() == 0 && st.ReplicationStatus().GetMax() == 0, "C09 its replication status is untouched")
	}
	sysEventsMatch(a)
	sysEventsMatch(b)
	vstub.Cover("isolated")
}

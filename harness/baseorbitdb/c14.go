package baseorbitdb

import (
	"context"
	"path"

	logio "berty.tech/go-ipfs-log/io"
	"berty.tech/go-orbit-db/utils"
	cbornode "github.com/ipfs/go-ipld-cbor"

	"berty.tech/go-orbit-db/accesscontroller"
	acipfs "berty.tech/go-orbit-db/accesscontroller/ipfs"
	acsimple "berty.tech/go-orbit-db/accesscontroller/simple"
	"berty.tech/go-orbit-db/address"
	"berty.tech/go-orbit-db/cache/cacheleveldown"
	"berty.tech/go-orbit-db/iface"
	"berty.tech/go-orbit-db/internal/vstub"
	"berty.tech/go-orbit-db/internal/vstubodb"
	"berty.tech/go-orbit-db/stores/documentstore"
	"berty.tech/go-orbit-db/stores/eventlogstore"
	"berty.tech/go-orbit-db/stores/kvstore"
)

var verifHarnesses = map[string]func(){
	"VerifC14Determinism": VerifC14Determinism,
	"VerifC14Injective":   VerifC14Injective,
	"VerifC14Reopen":      VerifC14Reopen,
	"VerifC14Escape":      VerifC14Escape,
	"VerifC18Drop":        VerifC18Drop,
	"VerifSysHeal":        VerifSysHeal,
	"VerifSysOpenRace":    VerifSysOpenRace,
	"VerifC05Reopen":      VerifC05Reopen,
	"VerifC05Identity":    VerifC05Identity,
	"VerifSysClose":       VerifSysClose,
	"VerifSysTwoDBs":      VerifSysTwoDBs,
	"VerifC03Instance":    VerifC03Instance,
	"VerifSysMalformed":   VerifSysMalformed,
}

// ioReadManifest reads the manifest at the address root and returns the recorded name.
func ioReadManifest(ctx context.Context, o *orbitDB, a address.Address) (string, error) {
	n, err := logio.ReadCBOR(ctx, o.IPFS(), a.GetRoot())
	if err != nil {
		return "", err
	}
	m := &utils.Manifest{}
	if err := cbornode.DecodeInto(n.RawData(), m); err != nil {
		return "", err
	}
	return m.Name, nil
}

var storeTypes = []string{"eventlog", "keyvalue", "docstore"}

var storeCtors = map[string]iface.StoreConstructor{
	"eventlog": eventlogstore.NewOrbitDBEventLogStore,
	"keyvalue": kvstore.NewOrbitDBKeyValue,
	"docstore": documentstore.NewOrbitDBDocumentStore,
}

// newInstance creates a real orbitDB instance for peer `name` over stub IPFS
// (shared DAG = the network), its own directory, stub pubsub and direct channel.
func newInstance(name, dir string, dag *vstub.MemDag, blocks *vstub.Blocks) (*orbitDB, *vstubodb.Env) {
	env := vstubodb.NewEnv(name, 1, "unused", blocks, nil)
	env.IPFS.DagStore = dag
	d := vstub.Dir(dir)
	factory := func(ctx context.Context, emitter iface.DirectChannelEmitter, opts *iface.DirectChannelOptions) (iface.DirectChannel, error) {
		return env.Direct, nil
	}
	o, err := newOrbitDB(context.Background(), env.IPFS, env.Identity, &NewOrbitDBOptions{
		Cache: cacheleveldown.New(nil), Directory: &d, DirectChannelFactory: factory,
		PubSub: env.PubSub, EventBus: env.Bus, PeerID: env.IPFS.Peer,
	})
	if err != nil {
		vstub.Fail("newOrbitDB failed")
		return nil, env
	}
	odb := o.(*orbitDB)
	odb.RegisterStoreType("eventlog", eventlogstore.NewOrbitDBEventLogStore)
	odb.RegisterStoreType("keyvalue", kvstore.NewOrbitDBKeyValue)
	odb.RegisterStoreType("docstore", documentstore.NewOrbitDBDocumentStore)
	_ = odb.RegisterAccessControllerType(acipfs.NewIPFSAccessController)
	_ = odb.RegisterAccessControllerType(acsimple.NewSimpleAccessController)
	return odb, env
}

// c14Name returns a symbolic database name of length 0..L over ALL byte values
// (covers "/", ".", "..", spaces, empty, nested and address-looking names).
func c14Name(tag string, maxLen int) string {
	l := vstub.NdChoice(tag+"Len", maxLen+1)
	return vstub.NdString(tag, l)
}

func c14Writers(tag string) []string {
	n := vstub.NdChoice(tag+"Writers", 3)
	var out []string
	for k := 0; k < n; k++ {
		out = append(out, "id-"+vstub.NdString(tag+"Writer", 1))
	}
	return out
}

func acParams(writers []string) accesscontroller.ManifestParams {
	p := accesscontroller.NewEmptyManifestParams()
	if len(writers) > 0 {
		p.SetAccess("write", append([]string{}, writers...))
	}
	return p
}

// VerifC14Determinism: two peers with different identities, peer ids and
// directories compute the same address from the same (name, type, write list);
// the address is self-describing: its root is the manifest's CID and the printed
// form parses back to the same root and path.
func VerifC14Determinism() {
	maxLen := vstub.Param("L", 3)
	dag := vstub.NewMemDag()
	p1, _ := newInstance("alice", "/data/alice", dag, nil)
	p2, _ := newInstance("bob", "/home/bob/odb", vstub.NewMemDag(), nil)
	if p1 == nil || p2 == nil {
		return
	}
	name := c14Name("name", maxLen)
	typ := storeTypes[vstub.NdChoice("type", len(storeTypes))]
	// an explicit write list (with none given the creator's own id is the default and part of the inputs)
	writers := append([]string{"id-w0"}, c14Writers("w")...)
	ctx := context.Background()
	a1, err1 := p1.DetermineAddress(ctx, name, typ, &DetermineAddressOptions{AccessController: acParams(writers)})
	a2, err2 := p2.DetermineAddress(ctx, name, typ, &DetermineAddressOptions{AccessController: acParams(writers)})
	vstub.Assert((err1 == nil) == (err2 == nil), "C14 both peers accept or both refuse the same name")
	if err1 != nil || err2 != nil {
		vstub.Cover("refused")
		return
	}
	vstub.Cover("determined")
	vstub.Assert(a1.String() == a2.String(), "C14 any peer computes the same address from the same inputs")
	parsed, perr := address.Parse(a1.String())
	vstub.Assert(perr == nil, "C14 the printed address parses")
	if perr == nil {
		vstub.Assert(parsed.GetRoot().Equals(a1.GetRoot()), "C14 the printed address parses back to the same root")
		vstub.Assert(parsed.GetPath() == a1.GetPath(), "C14 the printed address parses back to the same path")
		vstub.Assert(parsed.String() == a1.String(), "C14 printing is stable")
	}
}

// VerifC14Injective: inputs that differ in name, type or write list give different addresses.
func VerifC14Injective() {
	maxLen := vstub.Param("L", 2)
	dag := vstub.NewMemDag()
	p1, _ := newInstance("alice", "/data/alice", dag, nil)
	if p1 == nil {
		return
	}
	ctx := context.Background()
	n1 := c14Name("name1", maxLen)
	n2 := c14Name("name2", maxLen)
	t1 := storeTypes[vstub.NdChoice("type1", len(storeTypes))]
	t2 := storeTypes[vstub.NdChoice("type2", len(storeTypes))]
	w1 := append([]string{"id-w0"}, c14Writers("w1")...)
	w2 := append([]string{"id-w0"}, c14Writers("w2")...)
	if vstub.NdChoice("compound-writer", 2) == 1 {
		// one key of the second list is COMPOUND: two key-shaped segments around a
		// symbolic separator byte (a list must not be confused with another list whose
		// keys, joined by some separator, spell the same text)
		w2 = append(w2[:len(w2):len(w2)], "id-"+vstub.NdString("w2SegA", 1)+vstub.NdString("w2Sep", 1)+"id-"+vstub.NdString("w2SegB", 1))
		vstub.Cover("compound-writer-key")
	}
	a1, err1 := p1.DetermineAddress(ctx, n1, t1, &DetermineAddressOptions{AccessController: acParams(w1)})
	a2, err2 := p1.DetermineAddress(ctx, n2, t2, &DetermineAddressOptions{AccessController: acParams(w2)})
	if err1 != nil || err2 != nil {
		return
	}
	sameWriters := len(w1) == len(w2)
	if sameWriters {
		for k := range w1 {
			if w1[k] != w2[k] {
				sameWriters = false
			}
		}
	}
	if n1 == n2 && t1 == t2 && sameWriters {
		vstub.Cover("same-inputs")
		vstub.Assert(a1.String() == a2.String(), "C14 the address is a function of its inputs")
		return
	}
	vstub.Cover("different-inputs")
	vstub.Assert(a1.String() != a2.String(), "C14 different inputs give different addresses")
}

// VerifC14Reopen: Create on one peer, Open on another: the store has the
// recorded type and the write list given at creation (the creator's id when
// none is given); creating again over the local database is refused unless
// overwrite is requested; a local-only open of an unknown database is refused.
func VerifC14Reopen() {
	maxLen := vstub.Param("L", 2)
	dag := vstub.NewMemDag()
	blocks := vstub.NewBlocks(nil)
	p1, e1 := newInstance("alice", "/data/alice", dag, blocks)
	p2, _ := newInstance("bob", "/home/bob/odb", dag, blocks)
	if p1 == nil || p2 == nil {
		return
	}
	ctx := context.Background()
	name := c14Name("name", maxLen)
	typ := storeTypes[vstub.NdChoice("type", len(storeTypes))]
	var writers []string
	explicit := vstub.NdChoice("explicitWriters", 2) == 1
	if explicit {
		writers = append([]string{"id-w0"}, c14Writers("w")...)
	}
	no := false
	st, err := p1.Create(ctx, name, typ, &CreateDBOptions{AccessController: acParams(writers), IO: e1.IO, Replicate: &no})
	if err != nil {
		vstub.Cover("create-refused")
		return
	}
	vstub.Cover("created")
	vstub.Assert(st.Type() == typ, "C14 the created store has the requested type")
	addr := st.Address().String()

	// creating over the existing local database is refused ...
	again := &CreateDBOptions{AccessController: acParams(writers), IO: e1.IO, Replicate: &no}
	if vstub.NdChoice("second-create-names-a-directory", 2) == 1 {
		// (the per-call directory option: the database exists locally all the same)
		other := vstub.Dir("/data/elsewhere")
		again.Directory = &other
		vstub.Cover("second-create-with-directory-option")
	}
	_, err = p1.Create(ctx, name, typ, again)
	vstub.Assert(err != nil, "C14 creating over an existing local database is refused")
	// ... unless overwrite is requested
	yes := true
	_ = st.Close()
	_, err = p1.Create(ctx, name, typ, &CreateDBOptions{AccessController: acParams(writers), IO: e1.IO, Replicate: &no, Overwrite: &yes})
	vstub.Assert(err == nil, "C14 creating over an existing local database succeeds when overwrite is requested")

	// a local-only open of a database this peer has never seen is refused ...
	_, err = p2.Open(ctx, addr, &CreateDBOptions{LocalOnly: &yes, IO: e1.IO, Replicate: &no})
	vstub.Assert(err != nil, "C14 a local-only open of an unknown database is refused")
	// ... also after an ordinary open of it FAILED on this peer (network
	// unreachable, caller's context cancelled, or store type not registered here)
	if fk := vstub.NdChoice("failed-open", 4); fk > 0 {
		var ferr error
		switch fk {
		case 1:
			dag.Offline = true
			_, ferr = p2.Open(ctx, addr, &CreateDBOptions{IO: e1.IO, Replicate: &no})
			dag.Offline = false
		case 2:
			cctx, cancel := context.WithCancel(ctx)
			cancel()
			_, ferr = p2.Open(cctx, addr, &CreateDBOptions{IO: e1.IO, Replicate: &no})
		case 3:
			p2.UnregisterStoreType(typ)
			_, ferr = p2.Open(ctx, addr, &CreateDBOptions{IO: e1.IO, Replicate: &no})
			p2.RegisterStoreType(typ, storeCtors[typ])
		}
		vstub.Assert(ferr != nil, "C14 harness: the open was made to fail")
		vstub.Cover("open-failed")
		_, err = p2.Open(ctx, addr, &CreateDBOptions{LocalOnly: &yes, IO: e1.IO, Replicate: &no})
		vstub.Assert(err != nil, "C14 a local-only open of a database whose earlier open failed is refused (it is still unknown locally)")
	}

	// opening the address on another peer yields the recorded type and write list
	st2, err := p2.Open(ctx, addr, &CreateDBOptions{IO: e1.IO, Replicate: &no})
	vstub.Assert(err == nil, "C14 the address opens on another peer")
	if err != nil {
		return
	}
	vstub.Cover("reopened")
	// another SPELLING of the printed address (a trailing slash), opened the way the
	// typed helpers do (Create: true): it designates the same database - it is opened,
	// or refused - never silently turned into a new database under another address
	if name != "" && vstub.NdChoice("trailing-slash", 2) == 1 {
		_ = st2.Close()
		st3, err3 := p2.Open(ctx, addr+"/", &CreateDBOptions{IO: e1.IO, Replicate: &no, Create: &yes, StoreType: &typ})
		if err3 == nil {
			vstub.Assert(st3.Address().String() == addr, "C14 an address written with a trailing slash opens the SAME database (or is refused), it does not create another one")
			_ = st3.Close()
		}
		parsed, perr := address.Parse(addr + "/")
		if perr == nil {
			vstub.Assert(parsed.String() == addr, "C14 an address written with a trailing slash parses to the same root and path")
		}
		vstub.Cover("trailing-slash-spelling")
		return
	}
	vstub.Assert(st2.Type() == typ, "C14 opening the address yields a store of the recorded type")
	vstub.Assert(st2.Address().String() == addr, "C14 the opened store has the same address")
	got, gerr := st2.AccessController().GetAuthorizedByRole("write")
	vstub.Assert(gerr == nil, "C14 the write list is readable")
	want := writers
	if !explicit {
		want = []string{vstub.IDOf("alice")}
	}
	vstub.Assert(len(got) == len(want), "C14 the opened store's write list is the one given at creation (size)")
	if len(got) == len(want) {
		for k := range want {
			vstub.Assert(got[k] == want[k], "C14 the opened store's write list is the one given at creation")
		}
	}
}

// VerifC14Escape: names that embed ANOTHER database's root (address-looking and
// parent-directory names): name = <3 symbolic bytes> + <root of a victim
// database> + "/" + <victim name>.  If the name is accepted, its address must
// differ from the victim's and its root must be the manifest that records THIS
// name (self-description).
func VerifC14Escape() {
	dag := vstub.NewMemDag()
	p1, _ := newInstance("alice", "/data/alice", dag, nil)
	if p1 == nil {
		return
	}
	ctx := context.Background()
	victim, err := p1.DetermineAddress(ctx, "v", "eventlog", &DetermineAddressOptions{AccessController: acParams([]string{"id-w0"})})
	if err != nil {
		vstub.Fail("C14 victim address")
		return
	}
	prefix := vstub.NdString("prefix", vstub.Param("PFX", 3))
	name := prefix + victim.GetRoot().String() + "/v"
	a, err := p1.DetermineAddress(ctx, name, "eventlog", &DetermineAddressOptions{AccessController: acParams([]string{"id-mallory"})})
	if err != nil {
		vstub.Cover("refused")
		return
	}
	vstub.Cover("accepted")
	vstub.Assert(a.String() != victim.String(), "C14 a different name and write list never yields another database's address")
	node, rerr := ioReadManifest(ctx, p1, a)
	vstub.Assert(rerr == nil, "C14 the address root is a readable manifest")
	if rerr == nil {
		vstub.Assert(node == name, "C14 the address root is the manifest recording this database's name (self-describing)")
	}
}

// VerifC18Drop: an instance holds two databases; dropping one removes its local
// data (cache directory) and nothing else: the sibling's cache, log and view are
// untouched and the sibling stays usable; closing the instance (once or twice)
// closes every store, and the sibling can be reopened from the same directory
// with all its data.
func VerifC18Drop() {
	maxLen := vstub.Param("L", 1)
	dag := vstub.NewMemDag()
	blocks := vstub.NewBlocks(nil)
	p1, e1 := newInstance("alice", "/data/alice", dag, blocks)
	if p1 == nil {
		return
	}
	ctx := context.Background()
	no := false
	n1 := "a" + c14Name("name1", maxLen)
	n2 := "b" + c14Name("name2", maxLen)
	s1, err := p1.Create(ctx, n1, "eventlog", &CreateDBOptions{IO: e1.IO, Replicate: &no})
	if err != nil {
		vstub.Cover("create-refused")
		return
	}
	var s2 iface.Store
	sibling := vstub.NdChoice("sibling", 2)
	if sibling == 0 {
		s2, err = p1.Create(ctx, n2, "eventlog", &CreateDBOptions{IO: e1.IO, Replicate: &no})
		if err != nil {
			vstub.Cover("create-refused")
			return
		}
	} else {
		// the sibling is opened by an address with the SAME manifest root and another
		// path: a distinct database (its own log id and cache directory) under one root
		s2, err = p1.Open(ctx, "/orbitdb/"+s1.Address().GetRoot().String()+"/"+n2, &CreateDBOptions{IO: e1.IO, Replicate: &no})
		if err != nil {
			vstub.Cover("open-refused")
			return
		}
		vstub.Cover("sibling-under-same-root")
	}
	if s1.Address().String() == s2.Address().String() {
		return
	}
	vstub.Cover("created")
	l1, l2 := s1.(iface.EventLogStore), s2.(iface.EventLogStore)
	if _, err := l1.Add(ctx, []byte("one")); err != nil {
		vstub.Fail("C18 Add failed")
		return
	}
	op2, err := l2.Add(ctx, []byte("two"))
	if err != nil {
		vstub.Fail("C18 Add failed")
		return
	}
	base := vstub.Dir("/data/alice")
	dir1 := base + "/" + s1.Address().GetRoot().String() + "/" + s1.Address().GetPath()
	dir2 := base + "/" + s2.Address().GetRoot().String() + "/" + s2.Address().GetPath()
	_ = dir1
	vstub.Assert(vstub.DiskHas(path.Clean(dir2)), "C18 harness: the sibling's cache directory holds data")

	if err := s1.Drop(); err != nil {
		vstub.Fail("C18 Drop returned an error")
		return
	}
	vstub.Cover("dropped")
	vstub.Assert(!vstub.DiskHas(path.Clean(dir1)), "C18 Drop removes the database's local data")
	vstub.Assert(vstub.DiskHas(path.Clean(dir2)), "C18 Drop leaves the other database's local data alone")
	vstub.Assert(s1.OpLog().Len() == 0, "C18 a dropped database shows an empty log")
	vstub.Assert(s2.OpLog().Len() == 1, "C18 Drop leaves the other database's log alone")
	ops, lerr := l2.List(ctx, nil)
	vstub.Assert(lerr == nil, "C18 the other database is still usable after a Drop")
	vstub.Assert(len(ops) == 1, "C18 Drop leaves the other database's view alone")
	if _, err := l2.Add(ctx, []byte("three")); err != nil {
		vstub.Fail("C18 the other database cannot be written after a Drop")
	}

	// closing the instance, once or twice
	repeats := 1 + vstub.NdChoice("closes", 2)
	for k := 0; k < repeats; k++ {
		if err := p1.Close(); err != nil {
			vstub.Fail("C18 instance Close returned an error")
		}
	}
	vstub.WaitIdle()
	vstub.Cover("instance-closed")
	vstub.Assert(vstub.LiveThreads("berty.tech/go-orbit-db/stores") == 0, "C18 closing the instance leaves no store activity behind")
	vstub.Assert(vstub.LiveThreads("berty.tech/go-orbit-db/baseorbitdb") == 0, "C18 closing the instance leaves no instance activity behind")

	// a new instance on the same directory reopens the sibling with its data
	p2, e2 := newInstance("alice", "/data/alice", dag, blocks)
	if p2 == nil {
		return
	}
	// (a database that was opened by address, not created here, has no local manifest
	// record: LocalOnly is for the created sibling only)
	localOnly := sibling == 0
	r2, err := p2.Open(ctx, s2.Address().String(), &CreateDBOptions{IO: e2.IO, Replicate: &no, LocalOnly: &localOnly})
	vstub.Assert(err == nil, "C18 after Close the directory is reopenable")
	if err != nil {
		return
	}
	if err := r2.Load(ctx, -1); err != nil {
		vstub.Fail("C18 Load after reopen failed")
		return
	}
	vstub.WaitIdle()
	_, has := r2.OpLog().Get(op2.GetEntry().GetHash())
	vstub.Assert(has, "C18 acknowledged data of the sibling is there after reopening")
	vstub.Assert(r2.OpLog().Len() == 2, "C18 the reopened sibling holds all its acknowledged entries")
}

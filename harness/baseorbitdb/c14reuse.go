package baseorbitdb

import (
	"context"

	"berty.tech/go-orbit-db/internal/vstub"
)

func init() {
	verifHarnesses["VerifC14Reuse"] = VerifC14Reuse
}

// VerifC14Reuse: a caller REUSES one access-controller parameter value (and one
// options value) across calls: Create (or Open) of a first database, then - after
// giving the same value another write list - DetermineAddress and Create of a
// second one.  The address of the second database must be the one a fresh peer
// computes from (name, type, write list) alone, DetermineAddress must predict
// it, and the created store must enforce the write list given at ITS creation:
// nothing of the first call may leak through the reused value.
func VerifC14Reuse() {
	dag := vstub.NewMemDag()
	blocks := vstub.NewBlocks(nil)
	p1, e1 := newInstance("alice", "/data/alice", dag, blocks)
	p2, _ := newInstance("bob", "/home/bob/odb", vstub.NewMemDag(), nil)
	if p1 == nil || p2 == nil {
		return
	}
	ctx := context.Background()
	typ := storeTypes[vstub.NdChoice("type", len(storeTypes))]
	w1 := append([]string{"id-w0"}, c14Writers("w1")...)
	w2 := append([]string{"id-w0"}, c14Writers("w2")...)
	no := false
	params := acParams(w1)
	opts := &CreateDBOptions{AccessController: params, IO: e1.IO, Replicate: &no}
	first, err := p1.Create(ctx, "first", typ, opts)
	if err != nil {
		vstub.Fail("C14 Create of the first database failed")
		return
	}
	if vstub.NdChoice("then-open", 2) == 1 {
		// ... closed and opened again by address with the SAME options value
		_ = first.Close()
		if _, err := p1.Open(ctx, first.Address().String(), opts); err != nil {
			vstub.Fail("C14 Open of the first database failed")
			return
		}
		vstub.Cover("opened-with-the-same-options")
	}
	// the SAME options value is then used to OPEN a database of another type with
	// another write list (created with fresh values): the opened store has the type
	// and the write list recorded in ITS manifest, not what the value carried over
	otherTyp := storeTypes[(vstub.NdChoice("other-type", len(storeTypes)-1)+1+typeIndex(typ))%len(storeTypes)]
	w3 := []string{"id-w3"}
	third, err := p1.Create(ctx, "third", otherTyp, &CreateDBOptions{AccessController: acParams(w3), IO: e1.IO, Replicate: &no})
	if err != nil {
		vstub.Fail("C14 Create of the third database failed")
		return
	}
	thirdAddr := third.Address().String()
	_ = third.Close()
	reopened, err := p1.Open(ctx, thirdAddr, opts)
	vstub.Assert(err == nil, "C14 an address opens with a reused options value")
	if err == nil {
		vstub.Assert(reopened.Type() == otherTyp, "C14 opening an address with a reused options value yields a store of the RECORDED type")
		gotW, gerr := reopened.AccessController().GetAuthorizedByRole("write")
		vstub.Assert(gerr == nil && len(gotW) == 1 && gotW[0] == "id-w3", "C14 opening an address with a reused options value yields the write list given at ITS creation")
		_ = reopened.Close()
		vstub.Cover("opened-another-type-with-reused-options")
	}
	// the caller now describes another database with the same values
	params.SetAccess("write", append([]string{}, w2...))
	reuseOpts := vstub.NdChoice("reuse-options-value", 2) == 1
	o2 := opts
	if !reuseOpts {
		o2 = &CreateDBOptions{AccessController: params, IO: e1.IO, Replicate: &no}
	}
	want, werr := p2.DetermineAddress(ctx, "second", typ, &DetermineAddressOptions{AccessController: acParams(w2)})
	if werr != nil {
		vstub.Fail("C14 DetermineAddress on a fresh peer failed")
		return
	}
	pred, perr := p1.DetermineAddress(ctx, "second", typ, &DetermineAddressOptions{AccessController: params})
	vstub.Assert(perr == nil, "C14 DetermineAddress with a reused parameter value succeeds")
	if perr == nil {
		vstub.Assert(pred.String() == want.String(), "C14 DetermineAddress with a reused parameter value gives the address any peer computes from the same inputs")
	}
	second, err := p1.Create(ctx, "second", typ, o2)
	vstub.Assert(err == nil, "C14 Create with reused parameter / options values succeeds")
	if err != nil {
		return
	}
	vstub.Cover("created-with-reused-values")
	vstub.Assert(second.Address().String() == want.String(), "C14 Create with reused values gives the address any peer computes from the same inputs")
	got, gerr := second.AccessController().GetAuthorizedByRole("write")
	vstub.Assert(gerr == nil, "C14 the write list is readable")
	vstub.Assert(len(got) == len(w2), "C14 the store's write list is the one given at ITS creation (size)")
	if len(got) == len(w2) {
		for k := range w2 {
			vstub.Assert(got[k] == w2[k], "C14 the store's write list is the one given at ITS creation")
		}
	}
}

func typeIndex(t string) int {
	for k, x := range storeTypes {
		if x == t {
			return k
		}
	}
	return 0
}

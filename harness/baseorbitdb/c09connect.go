package baseorbitdb

import (
	"berty.tech/go-orbit-db/internal/vstub"
)

func init() {
	verifHarnesses["VerifC09SlowConnect"] = VerifC09SlowConnect
}

// VerifC09SlowConnect: the network layer two databases of one instance share.
// Instance a holds two written databases; peer b opens both, so both of a's
// stores ask the instance's ONE direct channel to connect to b at the same time,
// and connecting takes a while.  Meanwhile database A is closed (or dropped) on
// a - or nothing happens (control).  Once the connection is up, database B's
// heads still reach b: closing one database does not disturb the other's head
// exchange.
func VerifC09SlowConnect() {
	w := newSysWorld()
	a := w.boot("a", nil, false)
	b := w.boot("b", nil, false)
	if a == nil || b == nil {
		return
	}
	sa, sb := a.create("dbA", "eventlog"), a.create("dbB", "eventlog")
	if sa == nil || sb == nil {
		return
	}
	addrA, addrB := sa.Address().String(), sb.Address().String()
	if a.add(addrA, 'a') == nil || a.add(addrB, 'b') == nil {
		return
	}
	vstub.WaitIdle()
	gate := make(chan struct{})
	w.net.ConnectGate = gate
	// b opens database B first or database A first (which store asks for the
	// connection first is what a shared attempt would depend on)
	first, second := addrA, addrB
	if vstub.NdChoice("b-opens-B-first", 2) == 1 {
		first, second = addrB, addrA
	}
	if b.open(first) == nil || b.open(second) == nil {
		return
	}
	vstub.WaitIdle() // every store that saw a peer join is now waiting for its connection
	switch vstub.NdChoice("meanwhile", 3) {
	case 0:
		vstub.Cover("control")
	case 1:
		if err := sa.Close(); err != nil {
			vstub.Fail("C09 Close of database A failed")
		}
		vstub.Cover("A-closed-while-connecting")
	case 2:
		if err := sa.Drop(); err != nil {
			vstub.Fail("C09 Drop of database A failed")
		}
		vstub.Cover("A-dropped-while-connecting")
	}
	vstub.WaitIdle()
	close(gate)
	vstub.WaitIdle()
	vstub.Cover("connected")
	bB := b.stores[addrB]
	for _, e := range w.acks[addrB] {
		vstub.Assert(sysHolds(bB, e), "C09 closing or dropping one database does not stop another database's heads from reaching a peer that joined its topic")
	}
	vstub.Assert(bB.OpLog().Len() == len(w.acks[addrB]), "C09 database B holds exactly its own entries on the peer")
}

package baseorbitdb

import (
	"context"

	ipfslog "berty.tech/go-ipfs-log"
	"berty.tech/go-orbit-db/iface"
	"berty.tech/go-orbit-db/internal/vstub"
)

func init() {
	verifHarnesses["VerifC05SharedOptions"] = VerifC05SharedOptions
}

// VerifC05SharedOptions: an instance creates (or opens) two databases with ONE
// reused options value, writes to both and is closed cleanly; a new instance on
// the same directory reopens both and loads them: each holds exactly its own
// acknowledged entries (what was written to one database is persisted where that
// database is reloaded from).
func VerifC05SharedOptions() {
	w := newSysWorld()
	ctx := context.Background()
	a := w.boot("a", nil, false)
	if a == nil {
		return
	}
	opts := &CreateDBOptions{AccessController: acParams([]string{"*"}), IO: a.env.IO}
	reuse := vstub.NdChoice("reuse-options-value", 2) == 1
	mk := func(name string) Store {
		o := opts
		if !reuse {
			o = &CreateDBOptions{AccessController: acParams([]string{"*"}), IO: a.env.IO}
		}
		st, err := a.o.Create(ctx, name, "eventlog", o)
		if err != nil {
			vstub.Fail("C05 Create failed")
			return nil
		}
		return st
	}
	sa, sb := mk("dbA"), mk("dbB")
	if sa == nil || sb == nil {
		return
	}
	if reuse {
		vstub.Cover("options-value-reused")
	}
	acks := map[string][]ipfslog.Entry{}
	for k, st := range []Store{sa, sb, sb} {
		op, err := st.(iface.EventLogStore).Add(ctx, []byte{'w', byte('0' + k)})
		if err != nil {
			vstub.Fail("C05 Add failed")
			return
		}
		acks[st.Address().String()] = append(acks[st.Address().String()], op.GetEntry())
	}
	vstub.WaitIdle()
	if err := a.o.Close(); err != nil {
		vstub.Fail("C05 instance Close failed")
		return
	}
	vstub.WaitIdle()
	a.o = nil
	n := w.boot("a", a, false)
	if n == nil {
		return
	}
	for addr, want := range acks {
		st, err := n.o.Open(ctx, addr, &CreateDBOptions{IO: n.env.IO})
		if err != nil {
			vstub.Fail("C05 the database does not reopen")
			return
		}
		if err := st.Load(ctx, -1); err != nil {
			vstub.Fail("C05 Load failed")
			return
		}
		vstub.WaitIdle()
		for _, e := range want {
			vstub.Assert(sysHolds(st, e), "C05 every acknowledged write of each database is there after a clean restart (two databases of one instance)")
		}
		vstub.Assert(st.OpLog().Len() == len(want), "C05 after a restart each database holds exactly its own entries")
	}
	vstub.Cover("restarted")
}

package events

import (
	"context"

	"berty.tech/go-orbit-db/internal/vstub"
)

func init() {
	verifHarnesses["VerifC16LegacyMulti"] = VerifC16LegacyMulti
}

// VerifC16LegacyMulti: several subscribers of the legacy channel API at once -
// two Subscribe channels and the shared GlobalChannel (asked for twice: the same
// channel) - with different pacing: one reads promptly, one stalls until
// everything else is blocked, one is cancelled half-way.  Every subscriber that
// keeps reading receives all N events in emission order, exactly once, whatever
// the others do; a cancelled subscriber's channel is closed; UnsubscribeAll
// closes the remaining ones and nothing is left running.
func VerifC16LegacyMulti() {
	n := vstub.Param("N", 20)
	e := &EventEmitter{}
	if err := e.SetBus(vstub.NewBus()); err != nil {
		vstub.Fail("SetBus failed")
		return
	}
	ctx, cancel := context.WithCancel(context.Background())
	defer cancel()
	fast := e.Subscribe(ctx)
	slow := e.Subscribe(ctx)
	cctx, ccancel := context.WithCancel(ctx)
	quitter := e.Subscribe(cctx)
	g1 := e.GlobalChannel(ctx)
	g2 := e.GlobalChannel(ctx)
	vstub.Assert(g1 == g2, "C16 the global channel is one channel")
	vstub.Assert(e.GetBus() != nil, "C16 the emitter has a bus")

	var gotFast, gotGlobal, gotQuit []int
	doneFast, doneGlobal := make(chan struct{}), make(chan struct{})
	go func() {
		defer close(doneFast)
		for len(gotFast) < n {
			v, ok := <-fast
			if !ok {
				return
			}
			gotFast = append(gotFast, v.(int))
		}
	}()
	go func() {
		defer close(doneGlobal)
		for len(gotGlobal) < n {
			v, ok := <-g1
			if !ok {
				return
			}
			gotGlobal = append(gotGlobal, v.(int))
		}
	}()
	quitAt := vstub.NdChoice("quit-after", 3) // the quitter reads this many events, then its context is cancelled
	for k := 0; k < n; k++ {
		e.Emit(ctx, k)
		if len(gotQuit) < quitAt {
			select {
			case v, ok := <-quitter:
				if ok {
					gotQuit = append(gotQuit, v.(int))
				}
			default:
			}
		}
		if k == n/2 {
			ccancel()
		}
	}
	<-doneFast
	<-doneGlobal
	vstub.WaitIdle()
	// the slow subscriber starts reading only now
	var gotSlow []int
	for len(gotSlow) < n {
		v, ok := <-slow
		if !ok {
			break
		}
		gotSlow = append(gotSlow, v.(int))
	}
	vstub.Cover("drained")
	inOrder(gotFast, n, "C16 a prompt legacy subscriber receives the emitted sequence while others stall or quit")
	inOrder(gotGlobal, n, "C16 the global channel receives the emitted sequence while others stall or quit")
	inOrder(gotSlow, n, "C16 a stalled legacy subscriber receives the emitted sequence while others quit")
	for k := range gotQuit {
		vstub.Assert(gotQuit[k] == k, "C16 a subscriber that quits received a prefix of the emitted sequence")
	}
	// the cancelled subscriber's channel ends (after at most what was buffered)
	closed := false
	for k := 0; k < n+2; k++ {
		if _, ok := <-quitter; !ok {
			closed = true
			break
		}
	}
	vstub.Assert(closed, "C18 a cancelled legacy subscription's channel is closed")
	e.UnsubscribeAll()
	vstub.WaitIdle()
	for _, ch := range []<-chan Event{fast, slow, g1} {
		open := true
		for k := 0; k < n+2 && open; k++ {
			_, open = <-ch
		}
		vstub.Assert(!open, "C18 UnsubscribeAll closes every legacy subscription")
	}
	vstub.Assert(vstub.LiveThreads("berty.tech/go-orbit-db/events") == 0, "C18 UnsubscribeAll leaves no buffering goroutine behind")
	vstub.Cover("unsubscribed")
}

func init() {
	verifHarnesses["VerifC16LegacyCancel"] = VerifC16LegacyCancel
}

// VerifC16LegacyCancel: two legacy subscribers; one of them goes away (its
// context is cancelled) after K of the N emissions while the emitter keeps
// emitting (N exceeds the subscription buffers) and the other keeps reading;
// every schedule with at most P preemptions (switch or stall) at visible
// operations.  The subscriber that stays receives all N events in order - in
// particular the emitter never gets stuck on the one that left.
func VerifC16LegacyCancel() {
	n := vstub.Param("N", 18)
	p := vstub.Param("P", 1)
	e := &EventEmitter{}
	if err := e.SetBus(vstub.NewBus()); err != nil {
		vstub.Fail("SetBus failed")
		return
	}
	ctx, cancel := context.WithCancel(context.Background())
	defer cancel()
	stay := e.Subscribe(ctx)
	cctx, ccancel := context.WithCancel(ctx)
	_ = e.Subscribe(cctx) // never read: it stalls, then goes away
	// the subscriber leaves before the first emission, half-way, or after the last one
	// (KS = number of these cases explored; the quick tier explores the first only)
	k := vstub.NdChoice("cancel-after", vstub.Param("KS", 3)) * (n / 2)
	if k > n {
		k = n
	}
	if p > 0 {
		vstub.ExploreSchedules(p)
	} else {
		// P=0: default schedule, but every choice among ready select cases is explored
		// (the pump goroutine of the leaving subscriber may see its context first)
		vstub.ExploreSelects(true)
	}
	go func() {
		for j := 0; j < n; j++ {
			if j == k {
				ccancel()
			}
			e.Emit(ctx, j)
		}
		if k >= n {
			ccancel()
		}
	}()
	var got []int
	for len(got) < n {
		v, ok := <-stay
		if !ok {
			break
		}
		got = append(got, v.(int))
	}
	vstub.ExploreSchedules(0)
	vstub.ExploreSelects(false)
	vstub.Cover("drained")
	inOrder(got, n, "C16 a legacy subscriber keeps receiving the emitted sequence when another subscriber goes away")
}

package events

import (
	"context"

	"berty.tech/go-orbit-db/internal/vstub"
)

var verifHarnesses = map[string]func(){
	"VerifC16LegacyStall": VerifC16LegacyStall,
	"VerifC16LegacyRace":  VerifC16LegacyRace,
}

func inOrder(got []int, n int, label string) {
	vstub.Assert(len(got) == n, label+" (no loss, no duplication)")
	for k := 0; k < len(got) && k < n; k++ {
		vstub.Assert(got[k] == k, label+" (emission order)")
	}
}

// VerifC16LegacyStall: a subscriber of the legacy channel API stalls until the
// emitter has emitted N events (or is blocked by back-pressure), then drains:
// it receives exactly the emitted sequence.
func VerifC16LegacyStall() {
	n := vstub.Param("N", 40)
	e := &EventEmitter{}
	if err := e.SetBus(vstub.NewBus()); err != nil {
		vstub.Fail("SetBus failed")
		return
	}
	ctx, cancel := context.WithCancel(context.Background())
	defer cancel()
	ch := e.Subscribe(ctx)
	go func() {
		for k := 0; k < n; k++ {
			e.Emit(ctx, k)
		}
	}()
	vstub.WaitIdle() // the subscriber stalls as long as anything else can make progress
	var got []int
	for len(got) < n {
		v, ok := <-ch
		if !ok {
			break
		}
		got = append(got, v.(int))
	}
	vstub.Cover("drained")
	inOrder(got, n, "C16 legacy subscriber that stalled receives the emitted sequence")
}

// VerifC16LegacyRace: N events (N > channel capacity 16) with the interleaving
// of the emitter, the two buffering goroutines of the legacy emitter and the
// subscriber explored up to P preemptions.
func VerifC16LegacyRace() {
	n := vstub.Param("N", 18)
	p := vstub.Param("P", 1)
	e := &EventEmitter{}
	if err := e.SetBus(vstub.NewBus()); err != nil {
		vstub.Fail("SetBus failed")
		return
	}
	ctx, cancel := context.WithCancel(context.Background())
	defer cancel()
	ch := e.Subscribe(ctx)
	vstub.ExploreSchedules(p)
	go func() {
		for k := 0; k < n; k++ {
			e.Emit(ctx, k)
		}
	}()
	var got []int
	for len(got) < n {
		v, ok := <-ch
		if !ok {
			break
		}
		got = append(got, v.(int))
	}
	vstub.ExploreSchedules(0)
	vstub.Cover("drained")
	inOrder(got, n, "C16 legacy subscriber receives the emitted sequence under every explored interleaving")
}

package events

import (
	"bufio"
	"bytes"
	"context"
	"encoding/binary"
	"errors"
	"fmt"
	"io"
	"math"
	"math/bits"
	"slices"
	"sort"
	"strconv"
	"strings"
	"sync"
	"sync/atomic"
	"time"
	"unicode"
	"unicode/utf8"

	"berty.tech/go-orbit-db/internal/vstub"
)

func init() {
	verifHarnesses["VerifEngineSelfTest"] = VerifEngineSelfTest
}

type selfErr struct{ code int }

func (e *selfErr) Error() string { return "self error " + strconv.Itoa(e.code) }

// VerifEngineSelfTest: translator validation of the engine's library models.
// Every step appends what it observed to the trace; the check runs the same
// function natively and compares the traces (they must be identical).
func VerifEngineSelfTest() {
	obs := func(format string, args ...interface{}) { vstub.Observe(fmt.Sprintf(format, args...)) }
	x := vstub.NdChoice("x", 3)

	// strconv / fmt
	obs("itoa %s %q %v %d %x", strconv.Itoa(x*7), "q\"x", []int{x, 2}, x, 255+x)
	n, err := strconv.Atoi("12" + strconv.Itoa(x))
	obs("atoi %d %v", n, err)
	_, err = strconv.Atoi("zz")
	obs("atoi-err %v", err != nil)
	obs("sprint %s", fmt.Sprint("a", x, "b"))

	// strings / bytes
	sb := strings.Builder{}
	for k := 0; k <= x; k++ {
		sb.WriteString("ab")
		sb.WriteByte('-')
	}
	obs("builder %s %d", sb.String(), sb.Len())
	obs("strings %v %v %q %q %d", strings.HasPrefix("hello", "he"), strings.Contains("hello", "ll"), strings.ToUpper("aBc"), strings.TrimSpace("  x "), strings.Count("aXbXc", "X"))
	obs("fields %q %q", strings.Fields(" a  b c "), strings.SplitN("a/b/c", "/", 2))
	var buf bytes.Buffer
	buf.WriteString("abc")
	buf.WriteByte('d')
	buf.Write([]byte{'e'})
	obs("buffer %s %d", buf.String(), buf.Len())
	obs("bytes %v %d", bytes.Equal([]byte("ab"), []byte("ab")), bytes.IndexByte([]byte("abc"), 'c'))

	// sort
	xs := []int{3, 1 + x, 2}
	sort.Ints(xs)
	ss := []string{"b", "c", "a"}
	sort.Strings(ss)
	type kv struct {
		k string
		v int
	}
	kvs := []kv{{"b", 1}, {"a", 2}, {"b", 0}}
	sort.SliceStable(kvs, func(i, j int) bool { return kvs[i].k < kvs[j].k })
	obs("sort %v %v %v %d", xs, ss, kvs, sort.SearchInts(xs, 3))

	// errors
	base := &selfErr{code: x}
	wrapped := fmt.Errorf("outer: %w", base)
	var target *selfErr
	obs("errors %v %v %v %s", errors.Is(wrapped, base), errors.As(wrapped, &target), target != nil && target.code == x, wrapped.Error())
	obs("unwrap %v", errors.Unwrap(wrapped) == error(base))

	// maps, closures, defer/recover
	m := map[string]int{}
	m["a"] = 1
	m["b"] = 2
	delete(m, "a")
	_, has := m["a"]
	obs("map %d %v %d", len(m), has, m["b"])
	func() {
		defer func() { obs("recover %v", recover() != nil) }()
		var p *selfErr
		_ = p.code
	}()

	// atomics
	var cnt int64
	var flag atomic.Bool
	var ai atomic.Int32
	atomic.AddInt64(&cnt, int64(x)+1)
	flag.Store(true)
	ai.Add(5)
	sw := ai.CompareAndSwap(5, 9)
	obs("atomic %d %v %d %v", atomic.LoadInt64(&cnt), flag.Load(), ai.Load(), sw)
	var av atomic.Value
	av.Store("v")
	obs("atomic-value %v", av.Load())

	// sync.Map / sync.Once / sync.Pool
	var sm sync.Map
	sm.Store("k", 1)
	v, ok := sm.Load("k")
	_, loaded := sm.LoadOrStore("k", 2)
	sm.Delete("k")
	_, ok2 := sm.Load("k")
	obs("syncmap %v %v %v %v", v, ok, loaded, ok2)
	var once sync.Once
	calls := 0
	for k := 0; k < 3; k++ {
		once.Do(func() { calls++ })
	}
	obs("once %d", calls)
	pool := sync.Pool{New: func() interface{} { return new(int) }}
	pi := pool.Get().(*int)
	*pi = 7
	pool.Put(pi)
	obs("pool %v", pool.Get() != nil)

	// goroutines, channels, select, WaitGroup, Mutex, context
	var wg sync.WaitGroup
	var mu sync.Mutex
	total := 0
	ch := make(chan int, 4)
	for k := 1; k <= 3; k++ {
		wg.Add(1)
		go func(k int) {
			defer wg.Done()
			mu.Lock()
			total += k
			mu.Unlock()
			ch <- k
		}(k)
	}
	wg.Wait()
	close(ch)
	sum := 0
	for v := range ch {
		sum += v
	}
	obs("goroutines %d %d", total, sum)
	ctx, cancel := context.WithCancel(context.Background())
	done := make(chan struct{})
	go func() {
		<-ctx.Done()
		close(done)
	}()
	cancel()
	<-done
	obs("context %v", ctx.Err() == context.Canceled)
	tctx, tcancel := context.WithTimeout(context.Background(), 10*time.Millisecond)
	defer tcancel()
	select {
	case <-tctx.Done():
		obs("timeout %v", tctx.Err() == context.DeadlineExceeded)
	case <-time.After(5 * time.Second):
		obs("timeout missed")
	}
	vctx := context.WithValue(context.Background(), selfKey{}, "val")
	obs("ctxvalue %v", vctx.Value(selfKey{}))

	// time: monotone clock, timers
	t0 := time.Now()
	timer := time.NewTimer(time.Millisecond)
	<-timer.C
	obs("time %v %v", !time.Now().Before(t0), time.Since(t0) >= 0)

	// integer arithmetic with wrap-around on a symbolic value
	b := vstub.NdByte("b")
	u16 := uint16(b)*257 + 1
	i8 := int8(b)
	vstub.Assert((u16 == 1) == (b == 0), "selftest uint16 arithmetic")
	vstub.Assert((i8 < 0) == (b >= 128), "selftest int8 conversion")
	vstub.Cover("self-tested")
}

type selfKey struct{}

func init() {
	verifHarnesses["VerifEngineSelfTest2"] = VerifEngineSelfTest2
}

type byLen []string

func (b byLen) Len() int           { return len(b) }
func (b byLen) Less(i, j int) bool { return len(b[i]) < len(b[j]) }
func (b byLen) Swap(i, j int)      { b[i], b[j] = b[j], b[i] }

// VerifEngineSelfTest2: more library surface (generic helpers, io, binary,
// unicode, strconv, math) - same contract as VerifEngineSelfTest.
func VerifEngineSelfTest2() {
	obs := func(format string, args ...interface{}) { vstub.Observe(fmt.Sprintf(format, args...)) }
	x := vstub.NdChoice("x", 2)

	// sort.Sort / Stable with a user type, slices / maps generics, min / max
	bl := byLen{"ccc", "a", "bb"}
	sort.Sort(bl)
	obs("sort.Sort %s", strings.Join(bl, ","))
	is := []int{5, 2 + x, 9}
	slices.Sort(is)
	obs("slices %v %v %d %d %d", is, slices.Contains(is, 9), slices.Index(is, 5), min(3, x), max(3, x))
	keys := make([]string, 0)
	mm := map[string]int{"k1": 1, "k2": 2}
	for k := range mm {
		keys = append(keys, k)
	}
	sort.Strings(keys)
	obs("mapkeys %s", strings.Join(keys, ","))

	// strings misc
	obs("strings2 %v %s %s %s %d", strings.EqualFold("AbC", "aBc"), strings.Replace("aaa", "a", "b", 2), strings.Repeat("xy", 2), strings.TrimLeft("xxabc", "x"), strings.LastIndex("abcabc", "b"))
	obs("strings3 %s %v %s", strings.Map(func(r rune) rune {
		if r == 'a' {
			return 'A'
		}
		return r
	}, "banana"), strings.ContainsRune("abc", 'b'), strings.TrimFunc("  hi  ", unicode.IsSpace))
	obs("utf8 %d %d %v", utf8.RuneCountInString("héllo"), len("héllo"), utf8.ValidString("ok"))
	obs("unicode %v %v %c", unicode.IsUpper('A'), unicode.IsDigit('x'), unicode.ToLower('Q'))

	// strconv
	pb, _ := strconv.ParseBool("true")
	pi, _ := strconv.ParseInt("-42", 10, 64)
	pu, _ := strconv.ParseUint("ff", 16, 64)
	obs("strconv %v %d %d %s %s %s", pb, pi, pu, strconv.Quote("a\"b"), strconv.FormatUint(255, 2), strconv.FormatBool(false))

	// io / bufio / bytes
	data, err := io.ReadAll(bytes.NewReader([]byte("hello world")))
	obs("readall %s %v", string(data), err)
	var w bytes.Buffer
	n, _ := io.Copy(&w, strings.NewReader("copy me"))
	obs("copy %d %s", n, w.String())
	sc := bufio.NewScanner(strings.NewReader("l1\nl2\n"))
	lines := 0
	for sc.Scan() {
		lines++
	}
	obs("scanner %d", lines)
	br := bufio.NewReader(strings.NewReader("ab\ncd"))
	line, _ := br.ReadString('\n')
	obs("bufio %q", line)

	// encoding/binary
	bb := make([]byte, 8)
	binary.BigEndian.PutUint32(bb, 0xdeadbeef)
	binary.LittleEndian.PutUint16(bb[4:], 0x1234)
	vn := binary.PutUvarint(bb[6:], 300)
	uv, un := binary.Uvarint(bb[6:])
	obs("binary %x %d %d %d %x", bb[:6], vn, uv, un, binary.BigEndian.Uint32(bb))

	// math, durations
	obs("math %d %v %d", math.MaxInt32, math.Max(1.5, 2.5), bits.Len(uint(255)))
	obs("duration %s %d", (1500 * time.Millisecond).String(), int((2 * time.Second).Seconds()))

	// errors.Join, custom Is
	e1, e2 := errors.New("one"), errors.New("two")
	j := errors.Join(e1, e2)
	obs("join %v %v", errors.Is(j, e1), errors.Is(j, e2))

	// RWMutex, Cond, select with default, buffered channel len/cap
	var rw sync.RWMutex
	rw.RLock()
	rw.RUnlock()
	rw.Lock()
	rw.Unlock()
	c := make(chan int, 2)
	c <- 1
	sel := "none"
	select {
	case c <- 2:
		sel = "sent"
	default:
		sel = "default"
	}
	select {
	case c <- 3:
		sel += "+sent"
	default:
		sel += "+default"
	}
	obs("chan %s %d %d", sel, len(c), cap(c))
	cond := sync.NewCond(&sync.Mutex{})
	ready := false
	go func() {
		cond.L.Lock()
		ready = true
		cond.L.Unlock()
		cond.Broadcast()
	}()
	cond.L.Lock()
	for !ready {
		cond.Wait()
	}
	cond.L.Unlock()
	obs("cond %v", ready)

	// type switches, method values, variadics, struct copy, arrays
	var any interface{} = 3 + x
	switch v := any.(type) {
	case int:
		obs("typeswitch int %d", v)
	default:
		obs("typeswitch other")
	}
	arr := [3]int{1, 2, 3}
	arr2 := arr
	arr2[0] = 9
	f := strings.ToUpper
	obs("misc %v %v %s", arr, arr2, f("up"))
	vstub.Cover("self-tested")
}

package events

import (
	"bytes"
	"context"
	"errors"
	"fmt"
	"sort"
	"strconv"
	"strings"
	"sync"
	"sync/atomic"
	"time"

	"berty.tech/go-orbit-db/internal/vstub"
)

func init() {
	verifHarnesses["VerifEngineSelfTest"] = VerifEngineSelfTest
}

type selfErr struct{ code int }

func (e *selfErr) Error() string { return "self error " + strconv.Itoa(e.code) }

// VerifEngineSelfTest: translator validation of the engine's library models.
// Every step appends what it observed to the trace; the check runs the same
// function natively and compares the traces (they must be identical).
func VerifEngineSelfTest() {
	obs := func(format string, args ...interface{}) { vstub.Observe(fmt.Sprintf(format, args...)) }
	x := vstub.NdChoice("x", 3)

	// strconv / fmt
	obs("itoa %s %q %v %d %x", strconv.Itoa(x*7), "q\"x", []int{x, 2}, x, 255+x)
	n, err := strconv.Atoi("12" + strconv.Itoa(x))
	obs("atoi %d %v", n, err)
	_, err = strconv.Atoi("zz")
	obs("atoi-err %v", err != nil)
	obs("sprint %s", fmt.Sprint("a", x, "b"))

	// strings / bytes
	sb := strings.Builder{}
	for k := 0; k <= x; k++ {
		sb.WriteString("ab")
		sb.WriteByte('-')
	}
	obs("builder %s %d", sb.String(), sb.Len())
	obs("strings %v %v %q %q %d", strings.HasPrefix("hello", "he"), strings.Contains("hello", "ll"), strings.ToUpper("aBc"), strings.TrimSpace("  x "), strings.Count("aXbXc", "X"))
	obs("fields %q %q", strings.Fields(" a  b c "), strings.SplitN("a/b/c", "/", 2))
	var buf bytes.Buffer
	buf.WriteString("abc")
	buf.WriteByte('d')
	buf.Write([]byte{'e'})
	obs("buffer %s %d", buf.String(), buf.Len())
	obs("bytes %v %d", bytes.Equal([]byte("ab"), []byte("ab")), bytes.IndexByte([]byte("abc"), 'c'))

	// sort
	xs := []int{3, 1 + x, 2}
	sort.Ints(xs)
	ss := []string{"b", "c", "a"}
	sort.Strings(ss)
	type kv struct {
		k string
		v int
	}
	kvs := []kv{{"b", 1}, {"a", 2}, {"b", 0}}
	sort.SliceStable(kvs, func(i, j int) bool { return kvs[i].k < kvs[j].k })
	obs("sort %v %v %v %d", xs, ss, kvs, sort.SearchInts(xs, 3))

	// errors
	base := &selfErr{code: x}
	wrapped := fmt.Errorf("outer: %w", base)
	var target *selfErr
	obs("errors %v %v %v %s", errors.Is(wrapped, base), errors.As(wrapped, &target), target != nil && target.code == x, wrapped.Error())
	obs("unwrap %v", errors.Unwrap(wrapped) == error(base))

	// maps, closures, defer/recover
	m := map[string]int{}
	m["a"] = 1
	m["b"] = 2
	delete(m, "a")
	_, has := m["a"]
	obs("map %d %v %d", len(m), has, m["b"])
	func() {
		defer func() { obs("recover %v", recover() != nil) }()
		var p *selfErr
		_ = p.code
	}()

	// atomics
	var cnt int64
	var flag atomic.Bool
	var ai atomic.Int32
	atomic.AddInt64(&cnt, int64(x)+1)
	flag.Store(true)
	ai.Add(5)
	sw := ai.CompareAndSwap(5, 9)
	obs("atomic %d %v %d %v", atomic.LoadInt64(&cnt), flag.Load(), ai.Load(), sw)
	var av atomic.Value
	av.Store("v")
	obs("atomic-value %v", av.Load())

	// sync.Map / sync.Once / sync.Pool
	var sm sync.Map
	sm.Store("k", 1)
	v, ok := sm.Load("k")
	_, loaded := sm.LoadOrStore("k", 2)
	sm.Delete("k")
	_, ok2 := sm.Load("k")
	obs("syncmap %v %v %v %v", v, ok, loaded, ok2)
	var once sync.Once
	calls := 0
	for k := 0; k < 3; k++ {
		once.Do(func() { calls++ })
	}
	obs("once %d", calls)
	pool := sync.Pool{New: func() interface{} { return new(int) }}
	pi := pool.Get().(*int)
	*pi = 7
	pool.Put(pi)
	obs("pool %v", pool.Get() != nil)

	// goroutines, channels, select, WaitGroup, Mutex, context
	var wg sync.WaitGroup
	var mu sync.Mutex
	total := 0
	ch := make(chan int, 4)
	for k := 1; k <= 3; k++ {
		wg.Add(1)
		go func(k int) {
			defer wg.Done()
			mu.Lock()
			total += k
			mu.Unlock()
			ch <- k
		}(k)
	}
	wg.Wait()
	close(ch)
	sum := 0
	for v := range ch {
		sum += v
	}
	obs("goroutines %d %d", total, sum)
	ctx, cancel := context.WithCancel(context.Background())
	done := make(chan struct{})
	go func() {
		<-ctx.Done()
		close(done)
	}()
	cancel()
	<-done
	obs("context %v", ctx.Err() == context.Canceled)
	tctx, tcancel := context.WithTimeout(context.Background(), 10*time.Millisecond)
	defer tcancel()
	select {
	case <-tctx.Done():
		obs("timeout %v", tctx.Err() == context.DeadlineExceeded)
	case <-time.After(5 * time.Second):
		obs("timeout missed")
	}
	vctx := context.WithValue(context.Background(), selfKey{}, "val")
	obs("ctxvalue %v", vctx.Value(selfKey{}))

	// time: monotone clock, timers
	t0 := time.Now()
	timer := time.NewTimer(time.Millisecond)
	<-timer.C
	obs("time %v %v", !time.Now().Before(t0), time.Since(t0) >= 0)

	// integer arithmetic with wrap-around on a symbolic value
	b := vstub.NdByte("b")
	u16 := uint16(b)*257 + 1
	i8 := int8(b)
	vstub.Assert((u16 == 1) == (b == 0), "selftest uint16 arithmetic")
	vstub.Assert((i8 < 0) == (b >= 128), "selftest int8 conversion")
	vstub.Cover("self-tested")
}

type selfKey struct{}

package vstubodb

import (
	"context"
	"errors"
	"sync"

	"berty.tech/go-orbit-db/events"
	"berty.tech/go-orbit-db/iface"
	"github.com/libp2p/go-libp2p/core/peer"
)

// Net is a closed in-process network connecting several real orbitDB instances:
// a pubsub with topics, membership (join / leave notifications) and message
// fan-out, plus a pairwise direct channel whose Send emits the payload on the
// receiving instance's bus through the emitter that instance handed to its
// direct-channel factory (exactly what the bundled adapters do).  Links between
// two peers can be cut and healed; a publication to a connected subscriber can
// be lost or duplicated under the control of the harness (fault plan).
//
// Contract mirrored from the bundled adapters (pubsubcoreapi, oneonone,
// directchannel): a peer never receives its own publications; watch channels
// close when the subscription's context ends; a Send to an unreachable peer
// returns an error; join/leave are reported once per change.
type Net struct {
	mu    sync.Mutex
	nodes []*NetNode
	cut   map[string]bool
	// Fault decides the fate of one publication towards one subscriber:
	// 0 = delivered once, 1 = lost, 2 = delivered twice.  nil = always delivered.
	Fault func(from, to peer.ID, topic string) int
	// ConnectGate, if set, makes every direct-channel Connect wait until it is closed.
	ConnectGate chan struct{}
	// Log records every message put on the wire (publications per topic and
	// direct sends), for isolation oracles.
	Log []NetMsg
}

// NetMsg is one message as seen on the wire.
type NetMsg struct {
	Direct bool
	Topic  string // publication: the topic
	From   peer.ID
	To     peer.ID // direct send: the addressee
	Data   []byte
}

type netSub struct {
	topic   string
	peersCh chan events.Event
	msgCh   chan *iface.EventPubSubMessage
	live    bool
}

// NetNode is one peer's attachment to the network: it implements
// iface.PubSubInterface and provides the peer's direct-channel factory.
type NetNode struct {
	net     *Net
	ID      peer.ID
	subs    []*netSub
	emitter iface.DirectChannelEmitter
	dcOpen  bool
}

func NewNet() *Net { return &Net{cut: map[string]bool{}} }

func linkKey(a, b peer.ID) string {
	if string(a) < string(b) {
		return string(a) + "|" + string(b)
	}
	return string(b) + "|" + string(a)
}

// Node attaches a (new incarnation of a) peer to the network.
func (n *Net) Node(id peer.ID) *NetNode {
	n.mu.Lock()
	defer n.mu.Unlock()
	nd := &NetNode{net: n, ID: id}
	// a restarted peer replaces its previous incarnation
	for i, o := range n.nodes {
		if o.ID == id {
			n.nodes[i] = nd
			return nd
		}
	}
	n.nodes = append(n.nodes, nd)
	return nd
}

func (n *Net) connected(a, b peer.ID) bool { return !n.cut[linkKey(a, b)] }

func (nd *NetNode) sub(topic string) *netSub {
	for _, s := range nd.subs {
		if s.topic == topic && s.live {
			return s
		}
	}
	return nil
}

type netNotice struct {
	ch chan events.Event
	ev events.Event
}

func sendNotices(ns []netNotice) {
	for _, x := range ns {
		x.ch <- x.ev
	}
}

// Cut severs the link between a and b: each side sees the other leave every
// topic they share.
func (n *Net) Cut(a, b peer.ID) {
	n.mu.Lock()
	if n.cut[linkKey(a, b)] {
		n.mu.Unlock()
		return
	}
	n.cut[linkKey(a, b)] = true
	ns := n.membershipNotices(a, b, false)
	n.mu.Unlock()
	sendNotices(ns)
}

// Heal restores the link: each side sees the other join every shared topic.
func (n *Net) Heal(a, b peer.ID) {
	n.mu.Lock()
	if !n.cut[linkKey(a, b)] {
		n.mu.Unlock()
		return
	}
	delete(n.cut, linkKey(a, b))
	ns := n.membershipNotices(a, b, true)
	n.mu.Unlock()
	sendNotices(ns)
}

func (n *Net) IsCut(a, b peer.ID) bool {
	n.mu.Lock()
	defer n.mu.Unlock()
	return n.cut[linkKey(a, b)]
}

func (n *Net) find(id peer.ID) *NetNode {
	for _, o := range n.nodes {
		if o.ID == id {
			return o
		}
	}
	return nil
}

func (n *Net) membershipNotices(a, b peer.ID, join bool) []netNotice {
	na, nb := n.find(a), n.find(b)
	if na == nil || nb == nil {
		return nil
	}
	var out []netNotice
	for _, sa := range na.subs {
		if !sa.live {
			continue
		}
		sb := nb.sub(sa.topic)
		if sb == nil {
			continue
		}
		if join {
			out = append(out, netNotice{sa.peersCh, &iface.EventPubSubJoin{Topic: sa.topic, Peer: b}})
			out = append(out, netNotice{sb.peersCh, &iface.EventPubSubJoin{Topic: sa.topic, Peer: a}})
		} else {
			out = append(out, netNotice{sa.peersCh, &iface.EventPubSubLeave{Topic: sa.topic, Peer: b}})
			out = append(out, netNotice{sb.peersCh, &iface.EventPubSubLeave{Topic: sa.topic, Peer: a}})
		}
	}
	return out
}

// ---------------------------------------------------------------- pubsub

type netTopic struct {
	nd *NetNode
	s  *netSub
}

func (nd *NetNode) TopicSubscribe(ctx context.Context, topic string) (iface.PubSubTopic, error) {
	n := nd.net
	n.mu.Lock()
	if s := nd.sub(topic); s != nil {
		n.mu.Unlock()
		return &netTopic{nd: nd, s: s}, nil
	}
	s := &netSub{topic: topic, live: true,
		peersCh: make(chan events.Event, 64), msgCh: make(chan *iface.EventPubSubMessage, 64)}
	nd.subs = append(nd.subs, s)
	var ns []netNotice
	for _, o := range n.nodes {
		if o == nd || !n.connected(o.ID, nd.ID) {
			continue
		}
		if os := o.sub(topic); os != nil {
			ns = append(ns, netNotice{os.peersCh, &iface.EventPubSubJoin{Topic: topic, Peer: nd.ID}})
			ns = append(ns, netNotice{s.peersCh, &iface.EventPubSubJoin{Topic: topic, Peer: o.ID}})
		}
	}
	n.mu.Unlock()
	sendNotices(ns)
	// the subscription ends with its context: the others see this peer leave
	go func() {
		<-ctx.Done()
		n.mu.Lock()
		s.live = false
		var ns []netNotice
		for _, o := range n.nodes {
			if o == nd || !n.connected(o.ID, nd.ID) {
				continue
			}
			if os := o.sub(topic); os != nil {
				ns = append(ns, netNotice{os.peersCh, &iface.EventPubSubLeave{Topic: topic, Peer: nd.ID}})
			}
		}
		n.mu.Unlock()
		sendNotices(ns)
	}()
	return &netTopic{nd: nd, s: s}, nil
}

func (t *netTopic) Topic() string { return t.s.topic }

func (t *netTopic) Peers(ctx context.Context) ([]peer.ID, error) {
	n := t.nd.net
	n.mu.Lock()
	defer n.mu.Unlock()
	var out []peer.ID
	for _, o := range n.nodes {
		if o == t.nd || !n.connected(o.ID, t.nd.ID) {
			continue
		}
		if o.sub(t.s.topic) != nil {
			out = append(out, o.ID)
		}
	}
	return out, nil
}

func (t *netTopic) Publish(ctx context.Context, message []byte) error {
	n := t.nd.net
	n.mu.Lock()
	n.Log = append(n.Log, NetMsg{Topic: t.s.topic, From: t.nd.ID, Data: message})
	type tgt struct {
		id peer.ID
		ch chan *iface.EventPubSubMessage
	}
	var tgts []tgt
	for _, o := range n.nodes {
		if o == t.nd || !n.connected(o.ID, t.nd.ID) {
			continue
		}
		if os := o.sub(t.s.topic); os != nil {
			tgts = append(tgts, tgt{o.ID, os.msgCh})
		}
	}
	fault := n.Fault
	n.mu.Unlock()
	for _, g := range tgts {
		times := 1
		if fault != nil {
			switch fault(t.nd.ID, g.id, t.s.topic) {
			case 1:
				times = 0
			case 2:
				times = 2
			}
		}
		for k := 0; k < times; k++ {
			g.ch <- &iface.EventPubSubMessage{Content: message}
		}
	}
	return nil
}

func (t *netTopic) WatchPeers(ctx context.Context) (<-chan events.Event, error) {
	out := make(chan events.Event, 8)
	src := t.s.peersCh
	go func() {
		defer close(out)
		for {
			select {
			case <-ctx.Done():
				return
			case e := <-src:
				select {
				case out <- e:
				case <-ctx.Done():
					return
				}
			}
		}
	}()
	return out, nil
}

func (t *netTopic) WatchMessages(ctx context.Context) (<-chan *iface.EventPubSubMessage, error) {
	out := make(chan *iface.EventPubSubMessage, 8)
	src := t.s.msgCh
	go func() {
		defer close(out)
		for {
			select {
			case <-ctx.Done():
				return
			case m := <-src:
				select {
				case out <- m:
				case <-ctx.Done():
					return
				}
			}
		}
	}()
	return out, nil
}

// ---------------------------------------------------------------- direct channel

type netDirect struct{ nd *NetNode }

// DirectFactory is the peer's iface.DirectChannelFactory: the emitter it
// receives is the one the instance created on its own bus.
func (nd *NetNode) DirectFactory() iface.DirectChannelFactory {
	return func(ctx context.Context, emitter iface.DirectChannelEmitter, opts *iface.DirectChannelOptions) (iface.DirectChannel, error) {
		nd.net.mu.Lock()
		nd.emitter = emitter
		nd.dcOpen = true
		nd.net.mu.Unlock()
		return &netDirect{nd: nd}, nil
	}
}

var ErrUnreachable = errors.New("vstubodb: peer unreachable")

func (d *netDirect) Connect(ctx context.Context, p peer.ID) error {
	n := d.nd.net
	// a connection attempt may take time (as the bundled pairwise channel, which
	// polls until the other side shows up): it waits for the harness's gate, or
	// ends with the caller's context
	n.mu.Lock()
	gate := n.ConnectGate
	n.mu.Unlock()
	if gate != nil {
		select {
		case <-gate:
		case <-ctx.Done():
			return ctx.Err()
		}
	}
	n.mu.Lock()
	defer n.mu.Unlock()
	o := n.find(p)
	if o == nil || !o.dcOpen || !n.connected(p, d.nd.ID) {
		return ErrUnreachable
	}
	return nil
}

func (d *netDirect) Send(ctx context.Context, p peer.ID, data []byte) error {
	n := d.nd.net
	n.mu.Lock()
	o := n.find(p)
	if o == nil || !o.dcOpen || !n.connected(p, d.nd.ID) {
		n.mu.Unlock()
		return ErrUnreachable
	}
	n.Log = append(n.Log, NetMsg{Direct: true, From: d.nd.ID, To: p, Data: data})
	em := o.emitter
	n.mu.Unlock()
	return em.Emit(&iface.EventPubSubPayload{Payload: data, Peer: d.nd.ID})
}

// Inject delivers an arbitrary payload to peer p's direct channel as if sent by `from`.
func (n *Net) Inject(from, p peer.ID, data []byte) error {
	n.mu.Lock()
	o := n.find(p)
	if o == nil || !o.dcOpen {
		n.mu.Unlock()
		return ErrUnreachable
	}
	em := o.emitter
	n.mu.Unlock()
	return em.Emit(&iface.EventPubSubPayload{Payload: data, Peer: from})
}

// InjectTopic delivers an arbitrary message to peer p's subscription of a topic.
func (n *Net) InjectTopic(p peer.ID, topic string, data []byte) bool {
	n.mu.Lock()
	o := n.find(p)
	var s *netSub
	if o != nil {
		s = o.sub(topic)
	}
	n.mu.Unlock()
	if s == nil {
		return false
	}
	s.msgCh <- &iface.EventPubSubMessage{Content: data}
	return true
}

func (d *netDirect) Close() error {
	d.nd.net.mu.Lock()
	d.nd.dcOpen = false
	d.nd.net.mu.Unlock()
	return nil
}

// Messages returns a copy of the wire log.
func (n *Net) Messages() []NetMsg {
	n.mu.Lock()
	defer n.mu.Unlock()
	return append([]NetMsg{}, n.Log...)
}

package vstubodb

import (
	"context"

	ipfslog "berty.tech/go-ipfs-log"
	idp "berty.tech/go-ipfs-log/identityprovider"
	"berty.tech/go-orbit-db/accesscontroller"
	"berty.tech/go-orbit-db/accesscontroller/simple"
	"berty.tech/go-orbit-db/address"
	"berty.tech/go-orbit-db/iface"
	"berty.tech/go-orbit-db/internal/vstub"
	cid "github.com/ipfs/go-cid"
	coreiface "github.com/ipfs/kubo/core/coreiface"
	"github.com/libp2p/go-libp2p/core/event"
	"github.com/libp2p/go-libp2p/core/peer"
)

// Env is everything one replica needs: stub IPFS (block store), identity,
// cache, bus, pubsub and direct channel, all observable by the harness.
type Env struct {
	IPFS     *vstub.CoreAPI
	Blocks   *vstub.Blocks
	IO       *vstub.IO
	Effects  *vstub.EffectLog
	Cache    *vstub.Cache
	Bus      event.Bus
	PubSub   *PubSub
	Direct   *DirectChannel
	Identity *idp.Identity
	Provider *vstub.Provider
	Addr     address.Address
}

// NewEnv builds a fresh environment for the replica called name.  blocks may be
// shared between replicas ("blocks held by a connected peer are fetchable").
func NewEnv(name string, dbCid int, dbName string, blocks *vstub.Blocks, bus event.Bus) *Env {
	e := &Env{Effects: &vstub.EffectLog{}}
	if blocks == nil {
		blocks = vstub.NewBlocks(e.Effects)
	}
	e.Blocks = blocks
	e.IO = &vstub.IO{B: blocks}
	e.IPFS = &vstub.CoreAPI{Peer: peer.ID("peer-" + name)}
	e.Cache = vstub.NewCache(e.Effects)
	if bus == nil {
		bus = vstub.NewBus()
	}
	e.Bus = bus
	e.PubSub = NewPubSub()
	e.Direct = &DirectChannel{}
	e.Provider = vstub.NewProvider()
	e.Identity = vstub.NewIdentity(name, e.Provider)
	addr, err := address.Parse("/orbitdb/" + vstub.MkCid(dbCid).String() + "/" + dbName)
	if err != nil {
		panic("vstubodb: address: " + err.Error())
	}
	e.Addr = addr
	return e
}

// Options returns store options wired to the environment.
func (e *Env) Options(replicate bool) *iface.NewStoreOptions {
	r := replicate
	return &iface.NewStoreOptions{
		EventBus:      e.Bus,
		Cache:         e.Cache,
		CacheDestroy:  func() error { return nil },
		Replicate:     &r,
		IO:            e.IO,
		PubSub:        e.PubSub,
		DirectChannel: e.Direct,
		PeerID:        e.IPFS.Peer,
	}
}

// Ctor is a store constructor (kvstore.NewOrbitDBKeyValue, ...).
type Ctor func(coreiface.CoreAPI, *idp.Identity, address.Address, *iface.NewStoreOptions) (iface.Store, error)

// Replica is one open store with its environment.
type Replica struct {
	Name  string
	Store iface.Store
	Env   *Env
}

// WriteAll is an access controller parameter: every identity may write.
func WriteAll() accesscontroller.Interface {
	params := accesscontroller.NewManifestParams(cid.Cid{}, true, "simple")
	params.SetAccess("write", []string{"*"})
	ac, err := simple.NewSimpleAccessController(context.Background(), nil, params)
	if err != nil {
		panic("vstubodb: simple AC: " + err.Error())
	}
	return ac
}

// Writers is an access controller admitting exactly the given identity ids.
func Writers(ids ...string) accesscontroller.Interface {
	params := accesscontroller.NewManifestParams(cid.Cid{}, true, "simple")
	params.SetAccess("write", ids)
	ac, err := simple.NewSimpleAccessController(context.Background(), nil, params)
	if err != nil {
		panic("vstubodb: simple AC: " + err.Error())
	}
	return ac
}

// Open opens a replica of database (dbCid, dbName) for identity `name` over a
// (possibly shared) block store.  env may carry a pre-existing cache (restart).
func Open(ctor Ctor, name string, blocks *vstub.Blocks, ac accesscontroller.Interface, replicate bool, cache *vstub.Cache) *Replica {
	env := NewEnv(name, 1, "db", blocks, nil)
	if cache != nil {
		env.Cache = cache
	}
	opts := env.Options(replicate)
	opts.AccessController = ac
	st, err := ctor(env.IPFS, env.Identity, env.Addr, opts)
	if err != nil {
		vstub.Fail("store constructor failed")
		return nil
	}
	return &Replica{Name: name, Store: st, Env: env}
}

// Heads returns the replica's current heads as entries.
func (r *Replica) Heads() []ipfslog.Entry {
	return r.Store.OpLog().Heads().Slice()
}

// SyncFrom delivers the heads of `from` to r through the real Sync path
// (replicator, fetcher, join) and waits for quiescence.
func (r *Replica) SyncFrom(from *Replica) {
	heads := from.Heads()
	// heads travel as copies (they are decoded from a message in reality)
	var copies []ipfslog.Entry
	for _, h := range heads {
		copies = append(copies, h.Copy())
	}
	if err := r.Store.Sync(context.Background(), copies); err != nil {
		vstub.Fail("Sync returned an error for honest heads")
	}
	vstub.WaitIdle()
}

// Hashes lists the log in its total order.
func (r *Replica) Hashes() []string {
	var out []string
	for _, e := range r.Store.OpLog().Values().Slice() {
		out = append(out, e.GetHash().String())
	}
	return out
}

func SameStrings(a, b []string) bool {
	if len(a) != len(b) {
		return false
	}
	for i := range a {
		if a[i] != b[i] {
			return false
		}
	}
	return true
}

// FreshFrom builds a fresh replica that receives everything `from` holds by one
// of the delivery routes of the property: 0 = manual sync / announced heads,
// 1 = load from disk (a new store over from's cache and blocks, real Load),
// 2 = snapshot (from saves a snapshot, the new store loads it),
// 4 = partial load from disk (limit) completed by a lagging peer's heads.
func FreshFrom(ctor Ctor, from *Replica, route int, save func(context.Context, iface.Store) error) *Replica {
	switch route {
	case 0:
		r := Open(ctor, "r", from.Env.Blocks, from.Store.AccessController(), false, nil)
		if r != nil {
			r.SyncFrom(from)
		}
		return r
	case 1:
		r := Open(ctor, from.Name, from.Env.Blocks, from.Store.AccessController(), false, from.Env.Cache)
		if r == nil {
			return nil
		}
		if err := r.Store.Load(context.Background(), -1); err != nil {
			vstub.Fail("Load from disk failed")
			return nil
		}
		vstub.WaitIdle()
		return r
	case 4:
		// partial load, then the rest arrives as the head of a lagging peer: a new
		// store over from's disk loads only the k most recent entries (k symbolic
		// choice), then is handed the newest entry it does NOT hold as an announced
		// head (what a peer that lags behind would announce); the replicator
		// fetches that entry's ancestry; the log's heads do not move
		all := from.Store.OpLog().Values().Slice()
		if len(all) < 2 {
			return FreshFrom(ctor, from, 1, save)
		}
		k := 1 + vstub.NdChoice("partial", len(all)-1)
		r := Open(ctor, from.Name, from.Env.Blocks, from.Store.AccessController(), false, from.Env.Cache)
		if r == nil {
			return nil
		}
		if err := r.Store.Load(context.Background(), k); err != nil {
			vstub.Fail("partial Load failed")
			return nil
		}
		vstub.WaitIdle()
		vstub.Cover("partial-load")
		// newest-first: hand over every entry the replica does not hold yet
		for j := len(all) - 1; j >= 0; j-- {
			if _, ok := r.Store.OpLog().Get(all[j].GetHash()); ok {
				continue
			}
			if vstub.NdChoice("lagging-via", 2) == 0 {
				if err := r.Store.Sync(context.Background(), []ipfslog.Entry{all[j].Copy()}); err != nil {
					vstub.Fail("Sync returned an error for an honest lagging head")
				}
			} else {
				// the "load more" request of the public store API
				r.Store.LoadMoreFrom(context.Background(), 0, []ipfslog.Entry{all[j].Copy()})
				vstub.Cover("load-more-from")
			}
			vstub.WaitIdle()
		}
		return r
	default:
		if err := save(context.Background(), from.Store); err != nil {
			vstub.Fail("SaveSnapshot failed")
			return nil
		}
		env := NewEnv(from.Name, 1, "db", from.Env.Blocks, nil)
		env.Cache = from.Env.Cache
		env.IPFS.Files = from.Env.IPFS.Files
		opts := env.Options(false)
		opts.AccessController = from.Store.AccessController()
		st, err := ctor(env.IPFS, env.Identity, env.Addr, opts)
		if err != nil {
			vstub.Fail("store constructor failed")
			return nil
		}
		if err := st.LoadFromSnapshot(context.Background()); err != nil {
			vstub.Fail("LoadFromSnapshot failed")
			return nil
		}
		vstub.WaitIdle()
		return &Replica{Name: from.Name, Store: st, Env: env}
	}
}

// BatchedRestart: a reader that writes nothing receives the heads of x and then
// the heads of y in two separate batches (concurrent branches stay a fork in
// its log), is closed, reopened over its own cache and blocks and loaded from
// disk.  Returns the reader's ordered log before the restart and the reloaded
// replica.
func BatchedRestart(ctor Ctor, x, y *Replica) ([]string, *Replica) {
	ac := x.Store.AccessController()
	c := Open(ctor, "r", x.Env.Blocks, ac, false, nil)
	if c == nil {
		return nil, nil
	}
	c.SyncFrom(x)
	c.SyncFrom(y)
	before := c.Hashes()
	if err := c.Store.Close(); err != nil {
		vstub.Fail("Close failed")
		return nil, nil
	}
	r := Open(ctor, "r", x.Env.Blocks, ac, false, c.Env.Cache)
	if r == nil {
		return nil, nil
	}
	if err := r.Store.Load(context.Background(), -1); err != nil {
		vstub.Fail("Load from disk failed")
		return nil, nil
	}
	vstub.WaitIdle()
	return before, r
}

// Converge ends a two-writer history: a and b exchange heads both ways and a
// third replica receives the same entries by one of four routes (FreshFrom's
// three, or 3 = the heads of a and b in two separate batches in either order
// before they merge, then a restart from its own disk followed by the merged
// heads).  restartBefore is the route-3 reader's log before its restart.
func Converge(ctor Ctor, a, b *Replica, save func(context.Context, iface.Store) error) (r *Replica, restartBefore, restartAfter []string) {
	route := vstub.NdChoice("route", 5)
	if route == 3 {
		x, y := a, b
		if vstub.NdChoice("batch-order", 2) == 1 {
			x, y = b, a
		}
		restartBefore, r = BatchedRestart(ctor, x, y)
		if r == nil {
			return nil, nil, nil
		}
		restartAfter = r.Hashes()
	}
	a.SyncFrom(b)
	b.SyncFrom(a)
	if route == 3 {
		r.SyncFrom(a)
		return r, restartBefore, restartAfter
	}
	return FreshFrom(ctor, a, route, save), nil, nil
}

package vstubodb

import (
	idp "berty.tech/go-ipfs-log/identityprovider"
	"berty.tech/go-orbit-db/address"
	"berty.tech/go-orbit-db/iface"
	"berty.tech/go-orbit-db/internal/vstub"
	"github.com/libp2p/go-libp2p/core/event"
	"github.com/libp2p/go-libp2p/core/peer"
)

// Env is everything one replica needs: stub IPFS (block store), identity,
// cache, bus, pubsub and direct channel, all observable by the harness.
type Env struct {
	IPFS     *vstub.CoreAPI
	Blocks   *vstub.Blocks
	IO       *vstub.IO
	Effects  *vstub.EffectLog
	Cache    *vstub.Cache
	Bus      event.Bus
	PubSub   *PubSub
	Direct   *DirectChannel
	Identity *idp.Identity
	Provider *vstub.Provider
	Addr     address.Address
}

// NewEnv builds a fresh environment for the replica called name.  blocks may be
// shared between replicas ("blocks held by a connected peer are fetchable").
func NewEnv(name string, dbCid int, dbName string, blocks *vstub.Blocks, bus event.Bus) *Env {
	e := &Env{Effects: &vstub.EffectLog{}}
	if blocks == nil {
		blocks = vstub.NewBlocks(e.Effects)
	}
	e.Blocks = blocks
	e.IO = &vstub.IO{B: blocks}
	e.IPFS = &vstub.CoreAPI{Peer: peer.ID("peer-" + name)}
	e.Cache = vstub.NewCache(e.Effects)
	if bus == nil {
		bus = vstub.NewBus()
	}
	e.Bus = bus
	e.PubSub = NewPubSub()
	e.Direct = &DirectChannel{}
	e.Provider = vstub.NewProvider()
	e.Identity = vstub.NewIdentity(name, e.Provider)
	addr, err := address.Parse("/orbitdb/" + vstub.MkCid(dbCid).String() + "/" + dbName)
	if err != nil {
		panic("vstubodb: address: " + err.Error())
	}
	e.Addr = addr
	return e
}

// Options returns store options wired to the environment.
func (e *Env) Options(replicate bool) *iface.NewStoreOptions {
	r := replicate
	return &iface.NewStoreOptions{
		EventBus:      e.Bus,
		Cache:         e.Cache,
		CacheDestroy:  func() error { return nil },
		Replicate:     &r,
		IO:            e.IO,
		PubSub:        e.PubSub,
		DirectChannel: e.Direct,
		PeerID:        e.IPFS.Peer,
	}
}

// Package vstubodb holds the harness stubs that need go-orbit-db's own
// interface package (pubsub topics, direct channel, store options).  It is
// separate from vstub so that harnesses inside packages imported by `iface`
// (replicator, events, accesscontroller, ...) can still import vstub.
package vstubodb

import (
	"context"
	"sync"

	"berty.tech/go-orbit-db/events"
	"berty.tech/go-orbit-db/iface"
	"github.com/libp2p/go-libp2p/core/peer"
)

// ---------------------------------------------------------------- pubsub / direct channel

type Topic struct {
	name      string
	mu        sync.Mutex
	PeerList  []peer.ID
	Published [][]byte
	PeersCh   chan events.Event
	MsgCh     chan *iface.EventPubSubMessage
}

type PubSub struct {
	mu     sync.Mutex
	Topics map[string]*Topic
}

func NewPubSub() *PubSub { return &PubSub{Topics: map[string]*Topic{}} }

func (p *PubSub) TopicSubscribe(ctx context.Context, topic string) (iface.PubSubTopic, error) {
	p.mu.Lock()
	defer p.mu.Unlock()
	t, ok := p.Topics[topic]
	if !ok {
		t = &Topic{name: topic, PeersCh: make(chan events.Event, 8), MsgCh: make(chan *iface.EventPubSubMessage, 8)}
		p.Topics[topic] = t
	}
	return t, nil
}

func (t *Topic) Publish(ctx context.Context, message []byte) error {
	t.mu.Lock()
	t.Published = append(t.Published, message)
	t.mu.Unlock()
	return nil
}

func (t *Topic) Peers(ctx context.Context) ([]peer.ID, error) {
	t.mu.Lock()
	defer t.mu.Unlock()
	return append([]peer.ID{}, t.PeerList...), nil
}

// WatchPeers / WatchMessages honour the contract of the real adapters: the
// returned channel is closed when the context ends.
func (t *Topic) WatchPeers(ctx context.Context) (<-chan events.Event, error) {
	out := make(chan events.Event, 8)
	go func() {
		defer close(out)
		for {
			select {
			case <-ctx.Done():
				return
			case e := <-t.PeersCh:
				select {
				case out <- e:
				case <-ctx.Done():
					return
				}
			}
		}
	}()
	return out, nil
}

func (t *Topic) WatchMessages(ctx context.Context) (<-chan *iface.EventPubSubMessage, error) {
	out := make(chan *iface.EventPubSubMessage, 8)
	go func() {
		defer close(out)
		for {
			select {
			case <-ctx.Done():
				return
			case m := <-t.MsgCh:
				select {
				case out <- m:
				case <-ctx.Done():
					return
				}
			}
		}
	}()
	return out, nil
}
func (t *Topic) Topic() string { return t.name }

func (t *Topic) NumPublished() int {
	t.mu.Lock()
	defer t.mu.Unlock()
	return len(t.Published)
}

type SentMsg struct {
	To   peer.ID
	Data []byte
}

type DirectChannel struct {
	mu   sync.Mutex
	Sent []SentMsg
}

func (d *DirectChannel) Connect(ctx context.Context, p peer.ID) error { return nil }
func (d *DirectChannel) Send(ctx context.Context, p peer.ID, data []byte) error {
	d.mu.Lock()
	d.Sent = append(d.Sent, SentMsg{To: p, Data: data})
	d.mu.Unlock()
	return nil
}
func (d *DirectChannel) Close() error { return nil }

package orbitdb

import (
	"encoding/json"
	"fmt"
	"os"
	"strings"
	"testing"

	"berty.tech/go-orbit-db/internal/vstub"
)

// TestVerifReplay runs harnesses natively (real compiler, real libraries) on the
// inputs recorded in the replay files named by VERIF_REPLAY (colon-separated).
func TestVerifReplay(t *testing.T) {
	files := os.Getenv("VERIF_REPLAY")
	if files == "" {
		t.Skip("VERIF_REPLAY not set")
	}
	for _, f := range strings.Split(files, ":") {
		os.Setenv("VERIF_REPLAY", f)
		if err := vstub.LoadReplay(); err != nil {
			fmt.Printf("VERIF-REPLAY-RESULT %s {\"error\":%q}\n", f, err.Error())
			continue
		}
		h := verifHarnesses[vstub.ReplayHarness()]
		panicMsg := ""
		func() {
			defer func() {
				if r := recover(); r != nil {
					panicMsg = fmt.Sprint(r)
				}
			}()
			if h == nil {
				panicMsg = "unknown harness " + vstub.ReplayHarness()
				return
			}
			h()
		}()
		vstub.Cleanup()
		failures, trace := vstub.Report()
		out, _ := json.Marshal(map[string]interface{}{"failures": failures, "trace": trace, "panic": panicMsg})
		fmt.Printf("VERIF-REPLAY-RESULT %s %s\n", f, out)
	}
}

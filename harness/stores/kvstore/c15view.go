package kvstore

import (
	"context"

	"berty.tech/go-orbit-db/internal/vstub"
	"berty.tech/go-orbit-db/internal/vstubodb"
)

func init() {
	verifHarnesses["VerifC15View"] = VerifC15View
}

// VerifC15View: loading with a limit on a KEY-VALUE store with several heads.
// Two writers put T distinct keys each without seeing each other; one replicates
// the other's chain (local + remote cached heads), closes, reopens and loads with
// a limit n in 1..2T.  The log shows min(n, total) entries and the VIEW (All, Get)
// is the replay of exactly those: nothing of an entry outside the window shows.
func VerifC15View() {
	t := vstub.Param("T", 2)
	blocks := vstub.NewBlocks(nil)
	ac := vstubodb.WriteAll()
	a := vstubodb.Open(NewOrbitDBKeyValue, "a", blocks, ac, false, nil)
	b := vstubodb.Open(NewOrbitDBKeyValue, "b", blocks, ac, false, nil)
	if a == nil || b == nil {
		return
	}
	ctx := context.Background()
	for k := 0; k < t; k++ {
		if _, err := a.Store.(*orbitDBKeyValue).Put(ctx, "a"+string(rune('0'+k)), []byte{'A', byte('0' + k)}); err != nil {
			vstub.Fail("C15 Put failed")
			return
		}
		if _, err := b.Store.(*orbitDBKeyValue).Put(ctx, "b"+string(rune('0'+k)), []byte{'B', byte('0' + k)}); err != nil {
			vstub.Fail("C15 Put failed")
			return
		}
	}
	a.SyncFrom(b)
	total := a.Store.OpLog().Len()
	cache := a.Env.Cache.Clone()
	_ = a.Store.Close()
	vstub.WaitIdle()
	r := vstubodb.Open(NewOrbitDBKeyValue, "a", blocks, ac, false, cache)
	if r == nil {
		return
	}
	n := 1 + vstub.NdChoice("limit", total)
	if err := r.Store.Load(ctx, n); err != nil {
		vstub.Fail("C15 Load failed")
		return
	}
	vstub.WaitIdle()
	vstub.Cover("loaded-with-limit")
	want := n
	if total < want {
		want = total
	}
	vstub.Assert(r.Store.OpLog().Len() == want, "C15 a limited load shows min(n, total) entries (key-value store, two heads)")
	rkv := r.Store.(*orbitDBKeyValue)
	ref := kvReplay(r)
	kvSameMap(rkv.All(), ref, "C15 after a limited load the view is the replay of exactly the visible entries")
	for k := 0; k < t; k++ {
		for _, key := range []string{"a" + string(rune('0'+k)), "b" + string(rune('0'+k))} {
			got, _ := rkv.Get(ctx, key)
			vstub.Assert(string(got) == string(ref[key]), "C15 after a limited load Get shows only what the visible entries wrote")
		}
	}
}

package kvstore

import (
	"context"

	"berty.tech/go-orbit-db/internal/vstub"
	"berty.tech/go-orbit-db/internal/vstubodb"
	"berty.tech/go-orbit-db/stores"
	"berty.tech/go-orbit-db/stores/operation"
)

func init() {
	verifHarnesses["VerifC16WriteDuringMerge"] = VerifC16WriteDuringMerge
}

// VerifC16WriteDuringMerge: a remote writer's batch of N entries is being
// replicated into store a (real Sync -> replicator -> fetcher -> Join ->
// view rebuild) and, at ANY visible operation of any goroutine involved, a
// local Put starts on a and runs until it blocks.  Every emission on a's bus is
// observed synchronously in the emitting goroutine: on EventWrite a Get of the
// written key already returns the written value; on EventReplicated every
// announced key is already served; exactly one write event is emitted for the
// write; afterwards the view equals the replay of the log.
func VerifC16WriteDuringMerge() {
	n := vstub.Param("N", 2)
	blocks := vstub.NewBlocks(nil)
	ac := vstubodb.WriteAll()
	a := vstubodb.Open(NewOrbitDBKeyValue, "a", blocks, ac, false, nil)
	b := vstubodb.Open(NewOrbitDBKeyValue, "b", blocks, ac, false, nil)
	if a == nil || b == nil {
		return
	}
	ctx := context.Background()
	kva, kvb := a.Store.(*orbitDBKeyValue), b.Store.(*orbitDBKeyValue)
	remoteKeys := []string{"r0", "r1", "r2", "r3"}
	for i := 0; i < n && i < len(remoteKeys); i++ {
		if _, err := kvb.Put(ctx, remoteKeys[i], vstub.NdBytes("rval", 1)); err != nil {
			vstub.Fail("C16 remote Put failed")
			return
		}
	}
	writeEvents := 0
	hb := a.Env.Bus.(*vstub.HookBus)
	hb.OnEmit = func(evt interface{}) {
		switch e := evt.(type) {
		case stores.EventWrite:
			writeEvents++
			op, err := operation.ParseOperation(e.Entry)
			if err != nil || op.GetKey() == nil {
				vstub.Fail("C16 write event carries an unparsable entry")
				return
			}
			got, gerr := kva.Get(ctx, *op.GetKey())
			vstub.Assert(gerr == nil && got != nil && string(got) == string(op.GetValue()), "C16 on EventWrite a query already returns the written value")
			vstub.Cover("write-event")
		case stores.EventReplicated:
			for _, x := range e.Entries {
				op, err := operation.ParseOperation(x)
				if err != nil || op.GetKey() == nil {
					continue
				}
				got, gerr := kva.Get(ctx, *op.GetKey())
				vstub.Assert(gerr == nil && got != nil && string(got) == string(op.GetValue()), "C16 on EventReplicated queries already reflect every announced entry")
			}
			vstub.Cover("replicated-event")
		}
	}
	val := vstub.NdBytes("lval", 1)
	wrote := false
	done := make(chan struct{})
	put := func() {
		defer close(done)
		if _, err := kva.Put(ctx, "local", val); err != nil {
			vstub.Fail("C16 local Put failed")
		}
	}
	vstub.FaultAtAnyStep(func() { wrote = true; go put() })
	a.SyncFrom(b)
	vstub.FaultDisarm()
	if !wrote {
		wrote = true
		put()
	} else {
		<-done
		vstub.Cover("write-during-merge")
	}
	vstub.WaitIdle()
	hb.OnEmit = nil
	vstub.Assert(writeEvents == 1, "C16 exactly one write event per successful local write")
	kvSameMap(kva.All(), kvReplay(a), "C16/C06 the view equals the replay of the log once everything is quiet")
	vstub.Assert(len(kva.All()) == n+1 || n > len(remoteKeys), "C16 every written key is served")
}

func init() {
	verifHarnesses["VerifC06ReadDuringWrite"] = VerifC06ReadDuringWrite
}

// VerifC06ReadDuringWrite: a reader (All, then Get of the key being written)
// runs at ANY visible operation of a local Put / Delete or of the merge of a
// remote batch.  Once the write has returned and everything is quiet, Get and
// All equal the replay of the log (nothing read in the window between the log
// append and the view update stays behind).
func VerifC06ReadDuringWrite() {
	blocks := vstub.NewBlocks(nil)
	ac := vstubodb.WriteAll()
	a := vstubodb.Open(NewOrbitDBKeyValue, "a", blocks, ac, false, nil)
	b := vstubodb.Open(NewOrbitDBKeyValue, "b", blocks, ac, false, nil)
	if a == nil || b == nil {
		return
	}
	ctx := context.Background()
	kva, kvb := a.Store.(*orbitDBKeyValue), b.Store.(*orbitDBKeyValue)
	if _, err := kva.Put(ctx, "k1", vstub.NdBytes("v0", 1)); err != nil {
		vstub.Fail("C06 Put failed")
		return
	}
	_ = kva.All()
	done := make(chan struct{})
	reader := func() {
		defer close(done)
		_ = kva.All()
		_, _ = kva.Get(ctx, "k1")
	}
	fired := false
	vstub.FaultAtAnyStep(func() { fired = true; go reader() })
	switch vstub.NdChoice("write", 3) {
	case 0:
		if _, err := kva.Put(ctx, "k1", vstub.NdBytes("v1", 1)); err != nil {
			vstub.Fail("C06 Put failed")
		}
		vstub.Cover("put")
	case 1:
		if _, err := kva.Delete(ctx, "k1"); err != nil {
			vstub.Fail("C06 Delete failed")
		}
		vstub.Cover("delete")
	case 2:
		if _, err := kvb.Put(ctx, "k2", vstub.NdBytes("v2", 1)); err != nil {
			vstub.Fail("C06 remote Put failed")
		}
		a.SyncFrom(b)
		vstub.Cover("merge")
	}
	vstub.FaultDisarm()
	if fired {
		<-done
		vstub.Cover("read-during-write")
	}
	vstub.WaitIdle()
	for round := 0; round < 2; round++ {
		kvSameMap(kva.All(), kvReplay(a), "C06 after a write with a concurrent reader the view equals the replay of the log")
	}
	want := kvReplay(a)
	got, err := kva.Get(ctx, "k1")
	w, present := want["k1"]
	vstub.Assert(err == nil && (got != nil) == present && (!present || string(got) == string(w)), "C06 after a write with a concurrent reader Get returns the replayed value")
}

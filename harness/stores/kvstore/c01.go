package kvstore

import (
	"context"

	"berty.tech/go-orbit-db/iface"
	"berty.tech/go-orbit-db/internal/vstub"
	"berty.tech/go-orbit-db/internal/vstubodb"
	"berty.tech/go-orbit-db/stores/basestore"
	"berty.tech/go-orbit-db/stores/operation"
)

func init() {
	verifHarnesses["VerifC01KV"] = VerifC01KV
}

// kvReplay replays the replica's own log (its total order) last-writer-wins.
func kvReplay(r *vstubodb.Replica) map[string][]byte {
	ref := map[string][]byte{}
	for _, e := range r.Store.OpLog().Values().Slice() {
		op, err := operation.ParseOperation(e)
		if err != nil || op.GetKey() == nil {
			continue
		}
		if op.GetOperation() == "PUT" {
			ref[*op.GetKey()] = op.GetValue()
		} else if op.GetOperation() == "DEL" {
			delete(ref, *op.GetKey())
		}
	}
	return ref
}

func kvSameMap(a, b map[string][]byte, label string) {
	vstub.Assert(len(a) == len(b), label+" (same key count)")
	for k, v := range a {
		w, ok := b[k]
		vstub.Assert(ok, label+" (same keys)")
		vstub.Assert(string(v) == string(w), label+" (same values)")
	}
}

// VerifC01KV: two writers produce a history of puts/deletes with symbolic keys
// and values, interleaved with real head exchanges (Sync -> replicator ->
// fetcher -> Join) in any order; afterwards both writers and a fresh replica
// that receives everything in one batch hold the same ordered log and the
// same key/value map, which equals the replay of that log.
func VerifC01KV() {
	steps := vstub.Param("STEPS", 3)
	blocks := vstub.NewBlocks(nil)
	ac := vstubodb.WriteAll()
	a := vstubodb.Open(NewOrbitDBKeyValue, "a", blocks, ac, false, nil)
	b := vstubodb.Open(NewOrbitDBKeyValue, "b", blocks, ac, false, nil)
	if a == nil || b == nil {
		return
	}
	ctx := context.Background()
	write := func(r *vstubodb.Replica) {
		kv := r.Store.(*orbitDBKeyValue)
		key := vstub.NdString("key", 1)
		if vstub.NdChoice("del", 2) == 1 {
			if _, err := kv.Delete(ctx, key); err != nil {
				vstub.Fail("C01 Delete failed")
			}
		} else {
			if _, err := kv.Put(ctx, key, vstub.NdBytes("val", 1)); err != nil {
				vstub.Fail("C01 Put failed")
			}
		}
	}
	for s := 0; s < steps; s++ {
		switch vstub.NdChoice("step", 4) {
		case 0:
			write(a)
		case 1:
			write(b)
		case 2:
			a.SyncFrom(b)
		case 3:
			b.SyncFrom(a)
		}
		// C06 clause: at every moment each replica's view equals the replay of the log it holds
		kvSameMap(a.Store.(*orbitDBKeyValue).All(), kvReplay(a), "C06 view of writer a equals replay of its log")
		kvSameMap(b.Store.(*orbitDBKeyValue).All(), kvReplay(b), "C06 view of writer b equals replay of its log")
	}
	// everybody ends up with the same set of entries, by different routes
	// a and b merge; a third replica receives the same entries by another route:
	// manual sync in one batch, load from a's disk, a snapshot saved by a, or the
	// two branches in separate batches followed by a restart from its own disk
	r, restartBefore, restartAfter := vstubodb.Converge(NewOrbitDBKeyValue, a, b, func(ctx context.Context, st iface.Store) error {
		_, err := basestore.SaveSnapshot(ctx, st)
		return err
	})
	if r == nil {
		return
	}
	vstub.Cover("converged")
	vstub.Assert(vstubodb.SameStrings(restartBefore, restartAfter), "C01 a replica restarted from its own disk holds the log it held before")
	vstub.Assert(vstubodb.SameStrings(a.Hashes(), b.Hashes()), "C01 writers a and b list the same entries in the same order")
	vstub.Assert(vstubodb.SameStrings(a.Hashes(), r.Hashes()), "C01 fresh replica lists the same entries in the same order")
	ref := kvReplay(r)
	kvSameMap(a.Store.(*orbitDBKeyValue).All(), ref, "C01 writer a shows the replayed map")
	kvSameMap(b.Store.(*orbitDBKeyValue).All(), ref, "C01 writer b shows the replayed map")
	kvSameMap(r.Store.(*orbitDBKeyValue).All(), ref, "C01 fresh replica shows the replayed map")
}

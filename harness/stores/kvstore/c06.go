package kvstore

import (
	"context"

	ipfslog "berty.tech/go-ipfs-log"
	"berty.tech/go-orbit-db/internal/vstub"
	"berty.tech/go-orbit-db/internal/vstubodb"
	"berty.tech/go-orbit-db/stores/operation"
)

var verifHarnesses = map[string]func(){
	"VerifC06Replay": VerifC06Replay,
}

// VerifC06Replay: for every listing of put/delete operations (symbolic keys and
// values, any collision pattern) and every earlier index state obtained from a
// sub-listing, All() and Get() equal the last-writer-wins replay of the listing.
func VerifC06Replay() {
	n := vstub.Param("N", 3)
	env := vstubodb.NewEnv("a", 1, "kv", nil, nil)
	st, err := NewOrbitDBKeyValue(env.IPFS, env.Identity, env.Addr, env.Options(false))
	if err != nil {
		vstub.Fail("C06 store init failed")
		return
	}
	o := st.(*orbitDBKeyValue)

	type opx struct {
		del bool
		key string
		val []byte
	}
	var ops []opx
	var entries, prev []ipfslog.Entry
	for k := 0; k < n; k++ {
		x := opx{key: vstub.NdString("key", 1)}
		x.del = vstub.NdChoice("del", 2) == 1
		if !x.del {
			switch vstub.NdChoice("vshape", 3) {
			case 0:
				x.val = nil
			case 1:
				x.val = []byte{}
			case 2:
				x.val = vstub.NdBytes("val", 1)
			}
		}
		name := "PUT"
		if x.del {
			name = "DEL"
		}
		key := x.key
		data, merr := operation.NewOperation(&key, name, x.val).Marshal()
		if merr != nil {
			vstub.Fail("C06 marshal failed")
			return
		}
		e := vstub.MkEntry(k, data)
		ops = append(ops, x)
		entries = append(entries, e)
		if vstub.NdChoice("inPrev", 2) == 1 {
			prev = append(prev, e)
		}
	}
	// an earlier state of the same replica: it had merged only a sub-listing
	if err := o.Index().UpdateIndex(&vstub.ListLog{Entries: prev, ID: "kv"}, nil); err != nil {
		vstub.Fail("C06 UpdateIndex(prev) failed")
		return
	}
	if err := o.Index().UpdateIndex(&vstub.ListLog{Entries: entries, ID: "kv"}, nil); err != nil {
		vstub.Fail("C06 UpdateIndex failed")
		return
	}

	// reference: replay oldest -> newest, last writer wins
	ref := map[string][]byte{}
	for _, x := range ops {
		if x.del {
			delete(ref, x.key)
		} else {
			ref[x.key] = x.val
		}
	}
	vstub.Cover("replayed")

	all := o.All()
	vstub.Assert(len(all) == len(ref), "C06 All() has exactly the keys of the replay")
	for k, v := range ref {
		got, ok := all[k]
		vstub.Assert(ok, "C06 All() contains every live key")
		vstub.Assert(string(got) == string(v), "C06 All() value is the last written one")
	}
	probe := vstub.NdString("probe", 1)
	got, gerr := o.Get(context.Background(), probe)
	vstub.Assert(gerr == nil, "C06 Get returns no error")
	vstub.Assert(string(got) == string(ref[probe]), "C06 Get equals the replay's lookup")

	// the map All() handed out belongs to the caller: filtering it or adding to it
	// must not change what the store shows afterwards
	for k := range all {
		delete(all, k)
	}
	all["\x00caller"] = []byte("caller")
	vstub.Cover("caller-edited-the-map")
	again := o.All()
	vstub.Assert(len(again) == len(ref), "C06 All() still has exactly the keys of the replay after the caller edited an earlier result")
	for k, v := range ref {
		g, ok := again[k]
		vstub.Assert(ok && string(g) == string(v), "C06 All() is unaffected by a caller editing an earlier result")
	}
	got2, _ := o.Get(context.Background(), probe)
	vstub.Assert(string(got2) == string(ref[probe]), "C06 Get is unaffected by a caller editing the map All() returned")
}

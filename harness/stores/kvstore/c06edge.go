package kvstore

import (
	"context"

	"berty.tech/go-orbit-db/internal/vstub"
	"berty.tech/go-orbit-db/internal/vstubodb"
)

func init() {
	verifHarnesses["VerifC06EdgeKeys"] = VerifC06EdgeKeys
}

// VerifC06EdgeKeys: edge keys and values through the PUBLIC API.  N operations
// on one store, each a Put (value non-empty, empty or nil) or a Delete of a key
// from {"", "a", "a/b", "/"}; after every operation Get of every key of the
// alphabet, Get of a key never written and All equal the last-writer-wins replay
// of the operations the log holds (decoded from the log itself).
func VerifC06EdgeKeys() {
	n := vstub.Param("N", 2)
	blocks := vstub.NewBlocks(nil)
	a := vstubodb.Open(NewOrbitDBKeyValue, "a", blocks, vstubodb.WriteAll(), false, nil)
	if a == nil {
		return
	}
	kv := a.Store.(*orbitDBKeyValue)
	ctx := context.Background()
	keys := []string{"", "a", "a/b", "/"}
	for s := 0; s < n; s++ {
		k := keys[vstub.NdChoice("key", len(keys))]
		var err error
		switch vstub.NdChoice("op", 4) {
		case 0:
			_, err = kv.Put(ctx, k, []byte{'v', byte('0' + s)})
		case 1:
			_, err = kv.Put(ctx, k, []byte{})
		case 2:
			_, err = kv.Put(ctx, k, nil)
		case 3:
			_, err = kv.Delete(ctx, k)
		}
		if err != nil {
			vstub.Fail("C06 an operation on an edge key failed")
			return
		}
		ref := kvReplay(a)
		kvSameMap(kv.All(), ref, "C06 All equals the replay of the held operations (edge keys)")
		for _, q := range append(append([]string{}, keys...), "never-written") {
			got, gerr := kv.Get(ctx, q)
			vstub.Assert(gerr == nil, "C06 Get returns no error (edge keys)")
			want, held := ref[q]
			if held {
				vstub.Assert(string(got) == string(want), "C06 Get equals the replay's lookup (edge keys)")
			} else {
				vstub.Assert(len(got) == 0, "C06 Get of a key the replay does not hold returns nothing (edge keys)")
			}
		}
	}
	vstub.Cover("edge-keys")
	// VALUE OWNERSHIP: the caller reuses the buffer it passed to Put; the store keeps
	// showing what was written (what the log holds), also after later index updates
	buf := []byte("orig")
	if _, err := kv.Put(ctx, "own", buf); err != nil {
		vstub.Fail("C06 Put failed")
		return
	}
	buf[0], buf[1] = 'X', 'Y'
	if _, err := kv.Put(ctx, "z", []byte("later")); err != nil {
		vstub.Fail("C06 Put failed")
		return
	}
	if _, err := kv.Delete(ctx, "absent"); err != nil {
		vstub.Fail("C06 Delete failed")
		return
	}
	got, _ := kv.Get(ctx, "own")
	vstub.Assert(string(got) == "orig", "C06 Get shows the value that was written, not the caller's reused buffer")
	kvSameMap(kv.All(), kvReplay(a), "C06 All equals the replay after the caller reused its buffer")
	vstub.Cover("caller-reused-its-buffer")
}

package kvstore

import (
	"context"
	"sync"

	ipfslog "berty.tech/go-ipfs-log"
	"berty.tech/go-orbit-db/internal/vstub"
	"berty.tech/go-orbit-db/internal/vstubodb"
)

func init() {
	verifHarnesses["VerifC06SeenThenPut"] = VerifC06SeenThenPut
}

// VerifC06SeenThenPut: the happens-before clause on every MERGE ROUTE, also when
// routes overlap.  Replica a (restarted from its own disk, where it had put key k)
// loads while the head of replica b - which put the same key later - is being
// replicated into it: every schedule of Load and Sync with at most P preemptions.
// Whenever a then SHOWS b's value (it has seen that update) and puts k again,
// its new update follows b's in the total order: a's view shows it, and so does
// b's once it has merged a's heads; at every moment a's Get equals the replay of
// the log it holds.
func VerifC06SeenThenPut() {
	p := vstub.Param("P", 1)
	blocks := vstub.NewBlocks(nil)
	ac := vstubodb.WriteAll()
	a := vstubodb.Open(NewOrbitDBKeyValue, "a", blocks, ac, false, nil)
	b := vstubodb.Open(NewOrbitDBKeyValue, "b", blocks, ac, false, nil)
	if a == nil || b == nil {
		return
	}
	ctx := context.Background()
	// a's own earlier put is on the same key or on another one
	firstKey := "k"
	if vstub.NdChoice("a-first-on-another-key", 2) == 1 {
		firstKey = "j"
	}
	if _, err := a.Store.(*orbitDBKeyValue).Put(ctx, firstKey, []byte("a-first")); err != nil {
		vstub.Fail("C06 Put failed")
		return
	}
	b.SyncFrom(a)
	nb := vstub.Param("B", 2)
	for j := 0; j < nb; j++ {
		if _, err := b.Store.(*orbitDBKeyValue).Put(ctx, "k", []byte{'b', byte('0' + j)}); err != nil {
			vstub.Fail("C06 Put failed")
			return
		}
	}
	bLast := []byte{'b', byte('0' + nb - 1)}
	cache := a.Env.Cache.Clone()
	_ = a.Store.Close()
	vstub.WaitIdle()
	r := vstubodb.Open(NewOrbitDBKeyValue, "a", blocks, ac, false, cache)
	if r == nil {
		return
	}
	var heads []ipfslog.Entry
	for _, h := range b.Heads() {
		heads = append(heads, h.Copy())
	}
	var wg sync.WaitGroup
	var lerr error
	vstub.ExploreSchedules(p)
	wg.Add(2)
	go func() {
		defer wg.Done()
		lerr = r.Store.Load(ctx, -1)
	}()
	go func() {
		defer wg.Done()
		_ = r.Store.Sync(ctx, heads)
	}()
	wg.Wait()
	vstub.WaitIdle()
	vstub.ExploreSchedules(0)
	if lerr != nil {
		vstub.Fail("C06 Load failed")
		return
	}
	vstub.Cover("merged-while-loading")
	rkv := r.Store.(*orbitDBKeyValue)
	kvSameMap(rkv.All(), kvReplay(r), "C06 the view equals the replay of the held log after a load overlapped a replication")
	seen, _ := rkv.Get(ctx, "k")
	if string(seen) != string(bLast) {
		// the replica does not show b's update (yet): nothing to override
		return
	}
	vstub.Cover("seen")
	if _, err := rkv.Put(ctx, "k", []byte("a-after")); err != nil {
		vstub.Fail("C06 Put failed")
		return
	}
	got, _ := rkv.Get(ctx, "k")
	vstub.Assert(string(got) == "a-after", "C06 an update issued after having seen another one overrides it locally")
	kvSameMap(rkv.All(), kvReplay(r), "C06 the view equals the replay of the held log after the later put")
	b.SyncFrom(r)
	gb, _ := b.Store.(*orbitDBKeyValue).Get(ctx, "k")
	vstub.Assert(string(gb) == "a-after", "C06 an update issued after having seen another update to the same key overrides it on every replica")
}

package kvstore

import (
	"context"

	ipfslog "berty.tech/go-ipfs-log"
	"berty.tech/go-ipfs-log/entry"
	idp "berty.tech/go-ipfs-log/identityprovider"
	"berty.tech/go-orbit-db/internal/vstub"
	"berty.tech/go-orbit-db/internal/vstubodb"
	"berty.tech/go-orbit-db/stores/operation"
	cid "github.com/ipfs/go-cid"
)

func init() {
	verifHarnesses["VerifC06ClockOrder"] = VerifC06ClockOrder
}

type entryAuthor struct{ identity *idp.Identity }

// VerifC06ClockOrder: the total order behind the key-value view is the Lamport
// (time, writer) order for EVERY clock value, not only the small ones a bounded
// history reaches.  Two writers put the same key in entries whose Lamport times
// are ANY values in [1, 2^40] (symbolic); a third entry by the first writer
// follows the later of the two causally (next link, time + 1).  A replica that
// merges them lists them by (time, writer id) with the causal successor last,
// and Get returns the value of the last one - an update issued after seeing
// another update overrides it, however long the history before it was.
func VerifC06ClockOrder() {
	blocks := vstub.NewBlocks(nil)
	ac := vstubodb.WriteAll()
	r := vstubodb.Open(NewOrbitDBKeyValue, "r", blocks, ac, false, nil)
	if r == nil {
		return
	}
	prov := vstub.NewProvider()
	w1, w2 := vstub.NewIdentity("w1", prov), vstub.NewIdentity("w2", prov)
	ctx := context.Background()
	logID := r.Store.OpLog().GetID()
	t1, t2 := vstub.NdInt("t1"), vstub.NdInt("t2")
	vstub.Assume(t1 >= 1 && t1 <= 1<<40)
	vstub.Assume(t2 >= 1 && t2 <= 1<<40)
	key := "k"
	mk := func(id *entryAuthor, t int, val byte, next []cid.Cid) ipfslog.Entry {
		data, _ := operation.NewOperation(&key, "PUT", []byte{val}).Marshal()
		e, err := entry.CreateEntryWithIO(ctx, r.Env.IPFS, id.identity, &entry.Entry{
			LogID: logID, Payload: data, Next: next, Refs: []cid.Cid{},
			Clock: entry.NewLamportClock(id.identity.PublicKey, t),
		}, nil, r.Env.IO)
		if err != nil {
			vstub.Fail("C06 CreateEntryWithIO failed")
			return nil
		}
		return e
	}
	a1, a2 := &entryAuthor{w1}, &entryAuthor{w2}
	e1 := mk(a1, t1, 1, nil)
	e2 := mk(a2, t2, 2, nil)
	if e1 == nil || e2 == nil {
		return
	}
	// which of the two is later in the (time, writer) order; "pk-w1" < "pk-w2"
	firstIsLater := t1 > t2
	later, laterT := e2, t2
	if firstIsLater {
		later, laterT = e1, t1
	}
	// w1 saw the later one and overrides it
	e3 := mk(a1, laterT+1, 3, []cid.Cid{later.GetHash()})
	if e3 == nil {
		return
	}
	if err := r.Store.Sync(ctx, []ipfslog.Entry{e1.Copy(), e2.Copy()}); err != nil {
		vstub.Fail("C06 Sync failed")
		return
	}
	vstub.WaitIdle()
	kv := r.Store.(*orbitDBKeyValue)
	got, err := kv.Get(ctx, key)
	want := byte(2)
	if firstIsLater {
		want = 1
	}
	vstub.Cover("two-writers")
	vstub.Assert(err == nil && len(got) == 1 && got[0] == want, "C06 of two concurrent updates the later one in the Lamport (time, writer) order wins, for every clock value")
	vals := r.Store.OpLog().Values().Slice()
	vstub.Assert(len(vals) == 2, "C06 both entries are merged")
	if len(vals) == 2 {
		vstub.Assert(vals[1].GetHash().Equals(later.GetHash()), "C01/C06 the log's total order is the Lamport (time, writer) order")
	}
	if err := r.Store.Sync(ctx, []ipfslog.Entry{e3.Copy()}); err != nil {
		vstub.Fail("C06 Sync failed")
		return
	}
	vstub.WaitIdle()
	got, err = kv.Get(ctx, key)
	vstub.Cover("causal-successor")
	vstub.Assert(err == nil && len(got) == 1 && got[0] == 3, "C06 an update issued after seeing another update to the key overrides it, for every clock value")
	vals = r.Store.OpLog().Values().Slice()
	if len(vals) == 3 {
		vstub.Assert(vals[2].GetHash().Equals(e3.GetHash()), "C06 the total order extends happens-before")
	}
}

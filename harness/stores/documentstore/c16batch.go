package documentstore

import (
	"context"

	"berty.tech/go-orbit-db/internal/vstub"
	"berty.tech/go-orbit-db/internal/vstubodb"
	"berty.tech/go-orbit-db/stores"
)

func init() {
	verifHarnesses["VerifC16BatchFailure"] = VerifC16BatchFailure
}

// VerifC16BatchFailure: write events of BATCH paths when a member fails.  A
// document store receives PutBatch (or PutAll) of three documents while the
// block write of the k-th entry written from now fails once (storage error);
// then the same call is repeated without fault, then a Delete.  At every point,
// every entry the log holds was carried by exactly one write event, emitted
// after the view showed it, and a call that reported an error emitted no event
// for an entry that is not in the log.
func VerifC16BatchFailure() {
	blocks := vstub.NewBlocks(nil)
	ac := vstubodb.WriteAll()
	a := vstubodb.Open(NewOrbitDBDocumentStore, "a", blocks, ac, false, nil)
	if a == nil {
		return
	}
	hb, ok := a.Env.Bus.(*vstub.HookBus)
	if !ok {
		vstub.Fail("C16 harness: no hook bus")
		return
	}
	ds := a.Store.(*orbitDBDocumentStore)
	ctx := context.Background()
	var announced []string
	hb.OnEmit = func(evt interface{}) {
		if e, ok := evt.(stores.EventWrite); ok && e.Entry != nil {
			h := e.Entry.GetHash().String()
			announced = append(announced, h)
			_, held := a.Store.OpLog().Get(e.Entry.GetHash())
			vstub.Assert(held, "C16 a write event carries an entry the log holds")
		}
	}
	doc := func(k string, v byte) map[string]interface{} {
		return map[string]interface{}{"_id": k, "v": string([]byte{v})}
	}
	check := func(when string) {
		for _, e := range a.Store.OpLog().Values().Slice() {
			n := 0
			for _, h := range announced {
				if h == e.GetHash().String() {
					n++
				}
			}
			vstub.Assert(n == 1, "C16 every locally written entry was carried by exactly one write event ("+when+")")
		}
		vstub.Assert(len(announced) == a.Store.OpLog().Len(), "C16 no write event without a written entry ("+when+")")
	}
	batch := []interface{}{doc("a", '1'), doc("b", '2'), doc("c", '3')}
	usePutAll := vstub.NdChoice("put-all", 2) == 1
	call := func() error {
		if usePutAll {
			_, err := ds.PutAll(ctx, batch)
			return err
		}
		_, err := ds.PutBatch(ctx, batch)
		return err
	}
	k := vstub.NdChoice("failing-write", 4) // 0 = none
	if k > 0 {
		blocks.FailWriteAt = blocks.EntryWrites + k
	}
	err := call()
	blocks.FailWriteAt = 0
	if err != nil {
		vstub.Cover("batch-failed")
	} else {
		vstub.Cover("batch-succeeded")
	}
	check("after the first batch call")
	if err := call(); err != nil {
		vstub.Fail("C16 the retried batch failed")
		return
	}
	check("after the retried batch")
	if _, err := ds.Delete(ctx, "a"); err != nil {
		vstub.Fail("C16 Delete failed")
		return
	}
	check("after a delete")
	vstub.Cover("checked")
}

package documentstore

import (
	"context"
	"sync"

	"berty.tech/go-orbit-db/internal/vstub"
	"berty.tech/go-orbit-db/internal/vstubodb"
	"berty.tech/go-orbit-db/stores"
)

func init() {
	verifHarnesses["VerifC16ReadRace"] = VerifC16ReadRace
}

// VerifC16ReadRace: a READER thread (Get and Query of document k1) overlaps a
// writer that overwrites or deletes k1, every schedule of the two threads with at
// most P preemptions - so the reader may be suspended in the middle of its read
// and finish after the write completed.  When the write event is received and
// once both have finished, queries reflect the announced entry: Get and Query
// return the new revision (or nothing after a delete), never the one the
// suspended reader had picked up (C16; C07: the documents equal the replay).
func VerifC16ReadRace() {
	p := vstub.Param("P", 1)
	blocks := vstub.NewBlocks(nil)
	a := vstubodb.Open(NewOrbitDBDocumentStore, "a", blocks, vstubodb.WriteAll(), false, nil)
	if a == nil {
		return
	}
	ctx := context.Background()
	ds := a.Store.(*orbitDBDocumentStore)
	doc := func(k string, v byte) map[string]interface{} {
		return map[string]interface{}{"_id": k, "v": string([]byte{v})}
	}
	all := func(interface{}) (bool, error) { return true, nil }
	v0, v1 := vstub.NdASCII("v0"), vstub.NdASCII("v1")
	vstub.Assume(v0 != v1)
	if _, err := ds.Put(ctx, doc("k1", v0)); err != nil {
		vstub.Fail("C16 Put failed")
		return
	}
	if vstub.NdChoice("warm", 2) == 1 {
		_, _ = ds.Get(ctx, "k1", nil)
	}
	del := vstub.NdChoice("write", 2) == 1
	// what a query must show once the write is announced
	check := func(when string) {
		got, err := ds.Get(ctx, "k1", nil)
		q, qerr := ds.Query(ctx, all)
		vstub.Assert(err == nil && qerr == nil, "C16 queries return no error "+when)
		if del {
			vstub.Assert(len(got) == 0 && len(q) == 0, "C16 a deleted document is gone from Get and Query "+when)
			return
		}
		vstub.Assert(len(got) == 1 && len(q) == 1, "C16 Get and Query return the overwritten document once "+when)
		if len(got) == 1 {
			m, _ := got[0].(map[string]interface{})
			s, _ := m["v"].(string)
			vstub.Assert(s == string([]byte{v1}), "C16 Get returns the NEW revision of the document "+when)
		}
		if len(q) == 1 {
			m, _ := q[0].(map[string]interface{})
			s, _ := m["v"].(string)
			vstub.Assert(s == string([]byte{v1}), "C16 Query returns the NEW revision of the document "+when)
		}
	}
	events := 0
	if hb, ok := a.Env.Bus.(*vstub.HookBus); ok {
		hb.OnEmit = func(evt interface{}) {
			if _, isW := evt.(stores.EventWrite); isW {
				events++
				vstub.ExploreSchedules(0)
				check("when the write event is received")
				vstub.ExploreSchedules(p)
			}
		}
		defer func() { hb.OnEmit = nil }()
	}
	vstub.ExploreSchedules(p)
	var wg sync.WaitGroup
	wg.Add(2)
	go func() {
		defer wg.Done()
		_, _ = ds.Get(ctx, "k1", nil)
		_, _ = ds.Query(ctx, all)
	}()
	go func() {
		defer wg.Done()
		var err error
		if del {
			_, err = ds.Delete(ctx, "k1")
		} else {
			_, err = ds.Put(ctx, doc("k1", v1))
		}
		if err != nil {
			vstub.Fail("C16 the write failed")
		}
	}()
	wg.Wait()
	vstub.ExploreSchedules(0)
	vstub.Cover("raced")
	check("once the reader and the writer have finished")
}

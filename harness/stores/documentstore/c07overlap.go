package documentstore

import (
	"context"
	"sync"

	ipfslog "berty.tech/go-ipfs-log"
	"berty.tech/go-orbit-db/internal/vstub"
	"berty.tech/go-orbit-db/internal/vstubodb"
)

func init() {
	verifHarnesses["VerifC07Overlap"] = VerifC07Overlap
}

// VerifC07Overlap: two index updates at the same time.  A replica restarted from
// its own disk (where it had put document k) loads while the head of another
// replica - which put or deleted the same document later - is replicated into
// it, or writes locally while that head is merged: every schedule of the two
// with at most P preemptions.  At quiescence its documents equal the replay of
// the log it holds (the view is never left behind the log).
func VerifC07Overlap() {
	p := vstub.Param("P", 1)
	blocks := vstub.NewBlocks(nil)
	ac := vstubodb.WriteAll()
	a := vstubodb.Open(NewOrbitDBDocumentStore, "a", blocks, ac, false, nil)
	b := vstubodb.Open(NewOrbitDBDocumentStore, "b", blocks, ac, false, nil)
	if a == nil || b == nil {
		return
	}
	ctx := context.Background()
	doc := func(k string, v byte) map[string]interface{} {
		return map[string]interface{}{"_id": k, "v": string([]byte{v})}
	}
	if _, err := a.Store.(*orbitDBDocumentStore).Put(ctx, doc("k", 'a')); err != nil {
		vstub.Fail("C07 Put failed")
		return
	}
	b.SyncFrom(a)
	bs := b.Store.(*orbitDBDocumentStore)
	if vstub.NdChoice("b-deletes", 2) == 1 {
		if _, err := bs.Delete(ctx, "k"); err != nil {
			vstub.Fail("C07 Delete failed")
			return
		}
	} else {
		if _, err := bs.Put(ctx, doc("k", 'b')); err != nil {
			vstub.Fail("C07 Put failed")
			return
		}
	}
	var heads []ipfslog.Entry
	for _, h := range b.Heads() {
		heads = append(heads, h.Copy())
	}
	r := a
	other := func() {}
	if vstub.NdChoice("second-update", 2) == 0 {
		// restart + Load
		cache := a.Env.Cache.Clone()
		_ = a.Store.Close()
		vstub.WaitIdle()
		r = vstubodb.Open(NewOrbitDBDocumentStore, "a", blocks, ac, false, cache)
		if r == nil {
			return
		}
		other = func() {
			if err := r.Store.Load(ctx, -1); err != nil {
				vstub.Fail("C07 Load failed")
			}
		}
		vstub.Cover("load-overlaps-merge")
	} else {
		other = func() {
			if _, err := r.Store.(*orbitDBDocumentStore).Put(ctx, doc("j", 'x')); err != nil {
				vstub.Fail("C07 Put failed")
			}
		}
		vstub.Cover("write-overlaps-merge")
	}
	var wg sync.WaitGroup
	vstub.ExploreSchedules(p)
	wg.Add(2)
	go func() {
		defer wg.Done()
		other()
	}()
	go func() {
		defer wg.Done()
		_ = r.Store.Sync(ctx, heads)
	}()
	wg.Wait()
	vstub.WaitIdle()
	vstub.ExploreSchedules(0)
	docs, err := r.Store.(*orbitDBDocumentStore).Query(ctx, func(interface{}) (bool, error) { return true, nil })
	if err != nil {
		vstub.Fail("C07 Query failed")
		return
	}
	c07Check(docs, docReplay(r), func(string) bool { return true }, "after two overlapping index updates the view == replay of the held log:")
	vstub.Cover("overlapped")
}

package documentstore

import (
	"context"
	"sync"

	"berty.tech/go-orbit-db/internal/vstub"
	"berty.tech/go-orbit-db/internal/vstubodb"
	"berty.tech/go-orbit-db/stores/operation"
)

func init() {
	verifHarnesses["VerifC17DocsConcurrent"] = VerifC17DocsConcurrent
}

// VerifC17DocsConcurrent: concurrent callers of the document store's PUBLIC API:
// two goroutines call PutAll (two documents each, the batches share one key), or
// one calls PutAll while the other calls Put / Delete - every schedule with at
// most P preemptions.  Every call that returned success appended exactly one
// entry, distinct from the others, carrying exactly ITS OWN documents; all of
// them are in the log and the documents shown equal the replay of the log.
func VerifC17DocsConcurrent() {
	p := vstub.Param("P", 1)
	blocks := vstub.NewBlocks(nil)
	a := vstubodb.Open(NewOrbitDBDocumentStore, "a", blocks, vstubodb.WriteAll(), false, nil)
	if a == nil {
		return
	}
	ds := a.Store.(*orbitDBDocumentStore)
	ctx := context.Background()
	doc := func(k string, v byte) map[string]interface{} {
		return map[string]interface{}{"_id": k, "v": string([]byte{v})}
	}
	if _, err := ds.Put(ctx, doc("x", '0')); err != nil {
		vstub.Fail("C17 Put failed")
		return
	}
	second := vstub.NdChoice("second-caller", 3) // 0 PutAll, 1 Put, 2 Delete
	var ops [2]operation.Operation
	var errs [2]error
	var wg sync.WaitGroup
	vstub.ExploreSchedules(p)
	wg.Add(2)
	go func() {
		defer wg.Done()
		ops[0], errs[0] = ds.PutAll(ctx, []interface{}{doc("a1", 'A'), doc("x", 'A')})
	}()
	go func() {
		defer wg.Done()
		switch second {
		case 0:
			ops[1], errs[1] = ds.PutAll(ctx, []interface{}{doc("b1", 'B'), doc("x", 'B')})
		case 1:
			ops[1], errs[1] = ds.Put(ctx, doc("x", 'B'))
		case 2:
			ops[1], errs[1] = ds.Delete(ctx, "x")
		}
	}()
	wg.Wait()
	vstub.ExploreSchedules(0)
	vstub.Cover("concurrent-calls")
	if errs[0] != nil || errs[1] != nil || ops[0] == nil || ops[1] == nil {
		vstub.Fail("C17 a concurrent document-store call failed")
		return
	}
	vstub.Assert(!ops[0].GetEntry().GetHash().Equals(ops[1].GetEntry().GetHash()), "C17 each successful call appended a distinct entry (document store)")
	vstub.Assert(a.Store.OpLog().Len() == 3, "C17 exactly one entry per call (document store)")
	// the first caller's entry carries exactly its own batch
	m0 := &c07State{}
	for _, d := range ops[0].GetDocs() {
		m0.putRaw(d.GetKey(), d.GetValue())
	}
	va, oka := m0.get("a1")
	vx, okx := m0.get("x")
	vstub.Assert(len(m0.keys) == 2 && oka && okx && va == 'A' && vx == 'A', "C17 a batch put's entry carries exactly the documents of ITS call")
	if second == 0 {
		m1 := &c07State{}
		for _, d := range ops[1].GetDocs() {
			m1.putRaw(d.GetKey(), d.GetValue())
		}
		vb, okb := m1.get("b1")
		vx1, okx1 := m1.get("x")
		vstub.Assert(len(m1.keys) == 2 && okb && okx1 && vb == 'B' && vx1 == 'B', "C17 the other batch put's entry carries exactly the documents of ITS call")
	}
	for k := 0; k < 2; k++ {
		_, held := a.Store.OpLog().Get(ops[k].GetEntry().GetHash())
		vstub.Assert(held, "C17 every acknowledged entry is in the log (document store)")
	}
	docs, err := ds.Query(ctx, func(interface{}) (bool, error) { return true, nil })
	if err != nil {
		vstub.Fail("C17 Query failed")
		return
	}
	c07Check(docs, docReplay(a), func(string) bool { return true }, "after concurrent calls the view == replay of the log:")
}

package documentstore

import (
	"context"

	"berty.tech/go-orbit-db/iface"
	"berty.tech/go-orbit-db/internal/vstub"
	"berty.tech/go-orbit-db/internal/vstubodb"
	"berty.tech/go-orbit-db/stores/basestore"
	"berty.tech/go-orbit-db/stores/operation"
)

func init() {
	verifHarnesses["VerifC01Docs"] = VerifC01Docs
	verifHarnesses["VerifC07ReadDuringWrite"] = VerifC07ReadDuringWrite
}

// docReplay replays the replica's own log in its total order (PUT, DEL and the
// members of PUTALL), last writer wins per document key.
func docReplay(r *vstubodb.Replica) *c07State {
	ref := &c07State{}
	for _, e := range r.Store.OpLog().Values().Slice() {
		op, err := operation.ParseOperation(e)
		if err != nil {
			continue
		}
		switch op.GetOperation() {
		case "PUT":
			ref.putRaw(*op.GetKey(), op.GetValue())
		case "DEL":
			ref.del(*op.GetKey())
		case "PUTALL":
			for _, d := range op.GetDocs() {
				ref.putRaw(d.GetKey(), d.GetValue())
			}
		}
	}
	return ref
}

// putRaw stores the document body byte (documents are {"_id":k,"v":"<1 byte>"}).
func (s *c07State) putRaw(k string, raw []byte) {
	m := map[string]interface{}{}
	if err := jsonUnmarshal(raw, &m); err != nil {
		vstub.Fail("C01 document does not decode")
		return
	}
	v, _ := m["v"].(string)
	var b byte
	if len(v) == 1 {
		b = v[0]
	}
	s.put(k, b)
}

// VerifC01Docs: two writers put, batch-put and delete documents with symbolic
// keys, interleaved with real head exchanges in any order; at every step each
// replica's documents equal the replay of the log it holds (C07), and at the end
// both writers and a fresh replica (sync / load from disk / snapshot) show the
// same documents (C01).
func VerifC01Docs() {
	steps := vstub.Param("STEPS", 3)
	blocks := vstub.NewBlocks(nil)
	ac := vstubodb.WriteAll()
	a := vstubodb.Open(NewOrbitDBDocumentStore, "a", blocks, ac, false, nil)
	b := vstubodb.Open(NewOrbitDBDocumentStore, "b", blocks, ac, false, nil)
	if a == nil || b == nil {
		return
	}
	ctx := context.Background()
	doc := func(k string) map[string]interface{} {
		return map[string]interface{}{"_id": k, "v": string([]byte{vstub.NdASCII("v")})}
	}
	write := func(r *vstubodb.Replica) {
		ds := r.Store.(*orbitDBDocumentStore)
		switch vstub.NdChoice("op", 4) {
		case 3:
			// batch put as separate operations: both documents are written, the last one's operation is returned
			k1, k2 := asciiKey("key", 1), asciiKey("key", 1)
			before := r.Store.OpLog().Len()
			op, err := ds.PutBatch(ctx, []interface{}{doc(k1), doc(k2)})
			if err != nil || op == nil {
				vstub.Fail("C07 PutBatch failed")
				return
			}
			vstub.Assert(r.Store.OpLog().Len() == before+2, "C07 PutBatch writes one operation per document")
			vstub.Assert(op.GetKey() != nil && *op.GetKey() == k2, "C07 PutBatch returns the operation of the last document")
			vstub.Cover("put-batch")
		case 0:
			if _, err := ds.Put(ctx, doc(asciiKey("key", 1))); err != nil {
				vstub.Fail("C01 Put failed")
			}
		case 1:
			k1, k2 := asciiKey("key", 1), asciiKey("key", 1)
			d1, d2 := doc(k1), doc(k2)
			op, err := ds.PutAll(ctx, []interface{}{d1, d2})
			if err != nil || op == nil {
				vstub.Fail("C01 PutAll failed")
				return
			}
			// the batch operation that was written IS the batch that was given: every key
			// of the batch is a member, with the body of the LAST document given for it
			// (whatever the store happened to hold before)
			want, members := &c07State{}, &c07State{}
			want.put(k1, d1["v"].(string)[0])
			want.put(k2, d2["v"].(string)[0])
			for _, m := range op.GetDocs() {
				members.putRaw(m.GetKey(), m.GetValue())
			}
			vstub.Assert(len(members.keys) == len(want.keys), "C07 a batch put records one member per distinct key of the batch")
			for n, k := range want.keys {
				got, ok := members.get(k)
				vstub.Assert(ok && got == want.vals[n], "C07 a batch put records, for every key of the batch, the last document given for it")
			}
			vstub.Cover("put-all")
		case 2:
			_, _ = ds.Delete(ctx, asciiKey("key", 1)) // refused when absent: fine
		}
	}
	same := func(r *vstubodb.Replica, label string) {
		docs, err := r.Store.(*orbitDBDocumentStore).Query(ctx, func(interface{}) (bool, error) { return true, nil })
		if err != nil {
			vstub.Fail("C01 Query failed")
			return
		}
		c07Check(docs, docReplay(r), func(string) bool { return true }, label)
	}
	for s := 0; s < steps; s++ {
		switch vstub.NdChoice("step", 4) {
		case 0:
			write(a)
		case 1:
			write(b)
		case 2:
			a.SyncFrom(b)
		case 3:
			b.SyncFrom(a)
		}
		same(a, "view of writer a == replay of its log")
		same(b, "view of writer b == replay of its log")
	}
	// a and b merge; a third replica receives the same entries by another route:
	// manual sync in one batch, load from a's disk, a snapshot saved by a, or the
	// two branches in separate batches followed by a restart from its own disk
	r, restartBefore, restartAfter := vstubodb.Converge(NewOrbitDBDocumentStore, a, b, func(ctx context.Context, st iface.Store) error {
		_, err := basestore.SaveSnapshot(ctx, st)
		return err
	})
	if r == nil {
		return
	}
	vstub.Cover("converged")
	vstub.Assert(vstubodb.SameStrings(restartBefore, restartAfter), "C01 a replica restarted from its own disk holds the log it held before")
	vstub.Assert(vstubodb.SameStrings(a.Hashes(), b.Hashes()), "C01 writers a and b hold the same ordered log")
	vstub.Assert(vstubodb.SameStrings(a.Hashes(), r.Hashes()), "C01 the fresh replica holds the same ordered log")
	same(a, "C01 writer a shows the replayed documents")
	same(b, "C01 writer b shows the replayed documents")
	same(r, "C01 the fresh replica shows the replayed documents")
}

// VerifC07ReadDuringWrite: a reader (Query over all documents, then Get of the
// key being written) runs at ANY visible operation of a local write (Put /
// PutAll / Delete) or of the merge of a remote batch, until it blocks or
// finishes.  Whatever it saw in that window, once the write has returned and
// everything is quiet, Query and Get return exactly the documents of the
// replayed log (a read in the window between the log append and the view update
// must not leave anything stale behind).
func VerifC07ReadDuringWrite() {
	blocks := vstub.NewBlocks(nil)
	ac := vstubodb.WriteAll()
	a := vstubodb.Open(NewOrbitDBDocumentStore, "a", blocks, ac, false, nil)
	b := vstubodb.Open(NewOrbitDBDocumentStore, "b", blocks, ac, false, nil)
	if a == nil || b == nil {
		return
	}
	ctx := context.Background()
	ds := a.Store.(*orbitDBDocumentStore)
	doc := func(k string, v byte) map[string]interface{} {
		return map[string]interface{}{"_id": k, "v": string([]byte{v})}
	}
	all := func(interface{}) (bool, error) { return true, nil }
	// initial state: one document, read once (so that anything cached is warm)
	if _, err := ds.Put(ctx, doc("k1", vstub.NdASCII("v0"))); err != nil {
		vstub.Fail("C07 Put failed")
		return
	}
	if _, err := ds.Query(ctx, all); err != nil {
		vstub.Fail("C07 Query failed")
		return
	}
	reads := 0
	done := make(chan struct{})
	reader := func() {
		defer close(done)
		_, _ = ds.Query(ctx, all)
		_, _ = ds.Get(ctx, "k1", nil)
		reads++
	}
	fired := false
	vstub.FaultAtAnyStep(func() { fired = true; go reader() })
	switch vstub.NdChoice("write", 4) {
	case 0:
		if _, err := ds.Put(ctx, doc("k1", vstub.NdASCII("v1"))); err != nil {
			vstub.Fail("C07 Put failed")
		}
		vstub.Cover("put")
	case 1:
		if _, err := ds.PutAll(ctx, []interface{}{doc("k1", vstub.NdASCII("v1")), doc("k2", vstub.NdASCII("v2"))}); err != nil {
			vstub.Fail("C07 PutAll failed")
		}
		vstub.Cover("put-all")
	case 2:
		if _, err := ds.Delete(ctx, "k1"); err != nil {
			vstub.Fail("C07 Delete of a present key failed")
		}
		vstub.Cover("delete")
	case 3:
		// a batch written by another replica is merged
		bs := b.Store.(*orbitDBDocumentStore)
		if _, err := bs.Put(ctx, doc("k2", vstub.NdASCII("v2"))); err != nil {
			vstub.Fail("C07 remote Put failed")
		}
		a.SyncFrom(b)
		vstub.Cover("merge")
	}
	vstub.FaultDisarm()
	if fired {
		<-done
		vstub.Cover("read-during-write")
	}
	vstub.WaitIdle()
	ref := docReplay(a)
	for round := 0; round < 2; round++ {
		docs, err := ds.Query(ctx, all)
		if err != nil {
			vstub.Fail("C07 Query failed")
			return
		}
		c07Check(docs, ref, func(string) bool { return true }, "after a write with a concurrent reader, Query")
	}
	got, err := ds.Get(ctx, "k1", nil)
	if err != nil {
		vstub.Fail("C07 Get failed")
		return
	}
	_, present := ref.get("k1")
	vstub.Assert((len(got) == 1) == present, "C07 after a write with a concurrent reader, Get returns the document of the replayed state")
}

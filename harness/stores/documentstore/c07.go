package documentstore

import (
	"context"
	"encoding/json"

	ipfslog "berty.tech/go-ipfs-log"
	"berty.tech/go-orbit-db/iface"
	"berty.tech/go-orbit-db/internal/vstub"
	"berty.tech/go-orbit-db/internal/vstubodb"
	"berty.tech/go-orbit-db/stores/operation"
)

var verifHarnesses = map[string]func(){
	"VerifC07Replay": VerifC07Replay,
	"VerifC07Get":    VerifC07Get,
	"VerifC07Query":  VerifC07Query,
	"VerifC07Delete": VerifC07Delete,
}

func c07Store() *orbitDBDocumentStore {
	env := vstubodb.NewEnv("a", 1, "docs", nil, nil)
	st, err := NewOrbitDBDocumentStore(env.IPFS, env.Identity, env.Addr, env.Options(false))
	if err != nil {
		vstub.Fail("C07 store init failed")
		return nil
	}
	return st.(*orbitDBDocumentStore)
}

// asciiKey returns a symbolic key of length l made of printable ASCII without
// space (the property excludes spaces; the ToLower stand-in is ASCII-exact).
func asciiKey(name string, l int) string {
	b := vstub.NdBytes(name, l)
	for _, c := range b {
		vstub.Assume(c > ' ')
		vstub.Assume(c < 0x7f)
	}
	return string(b)
}

func c07Doc(o *orbitDBDocumentStore, key string, v byte) []byte {
	data, err := o.docOpts.Marshal(map[string]interface{}{"_id": key, "v": string([]byte{v})})
	if err != nil {
		vstub.Fail("C07 marshal failed")
	}
	return data
}

type c07State struct {
	keys []string
	vals []byte
}

func (s *c07State) put(k string, v byte) {
	for i := range s.keys {
		if s.keys[i] == k {
			s.vals[i] = v
			return
		}
	}
	s.keys = append(s.keys, k)
	s.vals = append(s.vals, v)
}

func (s *c07State) del(k string) {
	for i := range s.keys {
		if s.keys[i] == k {
			s.keys = append(append([]string{}, s.keys[:i]...), s.keys[i+1:]...)
			s.vals = append(append([]byte{}, s.vals[:i]...), s.vals[i+1:]...)
			return
		}
	}
}

func (s *c07State) get(k string) (byte, bool) {
	for i := range s.keys {
		if s.keys[i] == k {
			return s.vals[i], true
		}
	}
	return 0, false
}

// c07Build creates a symbolic listing of N operations (PUT, DEL, PUTALL with
// two documents), installs it in the store's index after an earlier update on
// a sub-listing, and returns the reference last-writer-wins state.
func c07Build(o *orbitDBDocumentStore, n, klen int) *c07State {
	ref := &c07State{}
	var entries, prev []ipfslog.Entry
	for k := 0; k < n; k++ {
		var data []byte
		var err error
		switch vstub.NdChoice("op", 3) {
		case 0: // PUT
			key := asciiKey("key", klen)
			v := vstub.NdASCII("v")
			data, err = operation.NewOperation(&key, "PUT", c07Doc(o, key, v)).Marshal()
			ref.put(key, v)
		case 1: // DEL
			key := asciiKey("key", klen)
			data, err = operation.NewOperation(&key, "DEL", nil).Marshal()
			ref.del(key)
		case 2: // PUTALL of two documents with distinct keys
			k1 := asciiKey("key", klen)
			k2 := asciiKey("key", klen)
			vstub.Assume(k1 != k2)
			v1 := vstub.NdASCII("v")
			v2 := vstub.NdASCII("v")
			empty := ""
			data, err = operation.NewOperationWithDocuments(&empty, "PUTALL", map[string][]byte{
				k1: c07Doc(o, k1, v1), k2: c07Doc(o, k2, v2)}).Marshal()
			ref.put(k1, v1)
			ref.put(k2, v2)
		}
		if err != nil {
			vstub.Fail("C07 marshal failed")
			return ref
		}
		e := vstub.MkEntry(k, data)
		entries = append(entries, e)
		if vstub.NdChoice("inPrev", 2) == 1 {
			prev = append(prev, e)
		}
	}
	if err := o.Index().UpdateIndex(&vstub.ListLog{Entries: prev, ID: "docs"}, nil); err != nil {
		vstub.Fail("C07 UpdateIndex(prev) failed")
	}
	if err := o.Index().UpdateIndex(&vstub.ListLog{Entries: entries, ID: "docs"}, nil); err != nil {
		vstub.Fail("C07 UpdateIndex failed")
	}
	return ref
}

func lowerASCII(s string) string {
	b := []byte(s)
	for i := range b {
		// branch-free: add 0x20 iff 'A' <= b[i] <= 'Z'
		b[i] += byte((int(b[i]-'A')-26)>>8) & 0x20
	}
	return string(b)
}

func containsStr(s, sub string) bool {
	for i := 0; i+len(sub) <= len(s); i++ {
		if s[i:i+len(sub)] == sub {
			return true
		}
	}
	return false
}

// c07Check compares a result list (documents) with the expected key set.
func c07Check(docs []interface{}, ref *c07State, want func(k string) bool, what string) {
	expected := 0
	for _, k := range ref.keys {
		if want(k) {
			expected++
		}
	}
	vstub.Assert(len(docs) == expected, "C07 "+what+" returns exactly the matching documents (count)")
	var seen []string
	for _, d := range docs {
		m, ok := d.(map[string]interface{})
		if !ok {
			vstub.Fail("C07 " + what + " returned a non-document")
			return
		}
		id, _ := m["_id"].(string)
		v, _ := m["v"].(string)
		rv, live := ref.get(id)
		vstub.Assert(live, "C07 "+what+" returns only live documents")
		vstub.Assert(want(id), "C07 "+what+" returns only matching documents")
		vstub.Assert(v == string([]byte{rv}), "C07 "+what+" returns the latest version of a document")
		for _, s := range seen {
			vstub.Assert(s != id, "C07 "+what+" returns no document twice")
		}
		seen = append(seen, id)
	}
}

// c07Puts installs m single PUT documents with symbolic keys (any collision
// pattern) and returns the reference state.  Get and Query are functions of the
// index state only, so their option space is explored over such states.
func c07Puts(o *orbitDBDocumentStore, m, klen int) *c07State {
	ref := &c07State{}
	var entries []ipfslog.Entry
	for k := 0; k < m; k++ {
		key := asciiKey("key", klen)
		v := vstub.NdASCII("v")
		data, err := operation.NewOperation(&key, "PUT", c07Doc(o, key, v)).Marshal()
		if err != nil {
			vstub.Fail("C07 marshal failed")
			return ref
		}
		ref.put(key, v)
		entries = append(entries, vstub.MkEntry(k, data))
	}
	if err := o.Index().UpdateIndex(&vstub.ListLog{Entries: entries, ID: "docs"}, nil); err != nil {
		vstub.Fail("C07 UpdateIndex failed")
	}
	return ref
}

// VerifC07Replay: the documents held (listed through the real Query with an
// always-true filter) equal the last-writer-wins replay of the listing,
// including members of batch puts, from any earlier index state.
func VerifC07Replay() {
	n := vstub.Param("N", 2)
	klen := vstub.Param("K", 1)
	o := c07Store()
	if o == nil {
		return
	}
	ref := c07Build(o, n, klen)
	vstub.Cover("built")
	docs, err := o.Query(context.Background(), func(doc interface{}) (bool, error) { return true, nil })
	vstub.Assert(err == nil, "C07 Query returns no error")
	c07Check(docs, ref, func(k string) bool { return true }, "state")
}

// VerifC07Get: Get with every option combination returns exactly the matching documents.
func VerifC07Get() {
	m := vstub.Param("M", 2)
	klen := vstub.Param("K", 1)
	o := c07Store()
	if o == nil {
		return
	}
	ref := c07Puts(o, m, klen)
	ci := vstub.NdChoice("caseInsensitive", 2) == 1
	pm := vstub.NdChoice("partial", 2) == 1
	slen := klen
	if pm {
		slen = 1
	}
	search := asciiKey("search", slen)
	docs, err := o.Get(context.Background(), search, &iface.DocumentStoreGetOptions{CaseInsensitive: ci, PartialMatches: pm})
	vstub.Assert(err == nil, "C07 Get returns no error")
	c07Check(docs, ref, func(k string) bool {
		s, kk := search, k
		if ci {
			s, kk = lowerASCII(s), lowerASCII(kk)
		}
		if pm {
			return containsStr(kk, s)
		}
		return kk == s
	}, "Get")
	vstub.Cover("get")
}

// VerifC07Query: Query returns exactly the documents its predicate accepts.
func VerifC07Query() {
	m := vstub.Param("M", 2)
	klen := vstub.Param("K", 1)
	o := c07Store()
	if o == nil {
		return
	}
	ref := c07Puts(o, m, klen)
	c := vstub.NdASCII("queryByte")
	mode := vstub.NdChoice("predicate", 3) // always / never / value == c
	docs, err := o.Query(context.Background(), func(doc interface{}) (bool, error) {
		switch mode {
		case 0:
			return true, nil
		case 1:
			return false, nil
		}
		m, _ := doc.(map[string]interface{})
		v, _ := m["v"].(string)
		return v == string([]byte{c}), nil
	})
	vstub.Assert(err == nil, "C07 Query returns no error")
	c07Check(docs, ref, func(k string) bool {
		switch mode {
		case 0:
			return true
		case 1:
			return false
		}
		rv, _ := ref.get(k)
		return rv == c
	}, "Query")
	vstub.Cover("query")
}

// VerifC07Delete: deleting an absent key is refused (error, nothing appended);
// deleting a live key is accepted.
func VerifC07Delete() {
	n := vstub.Param("N", 2)
	klen := vstub.Param("K", 1)
	o := c07Store()
	if o == nil {
		return
	}
	ref := c07Build(o, n, klen)
	key := asciiKey("delKey", klen)
	_, live := ref.get(key)
	before := o.OpLog().Len()
	_, err := o.Delete(context.Background(), key)
	if live {
		vstub.Cover("delete-live")
		vstub.Assert(err == nil, "C07 Delete of a live key succeeds")
	} else {
		vstub.Cover("delete-absent")
		vstub.Assert(err != nil, "C07 Delete of an absent key is refused")
		vstub.Assert(o.OpLog().Len() == before, "C07 refused Delete appends nothing")
	}
}

func jsonUnmarshal(data []byte, v interface{}) error { return json.Unmarshal(data, v) }

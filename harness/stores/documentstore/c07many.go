package documentstore

import (
	"context"

	"berty.tech/go-orbit-db/iface"
	"berty.tech/go-orbit-db/internal/vstub"
	"berty.tech/go-orbit-db/internal/vstubodb"
)

func init() {
	verifHarnesses["VerifC07QueryMany"] = VerifC07QueryMany
}

// VerifC07QueryMany: Query and partial Get as functions of a LARGER state: a
// store holding M documents (M around the sizes where a batched or parallel
// implementation changes behaviour: 3, 16, 17, 19, 23), one of them deleted
// again; Query of everything, Query of a predicate and a partial Get return
// exactly the matching live documents, each once.
func VerifC07QueryMany() {
	sizes := []int{3, 16, 17, 19, 23}
	m := sizes[vstub.NdChoice("documents", len(sizes))]
	blocks := vstub.NewBlocks(nil)
	a := vstubodb.Open(NewOrbitDBDocumentStore, "a", blocks, vstubodb.WriteAll(), false, nil)
	if a == nil {
		return
	}
	ds := a.Store.(*orbitDBDocumentStore)
	ctx := context.Background()
	key := func(k int) string { return "d" + string(rune('a'+k/10)) + string(rune('0'+k%10)) }
	var batch []interface{}
	for k := 0; k < m+1; k++ {
		batch = append(batch, map[string]interface{}{"_id": key(k), "v": string([]byte{byte('A' + k%2)})})
	}
	if _, err := ds.PutAll(ctx, batch); err != nil {
		vstub.Fail("C07 PutAll failed")
		return
	}
	if _, err := ds.Delete(ctx, key(m)); err != nil {
		vstub.Fail("C07 Delete failed")
		return
	}
	ref := docReplay(a)
	vstub.Assert(len(ref.keys) == m, "C07 harness: the replay holds M live documents")
	all, err := ds.Query(ctx, func(interface{}) (bool, error) { return true, nil })
	if err != nil {
		vstub.Fail("C07 Query failed")
		return
	}
	c07Check(all, ref, func(string) bool { return true }, "Query(everything) over many documents")
	odd, err := ds.Query(ctx, func(d interface{}) (bool, error) {
		mm, _ := d.(map[string]interface{})
		v, _ := mm["v"].(string)
		return v == "B", nil
	})
	if err != nil {
		vstub.Fail("C07 Query failed")
		return
	}
	c07Check(odd, ref, func(k string) bool { b, _ := ref.get(k); return b == 'B' }, "Query(predicate) over many documents")
	part, err := ds.Get(ctx, "da", &iface.DocumentStoreGetOptions{PartialMatches: true})
	if err != nil {
		vstub.Fail("C07 partial Get failed")
		return
	}
	c07Check(part, ref, func(k string) bool { return len(k) >= 2 && k[:2] == "da" }, "partial Get over many documents")
	vstub.Cover("many-documents")
}

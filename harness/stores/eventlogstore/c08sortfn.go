package eventlogstore

import (
	"bytes"
	"context"

	ipfslog "berty.tech/go-ipfs-log"
	logiface "berty.tech/go-ipfs-log/iface"
	"berty.tech/go-orbit-db/internal/vstub"
	"berty.tech/go-orbit-db/internal/vstubodb"
	"berty.tech/go-orbit-db/stores/basestore"
)

func init() {
	verifHarnesses["VerifC08SortFn"] = VerifC08SortFn
}

// c08Sort orders by Lamport time, ties broken by the REVERSE of the writer-key
// order (the opposite of the default tie-break): a legitimate store option.
func c08Sort(a, b logiface.IPFSLogEntry) (int, error) {
	ta, tb := a.GetClock().GetTime(), b.GetClock().GetTime()
	if ta != tb {
		if ta < tb {
			return -1, nil
		}
		return 1, nil
	}
	return -bytes.Compare(a.GetClock().GetID(), b.GetClock().GetID()), nil
}

func c08Open(name string, blocks *vstub.Blocks, cache *vstub.Cache) *vstubodb.Replica {
	env := vstubodb.NewEnv(name, 1, "db", blocks, nil)
	if cache != nil {
		env.Cache = cache
	}
	opts := env.Options(false)
	opts.AccessController = vstubodb.WriteAll()
	opts.SortFn = c08Sort
	st, err := NewOrbitDBEventLogStore(env.IPFS, env.Identity, env.Addr, opts)
	if err != nil {
		vstub.Fail("store constructor failed")
		return nil
	}
	return &vstubodb.Replica{Name: name, Store: st, Env: env}
}

// VerifC08SortFn: the store's ordering is an OPTION (SortFn).  Two writers opened
// with a sort function whose tie-break is the opposite of the default write
// concurrently and exchange heads; whatever route builds a replica's log - local
// writes and replication, restart + load from disk, restart + snapshot - it lists
// the same entries in the order of THAT function, and a restart never changes
// the relative order of entries already listed.
func VerifC08SortFn() {
	blocks := vstub.NewBlocks(nil)
	a := c08Open("a", blocks, nil)
	b := c08Open("b", blocks, nil)
	if a == nil || b == nil {
		return
	}
	ctx := context.Background()
	add := func(r *vstubodb.Replica, tag byte) {
		if _, err := r.Store.(*orbitDBEventLogStore).Add(ctx, []byte{tag}); err != nil {
			vstub.Fail("C08 Add failed")
		}
	}
	// a1 || b1 (a tie), exchange, a2, then a3 || b3 (another tie), exchange
	add(a, 'a')
	add(b, 'b')
	a.SyncFrom(b)
	b.SyncFrom(a)
	add(a, 'c')
	b.SyncFrom(a)
	add(a, 'd')
	add(b, 'e')
	a.SyncFrom(b)
	b.SyncFrom(a)
	before := listing(a)
	vstub.Assert(vstubodb.SameStrings(before, listing(b)), "C01 both writers list the same order under the store's sort function")
	// the listing obeys the configured function
	vals := a.Store.OpLog().Values().Slice()
	for k := 1; k < len(vals); k++ {
		c, _ := c08Sort(vals[k-1], vals[k])
		vstub.Assert(c < 0, "C08 the listing follows the store's sort function")
	}
	var route string
	cache := a.Env.Cache.Clone()
	var snapFiles *vstub.Unixfs
	switch vstub.NdChoice("route", 2) {
	case 0:
		route = "load"
	case 1:
		route = "snapshot"
		if _, err := basestore.SaveSnapshot(ctx, a.Store); err != nil {
			vstub.Fail("C08 SaveSnapshot failed")
			return
		}
		cache = a.Env.Cache.Clone()
		snapFiles = a.Env.IPFS.Files
	}
	_ = a.Store.Close()
	vstub.WaitIdle()
	r := c08Open("a", blocks, cache)
	if r == nil {
		return
	}
	if route == "load" {
		if err := r.Store.Load(ctx, -1); err != nil {
			vstub.Fail("C08 Load failed")
			return
		}
		vstub.Cover("restart-load")
	} else {
		r.Env.IPFS.Files = snapFiles
		if err := r.Store.LoadFromSnapshot(ctx); err != nil {
			vstub.Fail("C08 LoadFromSnapshot failed")
			return
		}
		vstub.Cover("restart-snapshot")
	}
	vstub.WaitIdle()
	after := listing(r)
	vstub.Assert(vstubodb.SameStrings(before, after), "C08 a restart does not change the relative order of entries already listed (custom sort function)")
	// and later writes / merges keep following it
	add(r, 'f')
	add(b, 'g')
	r.SyncFrom(b)
	b.SyncFrom(r)
	vstub.Assert(vstubodb.SameStrings(listing(r), listing(b)), "C01 after a restart both replicas still list the same order (custom sort function)")
	vstub.Assert(isSubsequence(after, listing(r)), "C08 merging after a restart never reorders listed entries (custom sort function)")
}

var _ ipfslog.Entry

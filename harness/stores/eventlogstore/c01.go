package eventlogstore

import (
	"context"

	"berty.tech/go-orbit-db/iface"
	"berty.tech/go-orbit-db/internal/vstub"
	"berty.tech/go-orbit-db/internal/vstubodb"
	"berty.tech/go-orbit-db/stores/basestore"
	"berty.tech/go-orbit-db/stores/operation"
)

func init() {
	verifHarnesses["VerifC01Log"] = VerifC01Log
}

func listing(r *vstubodb.Replica) []string {
	ops, err := r.Store.(*orbitDBEventLogStore).List(context.Background(), &streamAll)
	if err != nil {
		vstub.Fail("C08 List failed")
	}
	var out []string
	for _, op := range ops {
		out = append(out, op.GetEntry().GetHash().String())
	}
	return out
}

var minusOne = -1
var streamAll = ifaceStreamAll()

// isSubsequence: every element of old appears in cur, in the same relative order.
func isSubsequence(old, cur []string) bool {
	pos := 0
	for _, h := range old {
		for pos < len(cur) && cur[pos] != h {
			pos++
		}
		if pos >= len(cur) {
			return false
		}
		pos++
	}
	return true
}

func indexOf(l []string, h string) int {
	for i, x := range l {
		if x == h {
			return i
		}
	}
	return -1
}

// VerifC01Log: two writers append to an event log, interleaved with real head
// exchanges in any order.  After every step, on both replicas: merging never
// removes a listed entry nor reorders two listed entries (C08), each writer's
// own entries are listed in write order and after everything in their ancestry
// (C08); at the end both writers and a fresh replica list the same entries in
// the same order (C01), and Get by address returns the entry.
func VerifC01Log() {
	steps := vstub.Param("STEPS", 3)
	blocks := vstub.NewBlocks(nil)
	ac := vstubodb.WriteAll()
	a := vstubodb.Open(NewOrbitDBEventLogStore, "a", blocks, ac, false, nil)
	b := vstubodb.Open(NewOrbitDBEventLogStore, "b", blocks, ac, false, nil)
	if a == nil || b == nil {
		return
	}
	ctx := context.Background()
	var prevA, prevB, ownA, ownB []string
	write := func(r *vstubodb.Replica, own *[]string) {
		before := listing(r)
		op, err := r.Store.(*orbitDBEventLogStore).Add(ctx, vstub.NdBytes("val", 1))
		if err != nil {
			vstub.Fail("C01 Add failed")
			return
		}
		h := op.GetEntry().GetHash().String()
		*own = append(*own, h)
		after := listing(r)
		// the new entry comes after everything the writer had seen
		vstub.Assert(len(after) == len(before)+1, "C08 a local append adds exactly one entry")
		if len(after) == len(before)+1 {
			vstub.Assert(after[len(after)-1] == h, "C08 a writer's new entry is listed after everything it had seen")
		}
		// Get by address returns that entry
		got, gerr := r.Store.(*orbitDBEventLogStore).Get(ctx, op.GetEntry().GetHash())
		vstub.Assert(gerr == nil, "C08 Get by address succeeds")
		if gerr == nil {
			vstub.Assert(got.GetEntry().GetHash().Equals(op.GetEntry().GetHash()), "C08 Get by address returns that entry")
		}
	}
	check := func() {
		la, lb := listing(a), listing(b)
		vstub.Assert(isSubsequence(prevA, la), "C08 merging never removes or reorders listed entries (a)")
		vstub.Assert(isSubsequence(prevB, lb), "C08 merging never removes or reorders listed entries (b)")
		for _, l := range [][]string{la, lb} {
			for _, own := range [][]string{ownA, ownB} {
				last := -1
				for _, h := range own {
					if k := indexOf(l, h); k >= 0 {
						vstub.Assert(k > last, "C08 a writer's own entries are listed in write order")
						last = k
					}
				}
			}
		}
		prevA, prevB = la, lb
	}
	for s := 0; s < steps; s++ {
		switch vstub.NdChoice("step", 4) {
		case 0:
			write(a, &ownA)
		case 1:
			write(b, &ownB)
		case 2:
			a.SyncFrom(b)
		case 3:
			b.SyncFrom(a)
		}
		check()
	}
	// a and b merge; a third replica receives the same entries by another route:
	// manual sync in one batch, load from a's disk, a snapshot saved by a, or the
	// two branches in separate batches followed by a restart from its own disk
	r, restartBefore, restartAfter := vstubodb.Converge(NewOrbitDBEventLogStore, a, b, func(ctx context.Context, st iface.Store) error {
		_, err := basestore.SaveSnapshot(ctx, st)
		return err
	})
	if r == nil {
		return
	}
	check()
	vstub.Cover("converged")
	vstub.Assert(vstubodb.SameStrings(restartBefore, restartAfter), "C01 a replica restarted from its own disk holds the log it held before")
	vstub.Assert(vstubodb.SameStrings(listing(a), listing(b)), "C01 writers a and b list the same entries in the same order")
	vstub.Assert(vstubodb.SameStrings(listing(a), listing(r)), "C01 fresh replica lists the same entries in the same order")
	vstub.Assert(len(listing(r)) == len(ownA)+len(ownB), "C01 every written entry is listed")
}

var _ = operation.NewOperation

func ifaceStreamAll() iface.StreamOptions { return iface.StreamOptions{Amount: &minusOne} }

package eventlogstore

import (
	"context"

	ipfslog "berty.tech/go-ipfs-log"
	"berty.tech/go-orbit-db/internal/vstub"
	"berty.tech/go-orbit-db/internal/vstubodb"
)

func init() {
	verifHarnesses["VerifC01Grouping"] = VerifC01Grouping
}

// VerifC01Grouping: MANUAL SYNC with several heads at once.  One identity writes
// from two devices (two stores, own disks) that have not seen each other; another
// writer's chain is known to the second device only.  The resulting heads - two
// concurrent heads signed with the SAME key, plus possibly the other writer's -
// are handed to fresh replicas in one Sync call (in any order) or one call per
// head: all of them end with the same entries in the same order.
func VerifC01Grouping() {
	blocks := vstub.NewBlocks(nil)
	ac := vstubodb.WriteAll()
	d1 := vstubodb.Open(NewOrbitDBEventLogStore, "a", blocks, ac, false, nil)
	d2 := vstubodb.Open(NewOrbitDBEventLogStore, "a", blocks, ac, false, nil)
	c := vstubodb.Open(NewOrbitDBEventLogStore, "c", blocks, ac, false, nil)
	if d1 == nil || d2 == nil || c == nil {
		return
	}
	ctx := context.Background()
	add := func(r *vstubodb.Replica, tag byte, n int) {
		for k := 0; k < n; k++ {
			if _, err := r.Store.(*orbitDBEventLogStore).Add(ctx, []byte{tag, byte('0' + k)}); err != nil {
				vstub.Fail("C01 Add failed")
			}
		}
	}
	add(d1, 'a', 1+vstub.NdChoice("device1-writes", 2))
	add(c, 'c', 3)
	d2.SyncFrom(c)
	add(d2, 'b', 1) // its clock is beyond device 1's: distinct (time, key) pairs
	var heads []ipfslog.Entry
	heads = append(heads, d1.Heads()[0].Copy(), d2.Heads()[0].Copy())
	if vstub.NdChoice("with-other-writers-head", 2) == 1 {
		heads = append(heads, c.Heads()[0].Copy())
	}
	if vstub.NdChoice("reversed", 2) == 1 {
		for i, j := 0, len(heads)-1; i < j; i, j = i+1, j-1 {
			heads[i], heads[j] = heads[j], heads[i]
		}
	}
	x := vstubodb.Open(NewOrbitDBEventLogStore, "x", blocks, ac, false, nil)
	y := vstubodb.Open(NewOrbitDBEventLogStore, "y", blocks, ac, false, nil)
	if x == nil || y == nil {
		return
	}
	var all []ipfslog.Entry
	for _, h := range heads {
		all = append(all, h.Copy())
	}
	if err := x.Store.Sync(ctx, all); err != nil {
		vstub.Fail("C01 Sync of several heads returned an error")
	}
	vstub.WaitIdle()
	for _, h := range heads {
		if err := y.Store.Sync(ctx, []ipfslog.Entry{h.Copy()}); err != nil {
			vstub.Fail("C01 Sync of one head returned an error")
		}
		vstub.WaitIdle()
	}
	vstub.Cover("grouped-and-separate")
	lx, ly := listing(x), listing(y)
	vstub.Assert(vstubodb.SameStrings(lx, ly), "C01 the same heads given in one Sync call or one call each yield the same ordered entries")
	want := d1.Store.OpLog().Len() + d2.Store.OpLog().Len()
	vstub.Assert(len(lx) == want, "C01 every entry reachable from the given heads is listed (several heads in one call)")
}

package eventlogstore

import (
	"context"

	"berty.tech/go-orbit-db/iface"

	"berty.tech/go-orbit-db/internal/vstub"
	"berty.tech/go-orbit-db/internal/vstubodb"
	cid "github.com/ipfs/go-cid"
)

func init() {
	verifHarnesses["VerifC08Writers"] = VerifC08Writers
}

// VerifC08Writers: W writers (default 3) append to one event log, interleaved
// with real head exchanges between any ordered pair, in any order (STEPS steps).
// Concurrent entries of three writers can share one Lamport time, so the tie
// break between writer keys decides the listing in more than one place.  After
// every step, on every replica: merging never removes a listed entry nor
// reorders two listed entries, and each writer's own entries are listed in write
// order (C08).  At the end all replicas exchange heads until nothing moves and
// must list the same entries in the same order (C01).
func VerifC08Writers() {
	w := vstub.Param("W", 3)
	steps := vstub.Param("STEPS", 3)
	blocks := vstub.NewBlocks(nil)
	ac := vstubodb.WriteAll()
	names := []string{"a", "b", "c", "d"}
	rs := make([]*vstubodb.Replica, w)
	for k := 0; k < w; k++ {
		rs[k] = vstubodb.Open(NewOrbitDBEventLogStore, names[k], blocks, ac, false, nil)
		if rs[k] == nil {
			return
		}
	}
	ctx := context.Background()
	prev := make([][]string, w)
	bound := make([]string, w)
	own := make([][]string, w)
	total := 0
	check := func() {
		for k := 0; k < w; k++ {
			l := listing(rs[k])
			vstub.Assert(isSubsequence(prev[k], l), "C08 merging never removes or reorders listed entries (W writers)")
			for _, o := range own {
				last := -1
				for _, h := range o {
					if p := indexOf(l, h); p >= 0 {
						vstub.Assert(p > last, "C08 a writer's own entries are listed in write order (W writers)")
						last = p
					}
				}
			}
			prev[k] = l
			latestIsTail(rs[k], l)
			// the SAME bound is queried on the same store instance after every step: a
			// window is a function of the current listing only, whatever was asked before
			if bound[k] == "" && len(l) > 0 {
				bound[k] = l[len(l)-1]
			}
			if bound[k] != "" {
				windowsAt(rs[k], l, bound[k])
			}
		}
	}
	for s := 0; s < steps; s++ {
		c := vstub.NdChoice("step", w+w*(w-1))
		if c < w {
			before := listing(rs[c])
			op, err := rs[c].Store.(*orbitDBEventLogStore).Add(ctx, []byte{'v', byte('0' + s)})
			if err != nil {
				vstub.Fail("C08 Add failed")
				return
			}
			h := op.GetEntry().GetHash().String()
			own[c] = append(own[c], h)
			total++
			after := listing(rs[c])
			vstub.Assert(len(after) == len(before)+1 && after[len(after)-1] == h, "C08 a writer's new entry is listed after everything it had seen (W writers)")
		} else {
			c -= w
			to := c / (w - 1)
			from := c % (w - 1)
			if from >= to {
				from++
			}
			rs[to].SyncFrom(rs[from])
			vstub.Cover("exchanged")
		}
		check()
	}
	// everybody exchanges heads with everybody, twice (the second round carries
	// what the first one brought to the sender)
	for round := 0; round < 2; round++ {
		for to := 0; to < w; to++ {
			for from := 0; from < w; from++ {
				if from != to {
					rs[to].SyncFrom(rs[from])
				}
			}
		}
		check()
	}
	vstub.Cover("converged")
	l0 := listing(rs[0])
	vstub.Assert(len(l0) == total, "C01 every written entry is listed (W writers)")
	for k := 1; k < w; k++ {
		vstub.Assert(vstubodb.SameStrings(l0, listing(rs[k])), "C01 all writers list the same entries in the same order (W writers)")
	}
}

// latestIsTail: the "latest entry" queries - no bound, amount unset, 0 or 1 - return
// exactly the LAST element of the full listing l, also when the log has several
// heads (the last head in the head set is not necessarily the last listed entry).
func latestIsTail(r *vstubodb.Replica, l []string) {
	zero, one := 0, 1
	for _, o := range []*iface.StreamOptions{{}, {Amount: &zero}, {Amount: &one}, nil} {
		ops, err := r.Store.(*orbitDBEventLogStore).List(context.Background(), o)
		if err != nil {
			vstub.Fail("C08 List (latest) failed")
			return
		}
		if len(l) == 0 {
			vstub.Assert(len(ops) == 0, "C08 the latest-entry query of an empty log returns nothing")
			continue
		}
		vstub.Assert(len(ops) == 1 && ops[0].GetEntry().GetHash().String() == l[len(l)-1], "C08 an unbounded query for the latest entry (amount unset, 0 or 1) returns the last entry of the full listing, also on a log with several heads")
	}
	if len(r.Store.OpLog().Heads().Slice()) > 1 {
		vstub.Cover("latest-with-several-heads")
	}
}

// windowsAt: gt / gte / lt / lte queries with amount 2 bounded by the listed entry h
// return exactly the corresponding contiguous window of the full listing l.
func windowsAt(r *vstubodb.Replica, l []string, h string) {
	idx := indexOf(l, h)
	if idx < 0 {
		vstub.Fail("C08 a listed entry disappeared from the listing")
		return
	}
	var c cid.Cid
	for _, e := range r.Store.OpLog().Values().Slice() {
		if e.GetHash().String() == h {
			c = e.GetHash()
		}
	}
	two := 2
	clip := func(lo, hi int) []string {
		if lo < 0 {
			lo = 0
		}
		if hi > len(l) {
			hi = len(l)
		}
		if lo > hi {
			lo = hi
		}
		return l[lo:hi]
	}
	cases := []struct {
		o    *iface.StreamOptions
		want []string
		what string
	}{
		{&iface.StreamOptions{GT: &c, Amount: &two}, clip(idx+1, idx+3), "gt"},
		{&iface.StreamOptions{GTE: &c, Amount: &two}, clip(idx, idx+2), "gte"},
		{&iface.StreamOptions{LT: &c, Amount: &two}, clip(idx-2, idx), "lt"},
		{&iface.StreamOptions{LTE: &c, Amount: &two}, clip(idx-1, idx+1), "lte"},
	}
	for _, q := range cases {
		ops, err := r.Store.(*orbitDBEventLogStore).List(context.Background(), q.o)
		if err != nil {
			vstub.Fail("C08 bounded List failed")
			return
		}
		var got []string
		for _, op := range ops {
			got = append(got, op.GetEntry().GetHash().String())
		}
		vstub.Assert(vstubodb.SameStrings(got, q.want), "C08 a bounded query ("+q.what+", amount 2) on a bound that was queried before returns the window of the CURRENT listing")
	}
	if idx > 0 && idx < len(l)-1 {
		vstub.Cover("bound-in-the-middle")
	}
}

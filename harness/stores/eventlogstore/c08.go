package eventlogstore

import (
	"context"

	ipfslog "berty.tech/go-ipfs-log"
	"berty.tech/go-orbit-db/iface"
	"berty.tech/go-orbit-db/internal/vstub"
	"berty.tech/go-orbit-db/internal/vstubodb"
	"berty.tech/go-orbit-db/stores/operation"
	cid "github.com/ipfs/go-cid"
)

var verifHarnesses = map[string]func(){
	"VerifC08Window": VerifC08Window,
}

// VerifC08Window: a query by gt/gte/lt/lte and amount returns exactly the
// corresponding contiguous window of the full listing, for EVERY 64-bit amount
// and every bound position; the listing held by the index is not disturbed.
func VerifC08Window() {
	n := vstub.NdChoice("entries", vstub.Param("N", 3)+1) // 0..N entries
	env := vstubodb.NewEnv("a", 1, "log", nil, nil)
	st, err := NewOrbitDBEventLogStore(env.IPFS, env.Identity, env.Addr, env.Options(false))
	if err != nil {
		vstub.Fail("C08 store init failed")
		return
	}
	o := st.(*orbitDBEventLogStore)

	// the listing is in log order: Lamport times are non-decreasing and may TIE
	// (concurrent writers); the times are symbolic
	var listing []ipfslog.Entry
	prev := 1
	for k := 0; k < n; k++ {
		t := vstub.NdInt("time")
		vstub.Assume(t >= prev)
		vstub.Assume(t <= prev+1)
		prev = t
		// payloads are real serialised operations, so that the public List / Stream / Get parse them
		data, merr := operation.NewOperation(nil, "ADD", []byte{'v', byte('0' + k)}).Marshal()
		if merr != nil {
			vstub.Fail("C08 Marshal failed")
			return
		}
		e := vstub.MkEntry(k, data)
		e.Clock.Time = t
		listing = append(listing, e)
	}
	if err := o.Index().UpdateIndex(&vstub.ListLog{Entries: listing, ID: "log"}, nil); err != nil {
		vstub.Fail("C08 UpdateIndex failed")
		return
	}

	kind := vstub.NdChoice("bound", 5) // 0 none, 1 GT, 2 GTE, 3 LT, 4 LTE
	p := 0
	if kind != 0 && n > 0 {
		p = vstub.NdChoice("pos", n)
	}
	if kind != 0 && n == 0 {
		return // a bound must be an entry of the log
	}
	opts := &iface.StreamOptions{}
	var bound cid.Cid
	if kind != 0 {
		bound = listing[p].GetHash()
	}
	switch kind {
	case 1:
		opts.GT = &bound
	case 2:
		opts.GTE = &bound
	case 3:
		opts.LT = &bound
	case 4:
		opts.LTE = &bound
	}
	amountSet := vstub.NdBool("amountSet")
	amount := vstub.NdInt("amount")
	if amountSet {
		opts.Amount = &amount
	}

	res, qerr := o.query(opts)
	vstub.Assert(qerr == nil, "C08 query returns no error")

	// ---- specification of the window [lo, hi) of the listing
	// a = requested count: 1 if unset or 0, amount if > 0, everything if < 0
	lo, hi := 0, 0
	all := !amountSet
	all = false
	a := 1
	if amountSet {
		if amount < 0 {
			all = true
		} else if amount > 0 {
			a = amount
		}
	}
	switch kind {
	case 0: // last a
		hi = n
		lo = n - a
		if all || a > n {
			lo = 0
		}
	case 1: // GT: a entries after p
		lo = p + 1
		hi = lo + a
		if all || a > n-lo {
			hi = n
		}
	case 2: // GTE
		lo = p
		hi = lo + a
		if all || a > n-lo {
			hi = n
		}
	case 3: // LT: a entries before p
		hi = p
		lo = hi - a
		if all || a > hi {
			lo = 0
		}
	case 4: // LTE
		hi = p + 1
		lo = hi - a
		if all || a > hi {
			lo = 0
		}
	}
	vstub.Cover("window-computed")
	vstub.Assert(len(res) == hi-lo, "C08 window has the specified length")
	if len(res) == hi-lo {
		for k := 0; k < len(res); k++ {
			vstub.Assert(res[k].GetHash().Equals(listing[lo+k].GetHash()), "C08 window holds the specified entries in listing order")
		}
	}

	// the public API (List -> Stream -> query + ParseOperation) returns the same
	// window, asking twice gives the same answer, and Get by address returns that entry
	ctx := context.Background()
	for round := 0; round < 2; round++ {
		ops, lerr := o.List(ctx, opts)
		vstub.Assert(lerr == nil, "C08 List returns no error")
		vstub.Assert(len(ops) == hi-lo, "C08 List returns the specified window (length)")
		if len(ops) == hi-lo {
			for k := 0; k < len(ops); k++ {
				vstub.Assert(ops[k].GetEntry().GetHash().Equals(listing[lo+k].GetHash()), "C08 List returns the specified window in listing order")
				v := ops[k].GetValue()
				vstub.Assert(len(v) == 2 && v[1] == byte('0'+lo+k), "C08 List returns each entry's own value")
			}
		}
	}
	if n > 0 {
		g := vstub.NdChoice("get", n)
		op, gerr := o.Get(ctx, listing[g].GetHash())
		vstub.Assert(gerr == nil && op != nil, "C08 Get by address finds an entry of the log")
		if gerr == nil && op != nil {
			vstub.Assert(op.GetEntry().GetHash().Equals(listing[g].GetHash()), "C08 Get by address returns that entry")
		}
	}

	// the index's own listing is unchanged by the query
	after, _ := o.Index().Get("").([]ipfslog.Entry)
	vstub.Assert(len(after) == n, "C08 listing length unchanged by query")
	if len(after) == n {
		for k := 0; k < n; k++ {
			vstub.Assert(after[k].GetHash().Equals(listing[k].GetHash()), "C08 listing order unchanged by query")
		}
	}
}

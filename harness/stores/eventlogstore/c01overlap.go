package eventlogstore

import (
	"context"
	"sync"

	ipfslog "berty.tech/go-ipfs-log"
	"berty.tech/go-orbit-db/internal/vstub"
	"berty.tech/go-orbit-db/internal/vstubodb"
)

func init() {
	verifHarnesses["VerifC01Overlap"] = VerifC01Overlap
}

// VerifC01Overlap: the SAME entries reach a replica by two routes that overlap in
// time.  A replica that holds T entries in its cache restarts; its Load (from
// disk) runs concurrently with the Sync of heads a peer announces - the very
// head it has cached, or a newer one on top of it - under every schedule with at
// most P preemptions.  Afterwards the replica lists every entry exactly once, in
// the writer's order (duplicated / overlapping delivery changes nothing).
func VerifC01Overlap() {
	p := vstub.Param("P", 1)
	t := vstub.Param("T", 2)
	blocks := vstub.NewBlocks(nil)
	ac := vstubodb.WriteAll()
	w := vstubodb.Open(NewOrbitDBEventLogStore, "a", blocks, ac, false, nil)
	if w == nil {
		return
	}
	ctx := context.Background()
	for k := 0; k < t; k++ {
		if _, err := w.Store.(*orbitDBEventLogStore).Add(ctx, []byte{'v', byte('0' + k)}); err != nil {
			vstub.Fail("C01 Add failed")
			return
		}
	}
	// the restarted replica shares the writer's disk image as of now
	cache := w.Env.Cache.Clone()
	if vstub.NdChoice("peer-is-ahead", 2) == 1 {
		if _, err := w.Store.(*orbitDBEventLogStore).Add(ctx, []byte("newer")); err != nil {
			vstub.Fail("C01 Add failed")
			return
		}
		vstub.Cover("announced-head-is-newer")
	} else {
		vstub.Cover("announced-head-is-cached")
	}
	var heads []ipfslog.Entry
	for _, h := range w.Heads() {
		heads = append(heads, h.Copy())
	}
	r := vstubodb.Open(NewOrbitDBEventLogStore, "a", blocks, ac, false, cache)
	if r == nil {
		return
	}
	var wg sync.WaitGroup
	var lerr error
	vstub.ExploreSchedules(p)
	wg.Add(2)
	go func() {
		defer wg.Done()
		_ = r.Store.Sync(ctx, heads)
	}()
	go func() {
		defer wg.Done()
		lerr = r.Store.Load(ctx, -1)
	}()
	wg.Wait()
	vstub.WaitIdle()
	vstub.ExploreSchedules(0)
	if lerr != nil {
		vstub.Fail("C01 Load failed")
		return
	}
	vstub.Cover("overlapped")
	lw, lr := listing(w), listing(r)
	vstub.Assert(vstubodb.SameStrings(r.Hashes(), w.Hashes()), "C01 a replica reached by overlapping routes holds the writer's log")
	vstub.Assert(len(lr) == len(lw), "C01 entries delivered by two overlapping routes are listed exactly once")
	vstub.Assert(vstubodb.SameStrings(lr, lw), "C01 a replica reached by overlapping routes lists the same entries in the same order")
}

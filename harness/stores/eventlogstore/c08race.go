package eventlogstore

import (
	"context"
	"sync"

	"berty.tech/go-orbit-db/internal/vstub"
	"berty.tech/go-orbit-db/internal/vstubodb"
)

func init() {
	verifHarnesses["VerifC08Concurrent"] = VerifC08Concurrent
}

// VerifC08Concurrent: a local append races with the merge of a remote batch on
// the same replica (thread schedule explored with preemption bound P).  At
// quiescence nothing that was listed before has disappeared and the listing
// is exactly the log the replica holds, in log order.
func VerifC08Concurrent() {
	p := vstub.Param("P", 1)
	blocks := vstub.NewBlocks(nil)
	ac := vstubodb.WriteAll()
	a := vstubodb.Open(NewOrbitDBEventLogStore, "a", blocks, ac, false, nil)
	b := vstubodb.Open(NewOrbitDBEventLogStore, "b", blocks, ac, false, nil)
	if a == nil || b == nil {
		return
	}
	ctx := context.Background()
	if _, err := a.Store.(*orbitDBEventLogStore).Add(ctx, []byte("a0")); err != nil {
		vstub.Fail("Add failed")
		return
	}
	if _, err := b.Store.(*orbitDBEventLogStore).Add(ctx, []byte("b0")); err != nil {
		vstub.Fail("Add failed")
		return
	}
	before := listing(a)
	heads := b.Heads()

	vstub.ExploreSchedules(p)
	var wg sync.WaitGroup
	wg.Add(1)
	go func() {
		defer wg.Done()
		if _, err := a.Store.(*orbitDBEventLogStore).Add(ctx, vstub.NdBytes("val", 1)); err != nil {
			vstub.Fail("concurrent Add failed")
		}
	}()
	if err := a.Store.Sync(ctx, heads); err != nil {
		vstub.Fail("Sync failed")
	}
	wg.Wait()
	vstub.WaitIdle()
	vstub.ExploreSchedules(0)
	vstub.Cover("raced")

	after := listing(a)
	vstub.Assert(isSubsequence(before, after), "C08 merging never removes or reorders listed entries (concurrent write + merge)")
	vstub.Assert(vstubodb.SameStrings(after, a.Hashes()), "C08 at rest the listing is exactly the log the replica holds")
	vstub.Assert(len(after) == 3, "C08 the local append and the merged entry are both listed")
}

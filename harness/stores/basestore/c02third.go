package basestore

import (
	ipfslog "berty.tech/go-ipfs-log"
	"berty.tech/go-orbit-db/iface"
	"berty.tech/go-orbit-db/internal/vstub"
)

// VerifC02ThirdBranch: three writers a, b, c each make an acknowledged write
// while partitioned (three concurrent branches).  a then merges b's and c's heads
// in SEPARATE batches (either order), with an optional further own write in
// between; a fresh replica d joins a's topic, a sends it its heads (the real
// exchangeHeads: whatever a persisted as local and remote heads) and d replicates
// them.  d must end up with every acknowledged write a holds - the heads of EVERY
// merged batch stay re-announceable, not only those of the last one.
func VerifC02ThirdBranch() {
	a := c02Open("a", nil)
	if a == nil {
		return
	}
	b := c02Open("b", nil, a.env.Blocks)
	c := c02Open("c", nil, a.env.Blocks)
	if b == nil || c == nil {
		return
	}
	a.env.Blocks.Peers = []*vstub.Blocks{b.env.Blocks, c.env.Blocks}
	a.write('a')
	b.write('b')
	c.write('c')
	vstub.WaitIdle()
	exchange := func(from, to *c02Peer) {
		// `to` sees `from` join: it is `from` that receives ... no: the peer that SEES the
		// join sends its heads to the newcomer
		before := len(to.env.Direct.Sent)
		to.topic().PeersCh <- &iface.EventPubSubJoin{Topic: to.b.id, Peer: from.env.IPFS.Peer}
		vstub.WaitIdle()
		for _, m := range to.env.Direct.Sent[before:] {
			from.deliver(m.Data)
		}
		vstub.WaitIdle()
	}
	// b's and c's heads reach a in two separate batches
	first, second := b, c
	if vstub.NdChoice("c-first", 2) == 1 {
		first, second = c, b
	}
	exchange(a, first) // first sees a join and sends a its heads
	if vstub.NdChoice("own-write-between", 2) == 1 {
		a.write('x')
		vstub.WaitIdle()
	}
	exchange(a, second)
	vstub.Cover("merged-in-two-batches")
	for _, p := range []*c02Peer{b, c} {
		for _, e := range p.acks {
			vstub.Assert(inLog(a.b, e), "C02 a holds the writes of the peers whose heads it merged")
		}
	}
	// a fresh replica joins a
	d := c02Open("d", nil, a.env.Blocks, b.env.Blocks, c.env.Blocks)
	if d == nil {
		return
	}
	exchange(d, a) // a sees d join and sends d its heads
	vstub.Cover("fresh-replica-joined")
	for _, p := range []*c02Peer{a, b, c} {
		for _, e := range p.acks {
			vstub.Assert(inLog(d.b, e), "C02 a replica that joins later receives every acknowledged write its peer holds, also those merged in an earlier batch than the last")
		}
	}
	vstub.Assert(len(d.b.Index().Get("").([]ipfslog.Entry)) == d.b.OpLog().Len(), "C02 the view of the late replica shows what its log holds")
}

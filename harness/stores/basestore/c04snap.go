package basestore

import (
	"context"
	"encoding/binary"
	"encoding/json"

	ipfslog "berty.tech/go-ipfs-log"
	"berty.tech/go-ipfs-log/entry"
	"berty.tech/go-orbit-db/internal/vstub"
	"berty.tech/go-orbit-db/internal/vstubodb"
	"berty.tech/go-orbit-db/stores/operation"
	"github.com/ipfs/boxo/files"
	"github.com/ipfs/boxo/path"
	cid "github.com/ipfs/go-cid"
	datastore "github.com/ipfs/go-datastore"
)

// c04ReadAll reads a whole snapshot file.
func c04ReadAll(f files.File) []byte {
	var out []byte
	buf := make([]byte, 64)
	for {
		n, err := f.Read(buf)
		out = append(out, buf[:n]...)
		if err != nil || n == 0 {
			return out
		}
	}
}

// VerifC04Snapshot: the SNAPSHOT route.  A replica saves a snapshot of a log
// holding two entries of an authorised writer; the snapshot file is then
// rewritten (it is referenced from the local cache only): the frame of one entry
// - an ancestor, or the head - is replaced by ANOTHER validly signed entry of the
// same writer and database that CLAIMS the replaced entry's address.  A fresh
// instance loads the rewritten snapshot: whatever it merges hashes to the address
// it is listed under, the impersonated entries keep their genuine content, and
// the impostor's payload is nowhere.
func VerifC04Snapshot() {
	blocks := vstub.NewBlocks(nil)
	prov := vstub.NewProvider()
	w := vstub.NewIdentity("w", prov)
	ac := vstubodb.Writers(vstub.IDOf("a"), vstub.IDOf("w"))
	envA := vstubodb.NewEnv("a", 1, "db", blocks, nil)
	optsA := envA.Options(false)
	optsA.AccessController = ac
	a := &c13Store{}
	if err := a.InitBaseStore(envA.IPFS, envA.Identity, envA.Addr, optsA); err != nil {
		vstub.Fail("InitBaseStore failed")
		return
	}
	ctx := context.Background()
	lw, g1 := appendAs(envA, nil, a.id, w, []byte("genuine-1"))
	if g1 == nil {
		return
	}
	_, g2 := appendAs(envA, lw, a.id, w, []byte("genuine-2"))
	if g2 == nil {
		return
	}
	if err := a.Sync(ctx, []ipfslog.Entry{g2.Copy()}); err != nil {
		vstub.Fail("C04 Sync failed")
		return
	}
	vstub.WaitIdle()
	if a.OpLog().Len() != 2 {
		vstub.Fail("C04 harness: the two genuine entries were not replicated")
		return
	}
	if _, err := SaveSnapshot(ctx, a); err != nil {
		vstub.Fail("C04 SaveSnapshot failed")
		return
	}
	// the impostor: validly signed by the same writer for the same database
	_, evil := appendAs(envA, nil, a.id, w, []byte("evil"))
	if evil == nil {
		return
	}
	victim := g1
	if vstub.NdChoice("impersonates", 2) == 1 {
		victim = g2
		vstub.Cover("impersonates-the-head")
	} else {
		vstub.Cover("impersonates-an-ancestor")
	}
	forged := evil.Copy()
	forged.SetHash(victim.GetHash())
	if victim == g2 {
		// keep the head's link so that the rest of the log stays reachable
		forged.SetNext(g2.GetNext())
	}

	// ---- rewrite the snapshot file
	key := datastore.NewKey("snapshot")
	raw, err := envA.Cache.Get(ctx, key)
	if err != nil {
		vstub.Fail("C04 harness: no snapshot recorded in the cache")
		return
	}
	p, err := path.NewPath(string(raw))
	if err != nil {
		vstub.Fail("C04 harness: snapshot path")
		return
	}
	node, err := envA.IPFS.Unixfs().Get(ctx, p)
	if err != nil {
		vstub.Fail("C04 harness: snapshot file")
		return
	}
	data := c04ReadAll(node.(files.File))
	hl := int(binary.BigEndian.Uint16(data[0:2]))
	out := append([]byte{}, data[:2+hl]...)
	pos := 2 + hl
	replaced := 0
	for pos+2 <= len(data)-1 {
		el := int(binary.BigEndian.Uint16(data[pos : pos+2]))
		frame := data[pos+2 : pos+2+el]
		pos += 2 + el
		e := &entry.Entry{}
		if err := json.Unmarshal(frame, e); err != nil {
			vstub.Fail("C04 harness: frame does not decode")
			return
		}
		if e.GetHash().Equals(victim.GetHash()) {
			nf, err := json.Marshal(forged)
			if err != nil {
				vstub.Fail("C04 harness: marshal")
				return
			}
			frame = nf
			replaced++
		}
		size := make([]byte, 2)
		binary.BigEndian.PutUint16(size, uint16(len(frame)))
		out = append(out, size...)
		out = append(out, frame...)
	}
	out = append(out, 0)
	if replaced != 1 {
		vstub.Fail("C04 harness: the victim's frame was not found in the snapshot")
		return
	}
	np, err := envA.IPFS.Unixfs().Add(ctx, vstub.NewMemFile(out))
	if err != nil {
		vstub.Fail("C04 harness: add")
		return
	}
	if err := envA.Cache.Put(ctx, key, []byte(np.String())); err != nil {
		vstub.Fail("C04 harness: cache put")
		return
	}
	vstub.Cover("snapshot-rewritten")

	// ---- a fresh instance loads it
	envR := vstubodb.NewEnv("a", 1, "db", blocks, nil)
	envR.Cache = envA.Cache
	envR.IPFS.Files = envA.IPFS.Files
	optsR := envR.Options(false)
	optsR.AccessController = ac
	r := &c13Store{}
	if err := r.InitBaseStore(envR.IPFS, envR.Identity, envR.Addr, optsR); err != nil {
		vstub.Fail("InitBaseStore failed")
		return
	}
	lerr := r.LoadFromSnapshot(ctx)
	vstub.WaitIdle()
	if lerr != nil {
		vstub.Cover("load-refused")
	} else {
		vstub.Cover("loaded")
	}
	for _, e := range r.OpLog().Values().Slice() {
		c := e.Copy()
		h, werr := envR.IO.Write(ctx, envR.IPFS, c, nil)
		vstub.Assert(werr == nil && h.Equals(e.GetHash()), "C04 every entry merged from a snapshot hashes to the address it is listed under")
		vstub.Assert(string(e.GetPayload()) != string(evil.GetPayload()), "C04 an entry claiming another entry's address is never merged from a snapshot")
	}
	if x, ok := r.OpLog().Get(victim.GetHash()); ok {
		vstub.Assert(string(x.GetPayload()) == string(victim.GetPayload()), "C04 the impersonated entry keeps its genuine content")
	}
}

// VerifC04SnapshotAfterReject: a TAMPERED ancestor that live replication rejected
// stays reachable from a valid head's links and sits in the local block store.  The
// replica saves a snapshot of what it holds, restarts, and a fresh (empty) store
// loads the snapshot - which rebuilds the log by following the heads' links.  The
// tampered entry is not merged on that route either.
func VerifC04SnapshotAfterReject() {
	blocks := vstub.NewBlocks(nil)
	prov := vstub.NewProvider()
	w := vstub.NewIdentity("w", prov)
	ac := vstubodb.Writers(vstub.IDOf("a"), vstub.IDOf("w"))
	envA := vstubodb.NewEnv("a", 1, "db", blocks, nil)
	optsA := envA.Options(false)
	optsA.AccessController = ac
	a := &c13Store{}
	if err := a.InitBaseStore(envA.IPFS, envA.Identity, envA.Addr, optsA); err != nil {
		vstub.Fail("InitBaseStore failed")
		return
	}
	ctx := context.Background()
	lw, e1 := appendAs(envA, nil, a.id, w, []byte("e1"))
	if e1 == nil {
		return
	}
	_, victim := appendAs(envA, lw, a.id, w, []byte("genuine"))
	if victim == nil {
		return
	}
	t := victim.Copy()
	switch vstub.NdChoice("field", 4) {
	case 0:
		t.SetPayload([]byte("tampered"))
	case 1:
		nt := vstub.NdInt("newTime")
		vstub.Assume(nt != victim.GetClock().GetTime() && nt > 0 && nt < 9)
		t.SetClock(entry.NewLamportClock(victim.GetClock().GetID(), nt))
	case 2:
		t.SetSig([]byte("garbage"))
	case 3:
		t.SetPayload(append([]byte{vstub.NdByte("newPayload")}, victim.GetPayload()...))
	}
	if readdress(envA, t) == nil {
		return
	}
	if vstub.NdChoice("own-write-first", 2) == 1 {
		if _, err := a.AddOperation(ctx, operation.NewOperation(nil, "ADD", []byte("own")), nil); err != nil {
			vstub.Fail("C04 AddOperation failed")
			return
		}
	}
	top, err := entry.CreateEntryWithIO(ctx, envA.IPFS, w, &entry.Entry{
		LogID: a.id, Payload: []byte("top"), Next: []cid.Cid{t.GetHash()}, Refs: []cid.Cid{e1.GetHash()},
		Clock: entry.NewLamportClock(w.PublicKey, 9),
	}, nil, envA.IO)
	if err != nil {
		vstub.Fail("C04 CreateEntryWithIO failed")
		return
	}
	_ = a.Sync(ctx, []ipfslog.Entry{top.Copy()})
	vstub.WaitIdle()
	vstub.Assert(!inLog(&a.BaseStore, t), "C04 live replication does not merge the tampered ancestor")
	if a.OpLog().Len() == 0 {
		return // nothing was merged at all: nothing to snapshot
	}
	vstub.Cover("rejected-live")
	if _, err := SaveSnapshot(ctx, a); err != nil {
		vstub.Cover("save-refused")
		return
	}
	_ = a.Close()
	vstub.WaitIdle()
	envR := vstubodb.NewEnv("a", 1, "db", blocks, nil)
	envR.Cache = envA.Cache
	envR.IPFS.Files = envA.IPFS.Files
	optsR := envR.Options(false)
	optsR.AccessController = ac
	r := &c13Store{}
	if err := r.InitBaseStore(envR.IPFS, envR.Identity, envR.Addr, optsR); err != nil {
		vstub.Fail("InitBaseStore failed")
		return
	}
	_ = r.LoadFromSnapshot(ctx) // may report an error
	vstub.WaitIdle()
	vstub.Cover("snapshot-loaded-after-restart")
	vstub.Assert(!inLog(&r.BaseStore, t), "C04 a tampered ancestor that live replication rejected is not merged from a snapshot of the same replica either")
	for _, e := range r.OpLog().Values().Slice() {
		vstub.Assert(string(e.GetPayload()) != "tampered", "C04 the tampered payload is nowhere in the log after loading the snapshot")
	}
}

package basestore

import (
	"context"

	ipfslog "berty.tech/go-ipfs-log"
	"berty.tech/go-ipfs-log/entry"
	idp "berty.tech/go-ipfs-log/identityprovider"
	"berty.tech/go-orbit-db/accesscontroller"
	"berty.tech/go-orbit-db/internal/vstub"
	"berty.tech/go-orbit-db/internal/vstubodb"
	"berty.tech/go-orbit-db/stores"
	"berty.tech/go-orbit-db/stores/operation"
	cid "github.com/ipfs/go-cid"
)

// openAC opens a replica for identity `name` with the given access controller.
func openAC(name string, blocks *vstub.Blocks, ac accesscontroller.Interface) (*BaseStore, *vstubodb.Env) {
	env := vstubodb.NewEnv(name, 1, "db", blocks, nil)
	opts := env.Options(false)
	opts.AccessController = ac
	b := &BaseStore{}
	if err := b.InitBaseStore(env.IPFS, env.Identity, env.Addr, opts); err != nil {
		vstub.Fail("InitBaseStore failed")
		return nil, env
	}
	return b, env
}

// appendAs appends an operation to a fresh-or-given real ipfs-log of database
// `logID` as identity id (any identity may write to its OWN copy of the log).
func appendAs(env *vstubodb.Env, l *ipfslog.IPFSLog, logID string, id *idp.Identity, payload []byte) (*ipfslog.IPFSLog, ipfslog.Entry) {
	var err error
	if l == nil {
		l, err = ipfslog.NewLog(env.IPFS, id, &ipfslog.LogOptions{ID: logID, IO: env.IO})
		if err != nil {
			vstub.Fail("NewLog failed")
			return nil, nil
		}
	}
	data, _ := operation.NewOperation(nil, "ADD", payload).Marshal()
	e, err := l.Append(context.Background(), data, nil)
	if err != nil {
		vstub.Fail("Append failed")
		return l, nil
	}
	return l, e
}

// inLog: the entry is part of the replica's log in any way a user can observe:
// by address, in the ordered listing, or among the heads.
func inLog(b *BaseStore, e ipfslog.Entry) bool {
	if _, ok := b.OpLog().Get(e.GetHash()); ok {
		return true
	}
	for _, x := range b.OpLog().Values().Slice() {
		if x.GetHash().Equals(e.GetHash()) {
			return true
		}
	}
	for _, x := range b.OpLog().Heads().Slice() {
		if x.GetHash().Equals(e.GetHash()) {
			return true
		}
	}
	return false
}

// inView: the entry is served by the store's materialised view.
func inView(b *BaseStore, e ipfslog.Entry) bool {
	for _, x := range b.Index().Get("").([]ipfslog.Entry) {
		if x.GetHash().Equals(e.GetHash()) {
			return true
		}
	}
	return false
}

// VerifC10Mixed: a replica with an explicit write list receives announcements
// mixing valid heads with rejected ones — a non-writer's entry, an entry of
// another database, an entry whose claimed address is wrong, and a writer's
// entry whose ancestor was written by a non-writer (collusion) — at every
// position; afterwards the valid heads are announced again by an honest peer.
// At quiescence every valid entry is in the log and a further fresh valid head
// still replicates.
func VerifC10Mixed() {
	blocks := vstub.NewBlocks(nil)
	prov := vstub.NewProvider()
	w2 := vstub.NewIdentity("w2", prov)
	m := vstub.NewIdentity("mallory", prov)
	ac := vstubodb.Writers(vstub.IDOf("a"), vstub.IDOf("w2"))
	a, env := openAC("a", blocks, ac)
	if a == nil {
		return
	}
	// every replicated event announces entries the log HOLDS at that instant, each at most once (C16)
	if hb, ok := env.Bus.(*vstub.HookBus); ok {
		var announced []string
		hb.OnEmit = func(evt interface{}) {
			e, isRepl := evt.(stores.EventReplicated)
			if !isRepl {
				return
			}
			for _, x := range e.Entries {
				_, held := a.OpLog().Get(x.GetHash())
				vstub.Assert(held, "C16 a replicated event lists only entries that were merged")
				for _, h := range announced {
					vstub.Assert(h != x.GetHash().String(), "C16 a merged entry is announced by one replicated event only")
				}
				announced = append(announced, x.GetHash().String())
			}
		}
		defer func() { hb.OnEmit = nil }()
	}
	// valid entries by the authorised remote writer w2
	// (the valid head stands on a history of 0 or 3 older valid entries the replica does
	// not hold yet: their fetches are still going on when a sibling item fails)
	var lw *ipfslog.IPFSLog
	var history []ipfslog.Entry
	if vstub.NdChoice("valid-history", 2) == 1 {
		for k := 0; k < 3; k++ {
			var h ipfslog.Entry
			lw, h = appendAs(env, lw, a.id, w2, []byte{'h', byte('0' + k)})
			if h == nil {
				return
			}
			history = append(history, h)
		}
		vstub.Cover("valid-head-with-history")
	}
	lw, v1 := appendAs(env, lw, a.id, w2, []byte("v1"))
	if v1 == nil {
		return
	}
	// the rejected companion of the announcement
	var bad ipfslog.Entry
	switch vstub.NdChoice("rejected", 6) {
	case 5: // a writer's entry whose ancestor CANNOT BE FETCHED (its fetch fails, last of the burst)
		top, cerr := entry.CreateEntryWithIO(context.Background(), env.IPFS, w2, &entry.Entry{
			LogID: a.id, Payload: []byte("dangling"), Next: []cid.Cid{vstub.MkCid(99)}, Refs: []cid.Cid{},
			Clock: entry.NewLamportClock(w2.PublicKey, 5),
		}, nil, env.IO)
		if cerr != nil {
			vstub.Fail("C10 CreateEntryWithIO failed")
			return
		}
		bad = top
		vstub.Cover("unfetchable-ancestor")
	case 4: // correctly addressed entry naming a writer but with a signature that does not verify
		_, good := appendAs(env, nil, a.id, w2, []byte("s"))
		if good == nil {
			return
		}
		c := good.Copy()
		c.SetSig([]byte("garbage"))
		c.SetHash(cid.Cid{})
		h, err := env.IO.Write(context.Background(), env.IPFS, c, nil)
		if err != nil {
			vstub.Fail("IO.Write failed")
			return
		}
		c.SetHash(h)
		bad = c
		vstub.Cover("bad-signature")
	case 0: // written by a non-writer
		_, bad = appendAs(env, nil, a.id, m, []byte("m"))
		vstub.Cover("non-writer")
	case 1: // written for another database
		_, bad = appendAs(env, nil, "/orbitdb/other/db", w2, []byte("o"))
		vstub.Cover("foreign-db")
	case 2: // claimed address does not match the content
		_, good := appendAs(env, nil, a.id, w2, []byte("h"))
		if good == nil {
			return
		}
		c := good.Copy()
		c.SetHash(vstub.MkCid(77))
		bad = c
		vstub.Cover("wrong-hash")
	case 3: // a writer's entry on top of a non-writer's entry (the ancestor is the rejected one)
		lm, me := appendAs(env, nil, a.id, m, []byte("m"))
		if me == nil {
			return
		}
		// w2 colludes: continues mallory's log with its own identity
		lm.SetIdentity(w2)
		_, bad = appendAs(env, lm, a.id, w2, []byte("on-top"))
		vstub.Cover("bad-ancestor")
	}
	if bad == nil {
		return
	}
	// the rejected entry may CLAIM the address of the valid entry (the claimed address
	// of an announced head is whatever the sender wrote): a verdict remembered under
	// that address must not stick to the valid entry
	claims := vstub.NdChoice("claims-valid-address", 2) == 1
	if claims {
		c := bad.Copy()
		c.SetHash(v1.GetHash())
		bad = c
		vstub.Cover("claims-valid-address")
	}
	// the mixed announcement, rejected head at either position, or the rejected head
	// alone BEFORE the valid one is announced
	switch vstub.NdChoice("mix", 3) {
	case 0:
		_ = a.Sync(context.Background(), []ipfslog.Entry{v1.Copy(), bad.Copy()}) // may report an error: a mixed announcement may be dropped as a whole
	case 1:
		_ = a.Sync(context.Background(), []ipfslog.Entry{bad.Copy(), v1.Copy()})
	case 2:
		_ = a.Sync(context.Background(), []ipfslog.Entry{bad.Copy()})
		vstub.Cover("rejected-alone-first")
	}
	vstub.WaitIdle()

	// honest re-announcement of the valid head
	if err := a.Sync(context.Background(), []ipfslog.Entry{v1.Copy()}); err != nil {
		vstub.Fail("C10 honest re-announcement returned an error")
	}
	vstub.WaitIdle()
	vstub.Cover("re-announced")
	vstub.Assert(inLog(a, v1), "C10 a valid entry announced again after a mixed announcement becomes visible")
	vstub.Assert(inView(a, v1), "C10 a valid entry announced again after a mixed announcement is in the VIEW (not only in the log)")
	for _, h := range history {
		vstub.Assert(inLog(a, h) && inView(a, h), "C10 the history of a valid head announced again after a mixed announcement becomes visible too")
	}

	// the replica is still able to replicate: a newer valid head (child of v1)
	_, v2 := appendAs(env, lw, a.id, w2, []byte("v2"))
	if v2 == nil {
		return
	}
	if err := a.Sync(context.Background(), []ipfslog.Entry{v2.Copy()}); err != nil {
		vstub.Fail("C10 honest announcement returned an error")
	}
	vstub.WaitIdle()
	vstub.Assert(inLog(a, v2), "C10 a later valid head still replicates")
	vstub.Assert(inView(a, v2) && inView(a, v1), "C10 the view shows every valid entry once it replicated")
	vstub.Assert(inLog(a, v1), "C10 its ancestry is in the log")
	// rejected entries never enter
	if !claims && bad.GetIdentity().ID == vstub.IDOf("mallory") {
		vstub.Assert(!inLog(a, bad), "C10/C03 the non-writer's entry is not in the log")
	}
}

var _ = entry.NewLamportClock
var _ = cid.Undef

// VerifC10ForgedInBatch: a fetched batch mixes genuine entries of writer w1 with
// a FORGED-AUTHOR entry naming w1's id (made by w2, who is a writer too, with its
// own key) that a valid entry of w2 links to; the forged entry links on to w1's
// genuine head, so it is fetched - and judged - BEFORE w1's genuine entries in
// the same batch.  Whatever is done with the forged entry, w1's genuine entries
// become visible: at once, or at the latest when w1's head is announced again.
func VerifC10ForgedInBatch() {
	blocks := vstub.NewBlocks(nil)
	prov := vstub.NewProvider()
	w1 := vstub.NewIdentity("w1", prov)
	w2 := vstub.NewIdentity("w2", prov)
	ac := vstubodb.Writers(vstub.IDOf("a"), vstub.IDOf("w1"), vstub.IDOf("w2"))
	a, env := openAC("a", blocks, ac)
	if a == nil {
		return
	}
	ctx := context.Background()
	n := 1 + vstub.NdChoice("w1-entries", 2)
	var l1 *ipfslog.IPFSLog
	var genuine []ipfslog.Entry
	for k := 0; k < n; k++ {
		var e ipfslog.Entry
		l1, e = appendAs(env, l1, a.id, w1, []byte{'g', byte(k)})
		if e == nil {
			return
		}
		genuine = append(genuine, e)
	}
	head1 := genuine[n-1]
	// w2 continues w1's log with an entry whose author fields are forged
	l2, _ := ipfslog.NewLog(env.IPFS, w2, &ipfslog.LogOptions{ID: a.id, IO: env.IO})
	if _, err := l2.Join(l1, -1); err != nil {
		vstub.Fail("C10 harness: join failed")
		return
	}
	_, base := appendAs(env, l2, a.id, w2, []byte("forged"))
	if base == nil {
		return
	}
	f := base.Copy()
	f.SetIdentity(&idp.Identity{ID: w1.ID, PublicKey: w2.PublicKey, Signatures: w2.Signatures, Type: w2.Type})
	forged := readdress(env, f)
	if forged == nil {
		return
	}
	// a valid entry of w2 on top of the forged one
	top, err := entry.CreateEntryWithIO(ctx, env.IPFS, w2, &entry.Entry{
		LogID: a.id, Payload: []byte("top"), Next: []cid.Cid{forged.GetHash()}, Refs: []cid.Cid{},
		Clock: entry.NewLamportClock(w2.PublicKey, forged.GetClock().GetTime()+1),
	}, nil, env.IO)
	if err != nil {
		vstub.Fail("C10 CreateEntryWithIO failed")
		return
	}
	msg := []ipfslog.Entry{top.Copy()}
	if vstub.NdChoice("w1-head-alongside", 2) == 1 {
		msg = append(msg, head1.Copy())
		vstub.Cover("genuine-head-alongside")
	}
	_ = a.Sync(ctx, msg) // may report an error
	vstub.WaitIdle()
	vstub.Cover("mixed-batch-processed")
	vstub.Assert(!inLog(a, forged), "C10/C03 the forged-author entry is not in the log")
	// honest re-announcement of w1's head
	if err := a.Sync(ctx, []ipfslog.Entry{head1.Copy()}); err != nil {
		vstub.Fail("C10 honest re-announcement returned an error")
	}
	vstub.WaitIdle()
	vstub.Cover("re-announced")
	for _, e := range genuine {
		vstub.Assert(inLog(a, e), "C10 genuine entries fetched in the same batch as a forged-author entry become visible once announced again")
		vstub.Assert(inView(a, e), "C10 ... and are in the view")
	}
}

// VerifC10Before: the BEFORE clause.  Valid entries of an authorised writer are
// replicated first; LATER an announcement arrives whose fetched log the join
// refuses (a tampered, re-addressed copy of the writer's last entry - genuine
// identity block, signature over other content -, a non-writer's entry, or a
// writer's entry on top of a non-writer's).  The entries merged before stay in
// log and view, and they are all there again after a restart and load.
func VerifC10Before() {
	blocks := vstub.NewBlocks(nil)
	prov := vstub.NewProvider()
	w2 := vstub.NewIdentity("w2", prov)
	m := vstub.NewIdentity("mallory", prov)
	ac := vstubodb.Writers(vstub.IDOf("a"), vstub.IDOf("w2"))
	a, env := openAC("a", blocks, ac)
	if a == nil {
		return
	}
	ctx := context.Background()
	n := 1 + vstub.NdChoice("valid-entries", 2)
	var lw *ipfslog.IPFSLog
	var valid []ipfslog.Entry
	for k := 0; k < n; k++ {
		var e ipfslog.Entry
		lw, e = appendAs(env, lw, a.id, w2, []byte{'v', byte(k)})
		if e == nil {
			return
		}
		valid = append(valid, e)
	}
	if err := a.Sync(ctx, []ipfslog.Entry{valid[n-1].Copy()}); err != nil {
		vstub.Fail("C10 honest Sync failed")
		return
	}
	vstub.WaitIdle()
	// optionally a local write too (its head lives in the other heads key)
	if vstub.NdChoice("local-write-too", 2) == 1 {
		addN(a, 1, 'l')
	}
	var bad ipfslog.Entry
	rejected := vstub.NdChoice("rejected", 3)
	switch rejected {
	case 0:
		c := valid[n-1].Copy()
		c.SetPayload([]byte("tampered"))
		bad = readdress(env, c)
		vstub.Cover("tampered-readdressed")
	case 1:
		_, bad = appendAs(env, nil, a.id, m, []byte("m"))
		vstub.Cover("non-writer")
	case 2:
		lm, me := appendAs(env, nil, a.id, m, []byte("m"))
		if me == nil {
			return
		}
		lm.SetIdentity(w2)
		_, bad = appendAs(env, lm, a.id, w2, []byte("on-top"))
		vstub.Cover("bad-ancestor")
	}
	if bad == nil {
		return
	}
	_ = a.Sync(ctx, []ipfslog.Entry{bad.Copy()})
	vstub.WaitIdle()
	vstub.Cover("rejected-later")
	for _, e := range valid {
		vstub.Assert(inLog(a, e) && inView(a, e), "C10 entries merged BEFORE a rejected announcement stay visible")
	}
	want := a.OpLog().Len()
	_ = a.Close()
	vstub.WaitIdle()
	env2 := vstubodb.NewEnv("a", 1, "db", blocks, nil)
	env2.Cache = env.Cache
	opts := env2.Options(false)
	opts.AccessController = ac
	r := &BaseStore{}
	if err := r.InitBaseStore(env2.IPFS, env2.Identity, env2.Addr, opts); err != nil {
		vstub.Fail("InitBaseStore failed")
		return
	}
	if err := r.Load(ctx, -1); err != nil {
		vstub.Fail("C10 Load after restart failed")
		return
	}
	vstub.WaitIdle()
	vstub.Cover("restarted")
	for _, e := range valid {
		vstub.Assert(inLog(r, e), "C10 entries merged before a rejected announcement are reloaded after a restart")
	}
	if rejected != 2 {
		// (a writer's entry sitting on a non-writer's ancestor is itself valid: whether it
		// is kept without its ancestry is not this property's business)
		vstub.Assert(r.OpLog().Len() == want, "C10 a restart after a rejected announcement reloads exactly what the replica held")
	}
}

package basestore

import (
	"context"
	"fmt"
	"sync"

	ipfslog "berty.tech/go-ipfs-log"
	"berty.tech/go-orbit-db/internal/vstub"
	"berty.tech/go-orbit-db/stores/operation"
)

// VerifC19Concurrent: the replication status is updated by several threads (a
// local write under the write lock, the store's main loop on replicator events,
// the join that ends a replication): W local writes and the replication of a
// remote writer's chain run CONCURRENTLY on one store, every schedule with at
// most P preemptions.  A sampler reads the status between any two visible
// operations of the others.  Progress and maximum never decrease, and at rest
// progress equals maximum, between the largest Lamport time and the entry count.
func VerifC19Concurrent() {
	w := vstub.Param("W", 1)
	p := vstub.Param("P", 1)
	blocks := vstub.NewBlocks(nil)
	a, _ := openWith("a", blocks, nil, nil)
	b, _ := openWith("b", blocks, nil, nil)
	if a == nil || b == nil {
		return
	}
	ctx := context.Background()
	addN(a, 1, 'a')
	// b continues a's history (so that its head carries a larger clock) or is concurrent to it
	if vstub.NdChoice("b-saw-a", 2) == 1 {
		if err := b.Sync(ctx, a.OpLog().Heads().Slice()); err != nil {
			vstub.Fail("C19 Sync on b failed")
			return
		}
		vstub.WaitIdle()
	}
	addN(b, 2, 'b')
	var heads []ipfslog.Entry
	for _, h := range b.OpLog().Heads().Slice() {
		heads = append(heads, h.Copy())
	}
	statusOK(a, "before")
	lastP, lastM := a.ReplicationStatus().GetProgress(), a.ReplicationStatus().GetMax()
	sample := func(when string) {
		pp, mm := a.ReplicationStatus().GetProgress(), a.ReplicationStatus().GetMax()
		vstub.Assert(pp >= lastP, "C19 progress never decreases while writes and a replication run concurrently ("+when+")")
		vstub.Assert(mm >= lastM, "C19 maximum never decreases while writes and a replication run concurrently ("+when+")")
		lastP, lastM = pp, mm
	}
	var wg sync.WaitGroup
	vstub.ExploreSchedules(p)
	wg.Add(1)
	go func() {
		defer wg.Done()
		_ = a.Sync(ctx, heads)
	}()
	for k := 0; k < w; k++ {
		wg.Add(1)
		go func(k int) {
			defer wg.Done()
			if _, err := a.AddOperation(ctx, operation.NewOperation(nil, "ADD", []byte{'w', byte(k)}), nil); err != nil {
				vstub.Fail("C19 concurrent AddOperation failed")
			}
		}(k)
	}
	wg.Wait()
	sample("all calls returned")
	vstub.WaitIdle()
	vstub.ExploreSchedules(0)
	sample("at quiescence")
	vstub.Cover("concurrent")
	vstub.Observe(fmt.Sprintf("progress=%d max=%d entries=%d", a.ReplicationStatus().GetProgress(), a.ReplicationStatus().GetMax(), a.OpLog().Len()))
	statusOK(a, "at rest after concurrent writes and replication")
}

package basestore

import (
	"context"

	"berty.tech/go-orbit-db/internal/vstub"
	"berty.tech/go-orbit-db/stores/operation"
)

// statusOK checks the at-rest clause on store b: progress == max, and that value
// lies between the largest Lamport time among its entries and the entry count.
func statusOK(b *BaseStore, who string) {
	p := b.ReplicationStatus().GetProgress()
	m := b.ReplicationStatus().GetMax()
	n := b.OpLog().Len()
	maxT := 0
	for _, e := range b.OpLog().Values().Slice() {
		if t := e.GetClock().GetTime(); t > maxT {
			maxT = t
		}
	}
	vstub.Assert(p == m, "C19 at rest progress equals maximum ("+who+")")
	vstub.Assert(m >= maxT, "C19 at rest maximum >= largest Lamport time ("+who+")")
	vstub.Assert(m <= n, "C19 at rest maximum <= entry count ("+who+")")
}

// VerifC19History: a history of local writes and real replications (Sync ->
// replicator -> main loop -> replicationLoadComplete) between two writers with
// concurrent branches; after every step (at quiescence) progress and maximum
// have not decreased and the at-rest clause holds on both stores; a reopened
// store satisfies it after Load.
func VerifC19History() {
	steps := vstub.Param("STEPS", 3)
	blocks := vstub.NewBlocks(nil)
	sa, envA := c13Open("a", blocks, nil, nil)
	b, _ := openWith("b", blocks, nil, nil)
	if sa == nil || b == nil {
		return
	}
	a := &sa.BaseStore
	ctx := context.Background()
	var pa, ma, pb, mb int
	saved := false
	trimmed := false
	for s := 0; s < steps; s++ {
		switch vstub.NdChoice("step", 7) {
		case 4: // a saves a snapshot of its current log
			if _, err := SaveSnapshot(ctx, sa); err != nil {
				vstub.Fail("C19 SaveSnapshot failed")
				return
			}
			saved = true
			vstub.Cover("snapshot-saved")
		case 5: // a (open, possibly ahead of the snapshot by now) loads the last snapshot
			if !saved {
				continue
			}
			if err := a.LoadFromSnapshot(ctx); err != nil {
				vstub.Fail("C19 LoadFromSnapshot failed")
				return
			}
			vstub.Cover("snapshot-loaded")
		case 6: // a, still open, is loaded again from its own disk: everything, or the k most recent entries
			limit := -1
			if k := vstub.NdChoice("load-limit", 3); k > 0 {
				limit = k
				if a.OpLog().Len() > k {
					// (the log is trimmed: from now on a does not hold a complete log, only
					// the never-decrease clause applies to it)
					trimmed = true
				}
			}
			if err := a.Load(ctx, limit); err != nil {
				vstub.Fail("C19 Load on the open store failed")
				return
			}
			vstub.Cover("loaded-while-open")
		case 0:
			_, _ = a.AddOperation(ctx, operation.NewOperation(nil, "ADD", []byte{'a', byte(s)}), nil)
		case 1:
			_, _ = b.AddOperation(ctx, operation.NewOperation(nil, "ADD", []byte{'b', byte(s)}), nil)
		case 2:
			_ = a.Sync(ctx, b.OpLog().Heads().Slice())
		case 3:
			_ = b.Sync(ctx, a.OpLog().Heads().Slice())
		}
		vstub.WaitIdle()
		vstub.Assert(a.ReplicationStatus().GetProgress() >= pa, "C19 progress never decreases (a)")
		vstub.Assert(a.ReplicationStatus().GetMax() >= ma, "C19 maximum never decreases (a)")
		vstub.Assert(b.ReplicationStatus().GetProgress() >= pb, "C19 progress never decreases (b)")
		vstub.Assert(b.ReplicationStatus().GetMax() >= mb, "C19 maximum never decreases (b)")
		pa, ma = a.ReplicationStatus().GetProgress(), a.ReplicationStatus().GetMax()
		pb, mb = b.ReplicationStatus().GetProgress(), b.ReplicationStatus().GetMax()
		if !trimmed {
			statusOK(a, "a")
		}
		statusOK(b, "b")
	}
	vstub.Cover("history")
	_ = a.Close()
	r, _ := openWith("a", blocks, envA.Cache, nil)
	if r == nil {
		return
	}
	if err := r.Load(ctx, -1); err != nil {
		vstub.Fail("C19 Load failed")
		return
	}
	vstub.WaitIdle()
	statusOK(r, "reloaded")
	vstub.Cover("reloaded")
	if saved {
		// a fresh store that loads the snapshot is at rest with a complete log too
		_ = r.Close()
		f, _ := c13Open("a", blocks, envA.Cache, envA.IPFS.Files)
		if f == nil {
			return
		}
		if err := f.LoadFromSnapshot(ctx); err != nil {
			vstub.Fail("C19 LoadFromSnapshot on a fresh store failed")
			return
		}
		vstub.WaitIdle()
		statusOK(&f.BaseStore, "fresh store loaded from a snapshot")
		vstub.Cover("fresh-from-snapshot")
	}
}

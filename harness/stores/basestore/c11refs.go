package basestore

import (
	"context"

	ipfslog "berty.tech/go-ipfs-log"
	"berty.tech/go-orbit-db/internal/vstub"
)

// VerifC11NewerHeadRefs: what a NEWER head still brings in after an aborted
// request left a gap (the region of the listed finding C11-partial-ancestry, where
// "every reachable entry" is not achieved).  A writer's chain of N entries carries
// real reference links (refs at growing distances, as AddOperation builds them); a
// replica's request for its head is cancelled at the k-th fetch; the writer appends
// one more entry and the replica requests that newer head with a live context.
// Reference: the traversal from the newer head over next AND refs links, not
// expanding entries the replica already held.  Every entry of that closure must be
// visible afterwards - in particular the entries below the gap that only a
// reference of the newer head names.
func VerifC11NewerHeadRefs() {
	n := vstub.Param("N", 6)
	blocks := vstub.NewBlocks(nil)
	b, _ := openWith("b", blocks, nil, nil)
	a, _ := openWith("a", blocks, nil, nil)
	if a == nil || b == nil {
		return
	}
	addN(b, n, 'b')
	head := b.OpLog().Heads().Slice()[0]
	ctx1, cancel1 := context.WithCancel(context.Background())
	at := 1 + vstub.NdChoice("cancel-at-fetch", n+1) // n+1: never reached
	blocks.OnRead = func(k int, hash string) {
		if k == at {
			cancel1()
		}
	}
	_ = a.Sync(ctx1, []ipfslog.Entry{head.Copy()})
	vstub.WaitIdle()
	cancel1()
	vstub.WaitIdle()
	blocks.OnRead = nil
	vstub.Cover("aborted")
	held := map[string]bool{}
	for _, e := range a.OpLog().Values().Slice() {
		held[e.GetHash().String()] = true
	}
	if len(held) > 0 && len(held) < n {
		vstub.Cover("gap-left")
	}
	addN(b, 1, 'n')
	newer := b.OpLog().Heads().Slice()[0]
	byHash := map[string]ipfslog.Entry{}
	for _, e := range b.OpLog().Values().Slice() {
		byHash[e.GetHash().String()] = e
	}
	if len(newer.GetRefs()) > 0 {
		vstub.Cover("newer-head-has-refs")
	}
	if err := a.Sync(context.Background(), []ipfslog.Entry{newer.Copy()}); err != nil {
		vstub.Fail("C11 the request for the newer head returned an error")
		return
	}
	vstub.WaitIdle()
	vstub.Cover("newer-head-requested")
	// reference closure
	var want []ipfslog.Entry
	seen := map[string]bool{}
	queue := []string{newer.GetHash().String()}
	for len(queue) > 0 {
		h := queue[0]
		queue = queue[1:]
		if seen[h] || held[h] {
			continue
		}
		seen[h] = true
		e, ok := byHash[h]
		if !ok {
			continue
		}
		want = append(want, e)
		for _, c := range e.GetNext() {
			queue = append(queue, c.String())
		}
		for _, c := range e.GetRefs() {
			queue = append(queue, c.String())
		}
	}
	for _, e := range want {
		vstub.Assert(inLog(a, e), "C11 after an aborted request, a newer head makes visible every entry its next and reference links lead to (not passing through entries already held)")
	}
	vstub.Assert(inView(a, newer), "C11 the newer head is in the view")
}

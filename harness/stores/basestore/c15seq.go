package basestore

import (
	"context"

	ipfslog "berty.tech/go-ipfs-log"
	"berty.tech/go-orbit-db/internal/vstub"
	"berty.tech/go-orbit-db/stores/operation"
)

// VerifC15Sequence: SEQUENCES of loads on one open store.  A single-writer log
// of T entries is persisted; a fresh store loads it with a limit n, then the open
// log grows without a load (k local writes, or the older history is fetched by
// LoadMoreFrom), then it is loaded again with a limit m that does not exceed what
// it holds.  After the last load exactly the m most recent entries of what the
// store held are visible, in log order and including the newest.
// (A second load with a LARGER limit than what the store holds is outside: the
// unchanged code fetches nothing below entries it already holds.)
func VerifC15Sequence() {
	t := vstub.Param("T", 4)
	blocks := vstub.NewBlocks(nil)
	a, envA := openWith("a", blocks, nil, nil)
	if a == nil {
		return
	}
	ctx := context.Background()
	var chain []ipfslog.Entry
	for k := 0; k < t; k++ {
		e, err := a.AddOperation(ctx, operation.NewOperation(nil, "ADD", []byte{'w', byte(k)}), nil)
		if err != nil {
			vstub.Fail("C15 AddOperation failed")
			return
		}
		chain = append(chain, e)
	}
	_ = a.Close()
	vstub.WaitIdle()
	r, _ := openWith("a", blocks, envA.Cache, nil)
	if r == nil {
		return
	}
	n := 1 + vstub.NdChoice("first-limit", t)
	if err := r.Load(ctx, n); err != nil {
		vstub.Fail("C15 first Load failed")
		return
	}
	vstub.WaitIdle()
	vstub.Assert(r.OpLog().Len() == n, "C15 the first load shows min(n,total) entries")
	switch vstub.NdChoice("growth", 3) {
	case 0:
	case 1:
		k := 1 + vstub.NdChoice("writes", 2)
		for j := 0; j < k; j++ {
			if _, err := r.AddOperation(ctx, operation.NewOperation(nil, "ADD", []byte{'n', byte(j)}), nil); err != nil {
				vstub.Fail("C15 AddOperation on the loaded store failed")
				return
			}
		}
		vstub.Cover("grew-by-writes")
	case 2:
		if n < t {
			r.LoadMoreFrom(ctx, 0, []ipfslog.Entry{chain[t-n-1].Copy()})
			vstub.WaitIdle()
			vstub.Assert(r.OpLog().Len() == t, "C15 harness: LoadMoreFrom made the older history visible")
			vstub.Cover("grew-by-load-more")
		}
	}
	held := hashesOf(r)
	m := 1 + vstub.NdChoice("second-limit", len(held))
	if err := r.Load(ctx, m); err != nil {
		vstub.Fail("C15 second Load failed")
		return
	}
	vstub.WaitIdle()
	vstub.Cover("loaded-again")
	got := hashesOf(r)
	vstub.Assert(len(got) == m, "C15 a later load with limit m shows exactly min(m, held) entries (no stale ones kept)")
	if len(got) == m {
		for k := 0; k < m; k++ {
			vstub.Assert(got[k] == held[len(held)-m+k], "C15 a later load shows the m most recent entries, in log order, newest included")
		}
	}
	view := r.Index().Get("").([]ipfslog.Entry)
	vstub.Assert(len(view) == len(got), "C15 the view shows what the log holds after the later load")
}

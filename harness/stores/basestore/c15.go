package basestore

import (
	"context"

	"berty.tech/go-orbit-db/internal/vstub"
	"berty.tech/go-orbit-db/internal/vstubodb"
	"berty.tech/go-orbit-db/stores/operation"
)

// openWith opens a real BaseStore for identity name over the given blocks/cache.
func openWith(name string, blocks *vstub.Blocks, cache *vstub.Cache, maxHistory *int) (*BaseStore, *vstubodb.Env) {
	env := vstubodb.NewEnv(name, 1, "db", blocks, nil)
	if cache != nil {
		env.Cache = cache
	}
	opts := env.Options(false)
	opts.AccessController = vstubodb.WriteAll()
	opts.MaxHistory = maxHistory
	b := &BaseStore{}
	if err := b.InitBaseStore(env.IPFS, env.Identity, env.Addr, opts); err != nil {
		vstub.Fail("InitBaseStore failed")
		return nil, env
	}
	return b, env
}

func addN(b *BaseStore, n int, tag byte) {
	for k := 0; k < n; k++ {
		payload := []byte{tag, byte(k)}
		if vstub.NativeBigPayload() {
			payload = append(payload, make([]byte, 70000)...)
		}
		if _, err := b.AddOperation(context.Background(), operation.NewOperation(nil, "ADD", payload), nil); err != nil {
			vstub.Fail("AddOperation failed")
		}
	}
}

// VerifC15Load: a persisted log (single-writer chain, or a local and a remote
// head) is loaded with ANY 64-bit limit, given per call or through MaxHistory.
// Loading never panics or errors; a positive limit n makes exactly min(n,total)
// entries visible, in log order and including the newest; for a single-writer
// chain exactly the n most recent; a non-positive limit loads everything.
func VerifC15Load() {
	t := vstub.Param("T", 3)
	blocks := vstub.NewBlocks(nil)
	a, envA := openWith("a", blocks, nil, nil)
	if a == nil {
		return
	}
	// 0: single-writer chain; 1: two writers, local + remote heads;
	// 2: a replicated another writer's chain and then wrote again (the cached
	//    remote heads are stale ancestors of the newer local head)
	// 3: two writers' concurrent branches MERGED by a later entry of one of them
	//    (one head whose history holds more entries than its Lamport time), loaded
	//    by a reader-only replica whose cache holds that single head
	shape := vstub.NdChoice("shape", 4)
	var full []string
	reloadName, reloadCache := "a", envA.Cache
	if shape == 3 {
		bw, _ := openWith("b", blocks, nil, nil)
		if bw == nil || t < 3 {
			return
		}
		nb := 1
		if t >= 5 {
			nb = 2
		}
		addN(bw, nb, 'b')
		addN(a, t-nb-1, 'a')
		if err := a.Sync(context.Background(), bw.OpLog().Heads().Slice()); err != nil {
			vstub.Fail("C15 Sync failed")
			return
		}
		vstub.WaitIdle()
		addN(a, 1, 'm') // the merging entry
		c, envC := openWith("c", blocks, nil, nil)
		if c == nil {
			return
		}
		if err := c.Sync(context.Background(), a.OpLog().Heads().Slice()); err != nil {
			vstub.Fail("C15 Sync failed")
			return
		}
		vstub.WaitIdle()
		vstub.Assert(c.OpLog().Len() == t && len(c.OpLog().Heads().Slice()) == 1, "C15 harness: the reader holds the merged log under one head")
		_ = a.Close()
		a = c
		reloadName, reloadCache = "c", envC.Cache
		vstub.Cover("merged-branches-one-head")
	} else if shape == 0 {
		addN(a, t, 'a')
	} else if shape == 2 {
		bw, _ := openWith("b", blocks, nil, nil)
		if bw == nil {
			return
		}
		nb := 1
		if t >= 4 {
			nb = 2
		}
		addN(bw, nb, 'b')
		if err := a.Sync(context.Background(), bw.OpLog().Heads().Slice()); err != nil {
			vstub.Fail("C15 Sync failed")
			return
		}
		vstub.WaitIdle()
		addN(a, t-nb, 'a')
		vstub.Cover("stale-remote-heads")
	} else {
		bw, _ := openWith("b", blocks, nil, nil)
		if bw == nil {
			return
		}
		addN(bw, 1, 'b')
		addN(a, t-1, 'a')
		// a merges b's head through the real replication path (persists _remoteHeads)
		if err := a.Sync(context.Background(), bw.OpLog().Heads().Slice()); err != nil {
			vstub.Fail("C15 Sync failed")
			return
		}
		vstub.WaitIdle()
	}
	total := a.OpLog().Len()
	vstub.Assert(total == t, "C15 harness built a log of T entries")
	for _, e := range a.OpLog().Values().Slice() {
		full = append(full, e.GetHash().String())
	}
	newest := full[len(full)-1]
	_ = a.Close()

	// the limit: per call, or through the MaxHistory option
	amount := vstub.NdInt("amount")
	// with several cached heads the load is also run under schedule exploration
	// (then the limit is passed per call: the option route is independent of scheduling)
	explore := shape != 0 && shape != 3 && vstub.Param("P", 1) > 0 && vstub.NdChoice("explore", 2) == 1
	viaOption := !explore && vstub.NdChoice("viaMaxHistory", 2) == 1
	var mh *int
	callAmount := amount
	if viaOption {
		mh = &amount
		callAmount = -1 + vstub.NdChoice("callArg", 2) // -1 or 0: both mean "use MaxHistory"
	}
	r, _ := openWith(reloadName, blocks, reloadCache, mh)
	if r == nil {
		return
	}
	// Load starts one goroutine per cached head: with several heads, every
	// schedule of them with at most P preemptions at visible operations
	if explore {
		vstub.ExploreSchedules(vstub.Param("P", 1))
		vstub.Cover("schedules-explored")
	}
	err := r.Load(context.Background(), callAmount)
	vstub.WaitIdle()
	vstub.ExploreSchedules(0)
	vstub.Cover("loaded")
	vstub.Assert(err == nil, "C15 Load returns no error")

	want := total
	if amount > 0 && amount < total {
		want = amount
	}
	got := r.OpLog().Values().Slice()
	vstub.Assert(len(got) == want, "C15 exactly min(n,total) entries visible (all for a non-positive limit)")
	if len(got) != want || want == 0 {
		return
	}
	// in log order: a subsequence of the full listing
	pos := 0
	for _, e := range got {
		h := e.GetHash().String()
		for pos < len(full) && full[pos] != h {
			pos++
		}
		vstub.Assert(pos < len(full), "C15 visible entries are in log order")
		pos++
	}
	vstub.Assert(got[len(got)-1].GetHash().String() == newest, "C15 the newest entry is included")
	if shape == 0 {
		for k := 0; k < want; k++ {
			vstub.Assert(got[k].GetHash().String() == full[total-want+k], "C15 single-writer log: exactly the n most recent entries")
		}
	}
}

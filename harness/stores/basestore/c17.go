package basestore

import (
	"context"
	"encoding/json"
	"fmt"
	"sync"

	"berty.tech/go-ipfs-log/entry"

	ipfslog "berty.tech/go-ipfs-log"
	"berty.tech/go-orbit-db/internal/vstub"
	"berty.tech/go-orbit-db/internal/vstubodb"
	"berty.tech/go-orbit-db/stores/operation"
)

// reopen opens a fresh store over the same cache and block store (a restart).
func reopen(env *vstubodb.Env) *BaseStore {
	env2 := vstubodb.NewEnv("a", 1, "db", env.Blocks, nil)
	env2.Cache = env.Cache
	b := &BaseStore{}
	if err := b.InitBaseStore(env2.IPFS, env2.Identity, env2.Addr, env2.Options(false)); err != nil {
		vstub.Fail("InitBaseStore (reopen) failed")
		return nil
	}
	return b
}

// headTimes summarises a cached heads value by the clock times of the heads
// (identical under the interpreter and natively; used to label cache writes).
func headTimes(key string, value []byte) string {
	var heads []*entry.Entry
	if err := json.Unmarshal(value, &heads); err != nil {
		return "?"
	}
	out := ""
	for _, h := range heads {
		if h != nil && h.Clock != nil {
			out += fmt.Sprintf("t=%d;", h.Clock.Time)
		}
	}
	return out
}

// VerifC17Concurrent: W goroutines write to one store concurrently; the thread
// schedule at visible operations (locks, channel operations, cache writes,
// emits) is a decision of the path, with at most P preemptions.  Every call
// that returned success appended one distinct entry, all are listed, and all
// are still there after a restart and Load.
func VerifC17Concurrent() {
	w := vstub.Param("W", 2)
	p := vstub.Param("P", 1)
	blocks := vstub.NewBlocks(nil)
	b, env := newReplica("a", blocks, false)
	if b == nil {
		return
	}
	env.Cache.Label = headTimes
	entries := make([]ipfslog.Entry, w)
	errs := make([]error, w)
	payloads := make([][]byte, w)
	for k := 0; k < w; k++ {
		payloads[k] = vstub.NdBytes("payload", 1)
	}
	vstub.ExploreSchedules(p)
	var wg sync.WaitGroup
	for k := 0; k < w; k++ {
		wg.Add(1)
		go func(k int) {
			defer wg.Done()
			entries[k], errs[k] = b.AddOperation(context.Background(), operation.NewOperation(nil, "ADD", payloads[k]), nil)
		}(k)
	}
	wg.Wait()
	vstub.ExploreSchedules(0)
	vstub.Cover("written")
	for k := 0; k < w; k++ {
		vstub.Assert(errs[k] == nil, "C17 concurrent write succeeds")
		if errs[k] != nil {
			return
		}
		for j := 0; j < k; j++ {
			vstub.Assert(!entries[k].GetHash().Equals(entries[j].GetHash()), "C17 each successful call appended a distinct entry")
		}
		_, ok := b.OpLog().Get(entries[k].GetHash())
		vstub.Assert(ok, "C17 every acknowledged entry is in the live log")
	}
	vstub.Assert(b.OpLog().Len() == w, "C17 exactly one entry per call")
	// ... and in the VIEW (the materialised index), without any further write or load
	view := b.Index().Get("").([]ipfslog.Entry)
	vstub.Assert(len(view) == w, "C17 the view holds exactly one entry per acknowledged call")
	for k := 0; k < w; k++ {
		seen := false
		for _, e := range view {
			if e.GetHash().Equals(entries[k].GetHash()) {
				seen = true
			}
		}
		vstub.Assert(seen, "C17 every acknowledged entry is visible in the view once all calls returned")
	}
	_ = b.Close()

	r := reopen(env)
	if r == nil {
		return
	}
	if err := r.Load(context.Background(), -1); err != nil {
		vstub.Fail("C17 Load after restart failed")
		return
	}
	vstub.Cover("reloaded")
	vstub.Observe(fmt.Sprintf("live=%d reloaded=%d cache=%s", w, r.OpLog().Len(), headTimes("", env.Cache.M["/_localHeads"])))
	for k := 0; k < w; k++ {
		_, ok := r.OpLog().Get(entries[k].GetHash())
		vstub.Assert(ok, "C17 every acknowledged entry is still there after restart and load")
	}
}

// VerifC17WritersAndReplication: W goroutines write to a store while the batch
// of a remote writer is being replicated into it (real Sync -> replicator ->
// replicationLoadComplete, which persists heads too); every schedule with at
// most P preemptions.  Every acknowledged local entry and the replicated entry
// are in the live log exactly once, and after a restart and load all
// acknowledged local entries are still there.
func VerifC17WritersAndReplication() {
	w := vstub.Param("W", 2)
	p := vstub.Param("P", 1)
	blocks := vstub.NewBlocks(nil)
	b, env := openAC("a", blocks, vstubodb.WriteAll())
	if b == nil {
		return
	}
	env.Cache.Label = headTimes
	prov := vstub.NewProvider()
	w2 := vstub.NewIdentity("w2", prov)
	_, remote := appendAs(env, nil, b.id, w2, []byte("remote"))
	if remote == nil {
		return
	}
	entries := make([]ipfslog.Entry, w)
	errs := make([]error, w)
	vstub.ExploreSchedules(p)
	var wg sync.WaitGroup
	wg.Add(1)
	go func() {
		defer wg.Done()
		_ = b.Sync(context.Background(), []ipfslog.Entry{remote.Copy()})
	}()
	for k := 0; k < w; k++ {
		wg.Add(1)
		go func(k int) {
			defer wg.Done()
			entries[k], errs[k] = b.AddOperation(context.Background(), operation.NewOperation(nil, "ADD", []byte{'l', byte(k)}), nil)
		}(k)
	}
	wg.Wait()
	vstub.WaitIdle()
	vstub.ExploreSchedules(0)
	vstub.Cover("written")
	for k := 0; k < w; k++ {
		vstub.Assert(errs[k] == nil, "C17 a write concurrent with a replication succeeds")
		if errs[k] != nil {
			return
		}
		_, ok := b.OpLog().Get(entries[k].GetHash())
		vstub.Assert(ok, "C17 every acknowledged entry is in the live log")
	}
	vstub.Assert(inLog(b, remote), "C17 the replicated entry is merged while local writes go on")
	vstub.Assert(b.OpLog().Len() == w+1, "C17 exactly one entry per call plus the replicated one")
	vstub.Assert(len(b.Index().Get("").([]ipfslog.Entry)) == w+1, "C17 the view holds every acknowledged entry and the replicated one")
	_ = b.Close()
	env2 := vstubodb.NewEnv("a", 1, "db", blocks, nil)
	env2.Cache = env.Cache
	ropts := env2.Options(false)
	ropts.AccessController = vstubodb.WriteAll()
	r := &BaseStore{}
	if err := r.InitBaseStore(env2.IPFS, env2.Identity, env2.Addr, ropts); err != nil {
		vstub.Fail("InitBaseStore (reopen) failed")
		return
	}
	if err := r.Load(context.Background(), -1); err != nil {
		vstub.Fail("C17 Load after restart failed")
		return
	}
	vstub.WaitIdle()
	vstub.Cover("reloaded")
	for k := 0; k < w; k++ {
		_, ok := r.OpLog().Get(entries[k].GetHash())
		vstub.Assert(ok, "C17 every acknowledged entry is still there after restart and load (writes racing a replication)")
	}
	vstub.Assert(inLog(r, remote), "C05 the replicated entry is still there after restart and load")
}

// VerifC17Callbacks: concurrent writers that pass a PROGRESS CHANNEL
// (AddOperation's onProgressCallback), unbuffered, drained by one collector in a
// fixed order: every schedule with at most P preemptions.  Every call returns,
// each appended exactly one distinct entry, each channel received exactly its own
// call's entry, all are in log and view.
func VerifC17Callbacks() {
	w := vstub.Param("W", 2)
	p := vstub.Param("P", 1)
	blocks := vstub.NewBlocks(nil)
	b, _ := newReplica("a", blocks, false)
	if b == nil {
		return
	}
	ctx := context.Background()
	chans := make([]chan ipfslog.Entry, w)
	entries := make([]ipfslog.Entry, w)
	got := make([]ipfslog.Entry, w)
	errs := make([]error, w)
	for k := range chans {
		chans[k] = make(chan ipfslog.Entry)
	}
	vstub.ExploreSchedules(p)
	var wg sync.WaitGroup
	for k := 0; k < w; k++ {
		wg.Add(1)
		go func(k int) {
			defer wg.Done()
			entries[k], errs[k] = b.AddOperation(ctx, operation.NewOperation(nil, "ADD", []byte{'c', byte(k)}), chans[k])
		}(k)
	}
	// the collector takes the entries in a fixed order of its own
	for k := 0; k < w; k++ {
		got[k] = <-chans[k]
	}
	wg.Wait()
	vstub.ExploreSchedules(0)
	vstub.Cover("callbacks-delivered")
	for k := 0; k < w; k++ {
		vstub.Assert(errs[k] == nil && entries[k] != nil, "C17 a concurrent write with a progress channel succeeds")
		if errs[k] != nil || entries[k] == nil {
			return
		}
		vstub.Assert(got[k] != nil && got[k].GetHash().Equals(entries[k].GetHash()), "C17 a progress channel receives the entry of ITS call")
		for j := 0; j < k; j++ {
			vstub.Assert(!entries[k].GetHash().Equals(entries[j].GetHash()), "C17 each call with a progress channel appended a distinct entry")
		}
		vstub.Assert(inLog(b, entries[k]) && inView(b, entries[k]), "C17 every acknowledged entry is in log and view (progress channels)")
	}
	vstub.Assert(b.OpLog().Len() == w, "C17 exactly one entry per call (progress channels)")
}

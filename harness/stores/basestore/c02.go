package basestore

import (
	"context"

	ipfslog "berty.tech/go-ipfs-log"
	"berty.tech/go-orbit-db/iface"
	"berty.tech/go-orbit-db/internal/vstub"
	"berty.tech/go-orbit-db/internal/vstubodb"
	"berty.tech/go-orbit-db/stores/operation"
	"github.com/libp2p/go-libp2p/core/peer"
)

type c02Peer struct {
	b    *BaseStore
	env  *vstubodb.Env
	name string
	acks []ipfslog.Entry
}

func c02Open(name string, cache *vstub.Cache, peers ...*vstub.Blocks) *c02Peer {
	env := vstubodb.NewEnv(name, 1, "db", nil, nil)
	env.Blocks.Peers = peers
	if cache != nil {
		env.Cache = cache
	}
	opts := env.Options(true)
	opts.AccessController = vstubodb.WriteAll()
	b := &BaseStore{}
	if err := b.InitBaseStore(env.IPFS, env.Identity, env.Addr, opts); err != nil {
		vstub.Fail("InitBaseStore failed")
		return nil
	}
	return &c02Peer{b: b, env: env, name: name}
}

func (p *c02Peer) topic() *vstubodb.Topic { return p.env.PubSub.Topics[p.b.id] }

// deliver hands a head-exchange payload to the receiving instance the way
// baseorbitdb's direct-channel / pubsub handlers do: decode, then Sync.
func (p *c02Peer) deliver(payload []byte) {
	msg := &iface.MessageExchangeHeads{}
	if err := p.b.messageMarshaler.Unmarshal(payload, msg); err != nil {
		vstub.Fail("C02 payload does not decode")
		return
	}
	heads := make([]ipfslog.Entry, len(msg.Heads))
	for i, h := range msg.Heads {
		heads[i] = h
	}
	if len(heads) > 0 {
		_ = p.b.Sync(context.Background(), heads)
	}
}

func (p *c02Peer) write(tag byte) {
	e, err := p.b.AddOperation(context.Background(), operation.NewOperation(nil, "ADD", []byte{tag, vstub.NdByte("val")}), nil)
	if err != nil {
		vstub.Fail("C02 AddOperation failed")
		return
	}
	p.acks = append(p.acks, e)
}

// VerifC02Heal: two replicas write while announcements between them are
// delivered or lost (symbolic fault plan) and one of them may restart; then
// writes stop, the link heals — each side observes the other joining the topic —
// and every exchanged-heads message is delivered.  At quiescence both replicas
// hold every acknowledged write and list the same entries in the same order.
func VerifC02Heal() {
	steps := vstub.Param("STEPS", 3)
	a := c02Open("a", nil)
	if a == nil {
		return
	}
	b := c02Open("b", nil, a.env.Blocks)
	if b == nil {
		return
	}
	a.env.Blocks.Peers = []*vstub.Blocks{b.env.Blocks}
	// while connected, each topic has the other as its peer (so writes are announced)
	a.topic().PeerList = []peer.ID{b.env.IPFS.Peer}
	b.topic().PeerList = []peer.ID{a.env.IPFS.Peer}

	announce := func(from, to *c02Peer) {
		// the announcement published for the last write: delivered or lost
		t := from.topic()
		vstub.WaitIdle()
		n := t.NumPublished()
		vstub.Assert(n > 0, "C02 a successful write is announced on the store's topic while a peer is present")
		if n == 0 {
			return
		}
		if vstub.NdChoice("deliver", 2) == 1 {
			to.deliver(t.Published[n-1])
			vstub.WaitIdle()
			vstub.Cover("announcement-delivered")
		} else {
			vstub.Cover("announcement-lost")
		}
	}
	for s := 0; s < steps; s++ {
		switch vstub.NdChoice("step", 3) {
		case 0:
			a.write('a')
			announce(a, b)
		case 1:
			b.write('b')
			announce(b, a)
		case 2:
			// a restarts: in-memory state dropped, cache and blocks kept
			_ = a.b.Close()
			vstub.WaitIdle()
			acks := a.acks
			blocks := a.env.Blocks
			a2 := c02Open("a", a.env.Cache, b.env.Blocks)
			if a2 == nil {
				return
			}
			a2.env.Blocks = blocks
			a2.env.IO.B = blocks
			a2.acks = acks
			if err := a2.b.Load(context.Background(), -1); err != nil {
				vstub.Fail("C02 Load after restart failed")
				return
			}
			a2.topic().PeerList = []peer.ID{b.env.IPFS.Peer}
			a = a2
			b.env.Blocks.Peers = []*vstub.Blocks{blocks}
			vstub.Cover("restart")
		}
	}
	// ---- writes stop, links heal: each side observes the other joining its topic
	a.topic().PeersCh <- &iface.EventPubSubJoin{Topic: a.b.id, Peer: b.env.IPFS.Peer}
	b.topic().PeersCh <- &iface.EventPubSubJoin{Topic: b.b.id, Peer: a.env.IPFS.Peer}
	vstub.WaitIdle()
	sentA, sentB := a.env.Direct.Sent, b.env.Direct.Sent
	vstub.Assert(len(sentA) == 1, "C02 a peer that sees another join sends it its heads (a)")
	vstub.Assert(len(sentB) == 1, "C02 a peer that sees another join sends it its heads (b)")
	for _, m := range sentA {
		b.deliver(m.Data)
	}
	for _, m := range sentB {
		a.deliver(m.Data)
	}
	vstub.WaitIdle()
	vstub.Cover("healed")
	for _, e := range a.acks {
		vstub.Assert(inLog(a.b, e), "C02 every acknowledged write is held by its writer (a)")
		vstub.Assert(inLog(b.b, e), "C02 after the heal b holds every acknowledged write of a")
	}
	for _, e := range b.acks {
		vstub.Assert(inLog(a.b, e), "C02 after the heal a holds every acknowledged write of b")
	}
	vstub.Assert(len(a.b.Index().Get("").([]ipfslog.Entry)) == a.b.OpLog().Len(), "C02 after the heal the view of a shows what its log holds")
	vstub.Assert(len(b.b.Index().Get("").([]ipfslog.Entry)) == b.b.OpLog().Len(), "C02 after the heal the view of b shows what its log holds")
	ha, hb := hashesOf(a.b), hashesOf(b.b)
	vstub.Assert(vstubodb.SameStrings(ha, hb), "C02 after the heal both replicas show the same state")
}

func hashesOf(b *BaseStore) []string {
	var out []string
	for _, e := range b.OpLog().Values().Slice() {
		out = append(out, e.GetHash().String())
	}
	return out
}

package basestore

import (
	"context"

	ipfslog "berty.tech/go-ipfs-log"
	"berty.tech/go-orbit-db/internal/vstub"
	"berty.tech/go-orbit-db/stores/operation"
)

// VerifC19Refused: an announcement that Sync refuses AS A WHOLE (one of its heads
// does not hash to its claimed address) next to a genuine, newer head, in either
// order, after 0..2 entries were replicated normally.  Nothing of a refused
// announcement is fetched, so at rest the status must still describe what the
// replica holds (progress == maximum, between the largest Lamport time and the
// entry count); the genuine head announced alone afterwards replicates and the
// status follows.
func VerifC19Refused() {
	blocks := vstub.NewBlocks(nil)
	a, _ := openWith("a", blocks, nil, nil)
	b, _ := openWith("b", blocks, nil, nil)
	if a == nil || b == nil {
		return
	}
	ctx := context.Background()
	held := vstub.NdChoice("held", 3)
	for k := 0; k < held; k++ {
		if _, err := b.AddOperation(ctx, operation.NewOperation(nil, "ADD", []byte{'h', byte(k)}), nil); err != nil {
			vstub.Fail("C19 AddOperation failed")
			return
		}
	}
	if held > 0 {
		_ = a.Sync(ctx, b.OpLog().Heads().Slice())
		vstub.WaitIdle()
	}
	if vstub.NdChoice("own-write", 2) == 1 {
		_, _ = a.AddOperation(ctx, operation.NewOperation(nil, "ADD", []byte("own")), nil)
	}
	statusOK(a, "before the refused announcement")
	p0, m0 := a.ReplicationStatus().GetProgress(), a.ReplicationStatus().GetMax()
	newer := 1 + vstub.NdChoice("newer", 2)
	var genuine ipfslog.Entry
	for k := 0; k < newer; k++ {
		e, err := b.AddOperation(ctx, operation.NewOperation(nil, "ADD", []byte{'n', byte(k)}), nil)
		if err != nil {
			vstub.Fail("C19 AddOperation failed")
			return
		}
		genuine = e
	}
	bad := genuine.Copy()
	bad.SetPayload([]byte("altered")) // keeps the genuine entry's address: its content no longer hashes to it
	ann := []ipfslog.Entry{genuine.Copy(), bad}
	if vstub.NdChoice("bad-first", 2) == 1 {
		ann = []ipfslog.Entry{bad, genuine.Copy()}
	}
	err := a.Sync(ctx, ann)
	vstub.WaitIdle()
	if err != nil {
		vstub.Cover("announcement-refused")
	}
	if !inLog(a, genuine) {
		// nothing was fetched: the replica is at rest with what it held before
		vstub.Cover("nothing-fetched")
		statusOK(a, "after a refused announcement")
	}
	vstub.Assert(a.ReplicationStatus().GetProgress() >= p0 && a.ReplicationStatus().GetMax() >= m0, "C19 the status never decreases (refused announcement)")
	// the genuine head alone replicates, and the status follows
	if err := a.Sync(ctx, []ipfslog.Entry{genuine.Copy()}); err != nil {
		vstub.Fail("C19 Sync of the genuine head failed")
		return
	}
	vstub.WaitIdle()
	vstub.Assert(inLog(a, genuine), "C10 the genuine head replicates after the refused announcement")
	statusOK(a, "after the genuine head replicated")
	vstub.Cover("genuine-replicated")
}

package basestore

import (
	"context"

	ipfslog "berty.tech/go-ipfs-log"
	"berty.tech/go-ipfs-log/entry"
	"berty.tech/go-orbit-db/internal/vstub"
	"berty.tech/go-orbit-db/internal/vstubodb"
	"berty.tech/go-orbit-db/stores"
	cid "github.com/ipfs/go-cid"
)

// VerifC09Starved: 1..D databases of one process (default 2) are each handed 1, 33
// or K heads (default 40: more than a store's fetch concurrency) whose parents no provider
// ever answers for, so their replicators stay busy for good.  Another database B
// of the same process is then handed an ordinary head: it replicates it, its
// status and its replicated event are those of its own log; the stuck databases
// keep what they hold.  (Capacity shared by the databases of a process must not
// let some of them hold up the others.)
func VerifC09Starved() {
	d := 1 + vstub.NdChoice("stuck-databases", vstub.Param("D", 2))
	k := []int{1, 33, vstub.Param("K", 40)}[vstub.NdChoice("heads-per-stuck-database", 3)]
	blocks := vstub.NewBlocks(nil)
	prov := vstub.NewProvider()
	w := vstub.NewIdentity("w", prov)
	ctx := context.Background()
	stuck := make([]*BaseStore, d)
	for j := 0; j < d; j++ {
		s, env := openWithCid("a", 10+j, blocks)
		if s == nil {
			return
		}
		stuck[j] = s
		var heads []ipfslog.Entry
		for h := 0; h < k; h++ {
			parent := vstub.MkCid(1000 + 100*j + h)
			blocks.Hang[vstub.BlockKey(parent)] = true
			e, err := entry.CreateEntryWithIO(ctx, env.IPFS, w, &entry.Entry{
				LogID: s.id, Payload: []byte{'s', byte(j), byte(h)}, Next: []cid.Cid{parent},
				Clock: entry.NewLamportClock(w.PublicKey, 2),
			}, nil, env.IO)
			if err != nil {
				vstub.Fail("C09 CreateEntryWithIO failed")
				return
			}
			heads = append(heads, e)
		}
		if err := s.Sync(ctx, heads); err != nil {
			vstub.Fail("C09 Sync failed")
			return
		}
		vstub.WaitIdle()
	}
	vstub.Cover("databases-stuck")
	b, envB := openWithCid("a", 3, blocks)
	if b == nil {
		return
	}
	replicated := 0
	if hb, ok := envB.Bus.(*vstub.HookBus); ok {
		hb.OnEmit = func(evt interface{}) {
			if _, is := evt.(stores.EventReplicated); is {
				replicated++
			}
		}
	}
	_, head := appendAs(envB, nil, b.id, w, []byte("for-B"))
	if head == nil {
		return
	}
	if err := b.Sync(ctx, []ipfslog.Entry{head.Copy()}); err != nil {
		vstub.Fail("C09 Sync failed")
		return
	}
	vstub.WaitIdle()
	vstub.Assert(inLog(b, head), "C09 a database replicates its head while other databases of the process are stuck on unfetchable entries")
	rs := b.ReplicationStatus()
	vstub.Assert(rs.GetProgress() == 1 && rs.GetMax() == 1, "C09/C19 the replication status of a database describes its own log while other databases are stuck")
	vstub.Assert(replicated == 1, "C09/C16 the database announces its merged batch while other databases are stuck")
	vstub.Assert(len(b.Replicator().GetQueue()) == 0, "C09 nothing stays queued in a database whose entries are all fetchable")
	for j := 0; j < d; j++ {
		vstub.Assert(stuck[j].OpLog().Len() == 0, "C09 a stuck database shows nothing of another database")
	}
	vstub.Cover("other-database-replicated")
	for j := 0; j < d; j++ {
		_ = stuck[j].Close()
	}
	_ = b.Close()
	vstub.WaitIdle()
	vstub.Assert(vstub.LiveThreads("berty.tech/go-orbit-db/stores") == 0, "C18 closing the stuck databases ends their pending fetches")
	_ = vstubodb.WriteAll
}

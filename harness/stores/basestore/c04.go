package basestore

import (
	"context"

	ipfslog "berty.tech/go-ipfs-log"
	"berty.tech/go-ipfs-log/entry"
	"berty.tech/go-orbit-db/internal/vstub"
	"berty.tech/go-orbit-db/internal/vstubodb"
	cid "github.com/ipfs/go-cid"
)

// VerifC04Tampered: a valid entry of an authorised writer is mutated in one
// field of its wire form (payload, clock time, clock id, next, refs, key,
// signature, log id, or only the claimed address), either keeping the original
// claimed address (mis-addressed) or re-addressed by the tamperer, and delivered
// as an announced head or as the ancestor of a valid head.  It is never merged,
// and the valid entries the replica already holds are unaffected.
func VerifC04Tampered() {
	blocks := vstub.NewBlocks(nil)
	prov := vstub.NewProvider()
	w := vstub.NewIdentity("w", prov)
	a, env := openAC("a", blocks, vstubodb.Writers(vstub.IDOf("a"), vstub.IDOf("w")))
	if a == nil {
		return
	}
	lw, honest := appendAs(env, nil, a.id, w, []byte("honest"))
	if honest == nil {
		return
	}
	if err := a.Sync(context.Background(), []ipfslog.Entry{honest.Copy()}); err != nil {
		vstub.Fail("C04 honest Sync failed")
		return
	}
	vstub.WaitIdle()
	// the entry that will be tampered with: the writer's next entry (never delivered untampered)
	_, victim := appendAs(env, lw, a.id, w, []byte("victim"))
	if victim == nil {
		return
	}
	t := victim.Copy()
	field := vstub.NdChoice("field", 10)
	switch field {
	case 0:
		t.SetPayload(append([]byte{vstub.NdByte("newPayload")}, victim.GetPayload()...))
	case 1:
		nt := vstub.NdInt("newTime")
		vstub.Assume(nt != victim.GetClock().GetTime())
		t.SetClock(entry.NewLamportClock(victim.GetClock().GetID(), nt))
	case 2:
		t.SetClock(entry.NewLamportClock([]byte("pk-other"), victim.GetClock().GetTime()))
	case 3:
		t.SetNext([]cid.Cid{vstub.MkCid(55)})
	case 4:
		t.SetRefs([]cid.Cid{vstub.MkCid(56)})
	case 5:
		t.SetKey([]byte("pk-other"))
	case 6:
		t.SetSig([]byte("garbage"))
	case 7:
		t.SetLogID("/orbitdb/other/db")
	case 8:
		// only the claimed address is changed
	}
	readdressed := false
	if field == 9 {
		// the claimed address is an ALIAS of the genuine one: same multihash digest,
		// another codec (raw instead of dag-cbor); block stores are keyed by digest
		t.SetHash(cid.NewCidV1(cid.Raw, victim.GetHash().Hash()))
		vstub.Cover("codec-alias")
	} else if field == 8 {
		t.SetHash(vstub.MkCid(57))
	} else if vstub.NdChoice("readdress", 2) == 1 {
		readdressed = true
		if readdress(env, t) == nil {
			return
		}
	}
	// delivery: as an announced head, or as the ancestor of a valid head (then the
	// link of that head is the claimed address: a re-addressed entry's own address,
	// or the codec ALIAS of the genuine entry's address)
	route := 0
	if readdressed || field == 9 {
		route = vstub.NdChoice("route", 3)
	} else if field == 8 && vstub.NdChoice("twin-block", 2) == 1 {
		// a TWIN block: the block store holds, under another well-formed address, a
		// block that decodes to the genuine entry (a non-canonical encoding of it has
		// another digest); a valid head links that address.  The replicator has
		// already verified an honestly fetched entry before.
		stored := victim.Copy()
		stored.SetHash(cid.Cid{})
		blocks.Put(t.GetHash(), stored)
		route = 1 + vstub.NdChoice("twin-link", 2)
		vstub.Cover("twin-block-through-link")
	}
	asAncestor := route != 0
	if asAncestor {
		next, refs := []cid.Cid{t.GetHash()}, []cid.Cid{}
		if route == 2 {
			// reached through refs only, while the head's next entry is one the replica
			// ALREADY HOLDS (so that nothing fetched names the tampered entry in next)
			next, refs = []cid.Cid{honest.GetHash()}, []cid.Cid{t.GetHash()}
			vstub.Cover("as-refs-ancestor-behind-held-entries")
		}
		top, err := entry.CreateEntryWithIO(context.Background(), env.IPFS, w, &entry.Entry{
			LogID: a.id, Payload: []byte("top"), Next: next, Refs: refs,
			Clock: entry.NewLamportClock(w.PublicKey, 9),
		}, nil, env.IO)
		if err != nil {
			vstub.Fail("C04 CreateEntryWithIO failed")
			return
		}
		_ = a.Sync(context.Background(), []ipfslog.Entry{top.Copy()})
		vstub.Cover("as-ancestor")
	} else {
		_ = a.Sync(context.Background(), []ipfslog.Entry{t.Copy()})
		vstub.Cover("as-head")
	}
	vstub.WaitIdle()
	vstub.Assert(!inLog(a, t), "C04 a tampered, mis-addressed or foreign entry is never merged")
	for _, e := range a.OpLog().Values().Slice() {
		// nothing with the tampered content got in under any address
		if string(e.GetPayload()) == string(t.GetPayload()) && field == 0 {
			vstub.Fail("C04 tampered payload present in the log")
		}
	}
	vstub.Assert(inLog(a, honest), "C04 valid entries already held are unaffected")
	// and the untampered original is still acceptable afterwards
	if err := a.Sync(context.Background(), []ipfslog.Entry{victim.Copy()}); err != nil {
		vstub.Fail("C04 honest Sync of the original returned an error")
	}
	vstub.WaitIdle()
	vstub.Assert(inLog(a, victim), "C04/C10 the untampered original still replicates afterwards")
}

// onlyOwn asserts that everything the store lists, heads or serves belongs to its own database.
func onlyOwn(b *BaseStore, when string) {
	for _, e := range b.OpLog().Values().Slice() {
		vstub.Assert(e.GetLogID() == b.id, "C04 an entry written for another database is never listed ("+when+")")
	}
	for _, e := range b.OpLog().Heads().Slice() {
		vstub.Assert(e.GetLogID() == b.id, "C04 an entry written for another database never becomes a head ("+when+")")
	}
	for _, e := range b.Index().Get("").([]ipfslog.Entry) {
		vstub.Assert(e.GetLogID() == b.id, "C04 an entry written for another database is never served ("+when+")")
	}
}

// VerifC04ForeignChain: a VALID entry of an authorised writer of database A
// links (through refs, next, or both) to the head of a chain of F entries that
// were written - validly - for ANOTHER database B.  However the entry reaches a
// replica of A (announced head; then restart + load from its own disk, where
// the whole ancestry is fetched as ONE log; or a fresh replica synced from it),
// no entry of B is ever listed, becomes a head or is served, and A's valid
// entries stay.
func VerifC04ForeignChain() {
	maxF := vstub.Param("F", 3)
	blocks := vstub.NewBlocks(nil)
	prov := vstub.NewProvider()
	w := vstub.NewIdentity("w", prov)
	ac := vstubodb.Writers(vstub.IDOf("a"), vstub.IDOf("w"))
	a, env := openAC("a", blocks, ac)
	if a == nil {
		return
	}
	ctx := context.Background()
	// A's own history by the writer: a chain of 1..H valid entries
	own := 1 + vstub.NdChoice("own-len", vstub.Param("H", 3))
	var lw *ipfslog.IPFSLog
	var honest ipfslog.Entry
	for k := 0; k < own; k++ {
		lw, honest = appendAs(env, lw, a.id, w, []byte{'h', byte('0' + k)})
		if honest == nil {
			return
		}
	}
	// database B: a chain of F entries by the same writer (valid there)
	f := 1 + vstub.NdChoice("foreign-len", maxF)
	var lb *ipfslog.IPFSLog
	var foreignHead ipfslog.Entry
	// the other database's entries were written by the same remote writer, or by the
	// LOCAL replica's own identity (one instance uses one identity for every database
	// it opens): they are another database's entries all the same
	foreignAuthor := w
	if vstub.NdChoice("foreign-author-is-local", 2) == 1 {
		foreignAuthor = env.Identity
		vstub.Cover("foreign-entries-by-the-local-identity")
	}
	for k := 0; k < f; k++ {
		lb, foreignHead = appendAs(env, lb, "/orbitdb/other/db", foreignAuthor, []byte{'f', byte('0' + k)})
		if foreignHead == nil {
			return
		}
	}
	next := []cid.Cid{honest.GetHash()}
	refs := []cid.Cid{}
	switch vstub.NdChoice("link", 3) {
	case 0:
		refs = []cid.Cid{foreignHead.GetHash()}
		vstub.Cover("via-refs")
	case 1:
		next = []cid.Cid{honest.GetHash(), foreignHead.GetHash()}
		vstub.Cover("via-next")
	case 2:
		next = []cid.Cid{foreignHead.GetHash(), honest.GetHash()}
		refs = []cid.Cid{foreignHead.GetHash()}
		vstub.Cover("via-next")
	}
	topTime := foreignHead.GetClock().GetTime() + 1
	if honest.GetClock().GetTime() >= topTime {
		topTime = honest.GetClock().GetTime() + 1
	}
	top, err := entry.CreateEntryWithIO(ctx, env.IPFS, w, &entry.Entry{
		LogID: a.id, Payload: []byte("top"), Next: next, Refs: refs,
		Clock: entry.NewLamportClock(w.PublicKey, topTime),
	}, nil, env.IO)
	if err != nil {
		vstub.Fail("C04 CreateEntryWithIO failed")
		return
	}
	_ = a.Sync(ctx, []ipfslog.Entry{top.Copy()})
	vstub.WaitIdle()
	onlyOwn(a, "after replication")
	vstub.Assert(inLog(a, honest), "C04 valid entries are merged although a sibling link leads to another database")

	switch vstub.NdChoice("then", 5) {
	case 0:
	case 1:
		// restart: the whole ancestry of the cached heads is fetched as one log
		_ = a.Close()
		vstub.WaitIdle()
		env2 := vstubodb.NewEnv("a", 1, "db", blocks, nil)
		env2.Cache = env.Cache
		opts := env2.Options(false)
		opts.AccessController = ac
		r := &BaseStore{}
		if err := r.InitBaseStore(env2.IPFS, env2.Identity, env2.Addr, opts); err != nil {
			vstub.Fail("InitBaseStore failed")
			return
		}
		if err := r.Load(ctx, -1); err != nil {
			vstub.Fail("C04 Load after restart failed")
			return
		}
		vstub.WaitIdle()
		vstub.Cover("restarted")
		onlyOwn(r, "after restart and load")
		vstub.Assert(inLog(r, honest), "C04 valid entries are still there after restart and load")
	case 2:
		// a fresh replica receives a's heads
		r, _ := openAC("r", blocks, ac)
		if r == nil {
			return
		}
		var heads []ipfslog.Entry
		for _, h := range a.OpLog().Heads().Slice() {
			heads = append(heads, h.Copy())
		}
		_ = r.Sync(ctx, heads)
		vstub.WaitIdle()
		vstub.Cover("relayed")
		onlyOwn(r, "on a replica synced from this one")
	case 3:
		// a load limited to the n most recent entries on the live store, which holds
		// more than n: the second, trimming pass of the join sees the fetched log again
		n := 1 + vstub.NdChoice("amount", 3)
		if err := a.Load(ctx, n); err != nil {
			vstub.Fail("C04 trimmed Load failed")
			return
		}
		vstub.WaitIdle()
		vstub.Cover("trimmed-load")
		onlyOwn(a, "after a trimmed load")
	case 4:
		// restart, then a trimmed load followed by a full one
		_ = a.Close()
		vstub.WaitIdle()
		env2 := vstubodb.NewEnv("a", 1, "db", blocks, nil)
		env2.Cache = env.Cache
		opts := env2.Options(false)
		opts.AccessController = ac
		r := &BaseStore{}
		if err := r.InitBaseStore(env2.IPFS, env2.Identity, env2.Addr, opts); err != nil {
			vstub.Fail("InitBaseStore failed")
			return
		}
		if err := r.Load(ctx, -1); err != nil {
			vstub.Fail("C04 Load after restart failed")
			return
		}
		n := 1 + vstub.NdChoice("amount", 3)
		if err := r.Load(ctx, n); err != nil {
			vstub.Fail("C04 trimmed Load after restart failed")
			return
		}
		vstub.WaitIdle()
		vstub.Cover("trimmed-load-after-restart")
		onlyOwn(r, "after restart, load and a trimmed load")
	}
}

package basestore

import (
	"context"

	ipfslog "berty.tech/go-ipfs-log"
	"berty.tech/go-ipfs-log/entry"
	"berty.tech/go-orbit-db/internal/vstub"
	cid "github.com/ipfs/go-cid"
)

// VerifC13ForeignRef: the saved log holds a replicated entry of an authorised
// writer that LINKS (refs, next, or both) to entries validly written for another
// database.  The live replica lists none of them.  It saves a snapshot; a fresh
// instance loads it - which rebuilds the log by following the heads' links in the
// block store, where the other database's entries are - and must reconstruct
// exactly the same log and heads: no entry of the other database, no extra head.
func VerifC13ForeignRef() {
	blocks := vstub.NewBlocks(nil)
	a, env := c13Open("a", blocks, nil, nil)
	if a == nil {
		return
	}
	prov := vstub.NewProvider()
	w := vstub.NewIdentity("w", prov)
	ctx := context.Background()
	own := 1 + vstub.NdChoice("own-len", 2)
	var lw *ipfslog.IPFSLog
	var honest ipfslog.Entry
	for k := 0; k < own; k++ {
		lw, honest = appendAs(env, lw, a.id, w, []byte{'h', byte('0' + k)})
		if honest == nil {
			return
		}
	}
	f := 1 + vstub.NdChoice("foreign-len", 2)
	var lb *ipfslog.IPFSLog
	var foreignHead ipfslog.Entry
	for k := 0; k < f; k++ {
		lb, foreignHead = appendAs(env, lb, "/orbitdb/other/db", w, []byte{'f', byte('0' + k)})
		if foreignHead == nil {
			return
		}
	}
	next := []cid.Cid{honest.GetHash()}
	refs := []cid.Cid{}
	switch vstub.NdChoice("link", 3) {
	case 0:
		refs = []cid.Cid{foreignHead.GetHash()}
		vstub.Cover("via-refs")
	case 1:
		next = []cid.Cid{honest.GetHash(), foreignHead.GetHash()}
		vstub.Cover("via-next")
	case 2:
		next = []cid.Cid{foreignHead.GetHash(), honest.GetHash()}
		refs = []cid.Cid{foreignHead.GetHash()}
		vstub.Cover("via-next")
	}
	topTime := foreignHead.GetClock().GetTime() + 1
	if honest.GetClock().GetTime() >= topTime {
		topTime = honest.GetClock().GetTime() + 1
	}
	top, err := entry.CreateEntryWithIO(ctx, env.IPFS, w, &entry.Entry{
		LogID: a.id, Payload: []byte("top"), Next: next, Refs: refs,
		Clock: entry.NewLamportClock(w.PublicKey, topTime),
	}, nil, env.IO)
	if err != nil {
		vstub.Fail("C13 CreateEntryWithIO failed")
		return
	}
	_ = a.Sync(ctx, []ipfslog.Entry{top.Copy()})
	vstub.WaitIdle()
	if vstub.NdChoice("own-write-after", 2) == 1 {
		addN(&a.BaseStore, 1, 'a')
	}
	onlyOwn(&a.BaseStore, "before the snapshot")
	if a.OpLog().Len() == 0 {
		return
	}
	if _, err := SaveSnapshot(ctx, a); err != nil {
		vstub.Cover("save-refused")
		return
	}
	vstub.Cover("saved")
	r, _ := c13Open("a", blocks, env.Cache, env.IPFS.Files)
	if r == nil {
		return
	}
	if err := r.LoadFromSnapshot(ctx); err != nil {
		vstub.Fail("C13 a snapshot that was saved successfully does not load (a replicated entry links to another database)")
		return
	}
	vstub.WaitIdle()
	vstub.Cover("loaded")
	onlyOwn(&r.BaseStore, "after loading the snapshot")
	vstub.Assert(sameHashes(hashesOf(&a.BaseStore), hashesOf(&r.BaseStore)), "C13 the reloaded log is exactly the saved log (a replicated entry links to another database)")
	ha, hr := a.OpLog().Heads().Slice(), r.OpLog().Heads().Slice()
	vstub.Assert(len(ha) == len(hr), "C13 the reloaded heads are exactly the saved heads (count)")
	for _, h := range hr {
		found := false
		for _, g := range ha {
			if g.GetHash().Equals(h.GetHash()) {
				found = true
			}
		}
		vstub.Assert(found, "C13 the reloaded heads are exactly the saved heads")
	}
}

func sameHashes(a, b []string) bool {
	if len(a) != len(b) {
		return false
	}
	for k := range a {
		if a[k] != b[k] {
			return false
		}
	}
	return true
}

package basestore

import (
	"context"

	ipfslog "berty.tech/go-ipfs-log"
	"berty.tech/go-ipfs-log/entry"
	idp "berty.tech/go-ipfs-log/identityprovider"
	logiface "berty.tech/go-ipfs-log/iface"
	"berty.tech/go-orbit-db/internal/vstub"
	"berty.tech/go-orbit-db/internal/vstubodb"
	"berty.tech/go-orbit-db/stores/operation"
	cid "github.com/ipfs/go-cid"
)

// readdress recomputes the content address of a (modified) entry, as anybody can.
func readdress(env *vstubodb.Env, e logiface.IPFSLogEntry) logiface.IPFSLogEntry {
	e.SetHash(cid.Cid{})
	h, err := env.IO.Write(context.Background(), env.IPFS, e, nil)
	if err != nil {
		vstub.Fail("IO.Write failed")
		return nil
	}
	e.SetHash(h)
	return e
}

// VerifC03Forged: a replica with an explicit write list [a, w] receives an entry
// made by mallory (not listed), whose author fields are forged in every way a
// Dolev-Yao attacker can: identity block own / own with the writer's id / a
// copy of the writer's block; key own / the writer's; signature own over the
// content / copied from an honest entry of the writer / garbage.  The entry is
// re-addressed and delivered as an announced head or as the ancestor of a
// colluding writer's entry.  It must never become part of the log or view.
// (mallory cannot sign with the writer's key, so none of these entries is
// authored by a writer.)
func VerifC03Forged() {
	blocks := vstub.NewBlocks(nil)
	prov := vstub.NewProvider()
	w := vstub.NewIdentity("w", prov)
	m := vstub.NewIdentity("mallory", prov)
	ac := vstubodb.Writers(vstub.IDOf("a"), vstub.IDOf("w"))
	a, env := openAC("a", blocks, ac)
	if a == nil {
		return
	}
	// an honest entry of the writer, already replicated (its signature is public)
	lw, honest := appendAs(env, nil, a.id, w, []byte("honest"))
	if honest == nil {
		return
	}
	if err := a.Sync(context.Background(), []ipfslog.Entry{honest.Copy()}); err != nil {
		vstub.Fail("C03 honest Sync failed")
		return
	}
	vstub.WaitIdle()
	vstub.Assert(inLog(a, honest), "C03 an authorised writer's entry is accepted")

	// mallory's entry, on top of the honest one (so clocks/next look plausible)
	lm, _ := ipfslog.NewLog(env.IPFS, m, &ipfslog.LogOptions{ID: a.id, IO: env.IO})
	if _, err := lm.Join(lw, -1); err != nil {
		vstub.Fail("C03 attacker could not read the log")
		return
	}
	_, base := appendAs(env, lm, a.id, m, []byte("evil"))
	if base == nil {
		return
	}
	f := base.Copy()
	idKind := vstub.NdChoice("identity", 3)
	switch idKind {
	case 0: // own identity block
	case 1: // own block, id replaced by the writer's
		sigs := m.Signatures
		switch vstub.NdChoice("id-signatures", 5) {
		case 3: // the writer's id signature copied (it travels in every entry of the writer), the attacker's own voucher
			sigs = &idp.IdentitySignature{ID: w.Signatures.ID, PublicKey: m.Signatures.PublicKey}
		case 4: // both of the writer's signatures copied, under the attacker's key
			sigs = &idp.IdentitySignature{ID: w.Signatures.ID, PublicKey: w.Signatures.PublicKey}
		case 0: // the attacker's own signatures, as they are
		case 1: // the id re-signed with the attacker's key (it can sign anything with its own key), the writer's voucher copied
			sigs = &idp.IdentitySignature{ID: vstub.SignToken(m.PublicKey, []byte(w.ID)), PublicKey: w.Signatures.PublicKey}
		case 2: // the id re-signed with the attacker's key, the attacker's own voucher
			sigs = &idp.IdentitySignature{ID: vstub.SignToken(m.PublicKey, []byte(w.ID)), PublicKey: m.Signatures.PublicKey}
		}
		f.SetIdentity(&idp.Identity{ID: w.ID, PublicKey: m.PublicKey, Signatures: sigs, Type: m.Type})
	case 2: // a copy of the writer's identity block
		f.SetIdentity(w.Filtered())
	}
	keyKind := vstub.NdChoice("key", 2)
	if keyKind == 1 {
		f.SetKey(w.PublicKey)
	}
	sigKind := vstub.NdChoice("sig", 3)
	switch sigKind {
	case 0: // mallory's own signature over the content (what Append produced)
	case 1:
		f.SetSig(honest.GetSig())
	case 2:
		f.SetSig([]byte("garbage"))
	}
	if keyKind == 1 {
		// the clock id normally equals the signing key; the attacker may align it too
		if vstub.NdChoice("clockId", 2) == 1 {
			f.SetClock(entry.NewLamportClock(w.PublicKey, f.GetClock().GetTime()))
		}
	}
	forged := readdress(env, f)
	if forged == nil {
		return
	}
	// naming a writer's id (own block with the id swapped, or a copy of the writer's block)
	// while signing with one's own key: the identity's signature chain does not hold
	if idKind != 0 && keyKind == 0 && sigKind == 0 {
		vstub.Cover("id-swap")
	}

	// optionally the attacker first announces a COPY of the writer's genuine entry whose
	// claimed address is the forged entry's: it is refused (the content does not hash to
	// it), and whatever verdict was computed on the way must not stick to that address
	if vstub.NdChoice("spoofed-address-first", 2) == 1 {
		sp := honest.Copy()
		sp.SetHash(forged.GetHash())
		_ = a.Sync(context.Background(), []ipfslog.Entry{sp})
		vstub.WaitIdle()
		vstub.Cover("spoofed-address-first")
	}
	route := vstub.NdChoice("route", 3)
	if route == 2 {
		// the attacker's own, honestly signed entry but written under ANOTHER log id,
		// referenced (refs, not next) by a colluding writer's entry of this database
		if idKind != 0 || keyKind != 0 || sigKind != 0 {
			return
		}
		_, foreign := appendAs(env, nil, "/orbitdb/other/db", m, []byte("evil-foreign"))
		if foreign == nil {
			return
		}
		forged = foreign
		top, err := entry.CreateEntryWithIO(context.Background(), env.IPFS, w, &entry.Entry{
			LogID: a.id, Payload: []byte("top"), Next: []cid.Cid{honest.GetHash()}, Refs: []cid.Cid{foreign.GetHash()},
			Clock: entry.NewLamportClock(w.PublicKey, honest.GetClock().GetTime()+1),
		}, nil, env.IO)
		if err != nil {
			vstub.Fail("C03 CreateEntryWithIO failed")
			return
		}
		_ = a.Sync(context.Background(), []ipfslog.Entry{top.Copy()})
		vstub.Cover("as-foreign-ref")
	} else if route == 0 {
		_ = a.Sync(context.Background(), []ipfslog.Entry{forged.Copy()})
		vstub.Cover("as-head")
	} else {
		// a colluding authorised writer references the forged entry as its parent
		top, err := entry.CreateEntryWithIO(context.Background(), env.IPFS, w, &entry.Entry{
			LogID: a.id, Payload: []byte("top"), Next: []cid.Cid{forged.GetHash()}, Refs: []cid.Cid{},
			Clock: entry.NewLamportClock(w.PublicKey, forged.GetClock().GetTime()+1),
		}, nil, env.IO)
		if err != nil {
			vstub.Fail("C03 CreateEntryWithIO failed")
			return
		}
		_ = a.Sync(context.Background(), []ipfslog.Entry{top.Copy()})
		vstub.Cover("as-ancestor")
	}
	vstub.WaitIdle()
	vstub.Assert(!inLog(a, forged), "C03 an entry not signed by a listed writer never enters the log")
	for _, e := range a.Index().Get("").([]ipfslog.Entry) {
		vstub.Assert(!e.GetHash().Equals(forged.GetHash()), "C03 an entry not signed by a listed writer never becomes visible")
	}
	vstub.Assert(inLog(a, honest), "C03/C04 valid entries already held are unaffected")
	// ... and not after a RESTART either: the refused entry is still in the local block
	// store and may be reachable from a cached head's links; a fresh store over the
	// same cache and blocks runs the real Load
	_ = a.Close()
	vstub.WaitIdle()
	env2 := vstubodb.NewEnv("a", 1, "db", blocks, nil)
	env2.Cache = env.Cache
	opts2 := env2.Options(false)
	opts2.AccessController = ac
	r := &BaseStore{}
	if err := r.InitBaseStore(env2.IPFS, env2.Identity, env2.Addr, opts2); err != nil {
		vstub.Fail("InitBaseStore (restart) failed")
		return
	}
	_ = r.Load(context.Background(), -1) // may report an error
	vstub.WaitIdle()
	vstub.Cover("restarted-and-loaded")
	vstub.Assert(!inLog(r, forged), "C03 an entry not signed by a listed writer is not in the log after restart and load either")
	for _, e := range r.Index().Get("").([]ipfslog.Entry) {
		vstub.Assert(!e.GetHash().Equals(forged.GetHash()), "C03 an entry not signed by a listed writer is not visible after restart and load either")
	}
}

// VerifC03LocalWrite: a local write by an identity outside the write list fails
// with an error and changes nothing (log, cache, view); with the wildcard or
// when listed it succeeds.  The default list is the creator only.
func VerifC03LocalWrite() {
	blocks := vstub.NewBlocks(nil)
	env := vstubodb.NewEnv("mallory", 1, "db", blocks, nil)
	opts := env.Options(false)
	listKind := vstub.NdChoice("writeList", 4)
	allowed := false
	switch listKind {
	case 0:
		opts.AccessController = vstubodb.Writers(vstub.IDOf("a"), vstub.IDOf("w"))
	case 1:
		opts.AccessController = vstubodb.Writers("*")
		allowed = true
	case 2:
		opts.AccessController = vstubodb.Writers(vstub.IDOf("a"), vstub.IDOf("mallory"))
		allowed = true
	case 3:
		opts.AccessController = nil // default: the creator (this identity) only
		allowed = true
	}
	b := &BaseStore{}
	if err := b.InitBaseStore(env.IPFS, env.Identity, env.Addr, opts); err != nil {
		vstub.Fail("InitBaseStore failed")
		return
	}
	puts := env.Cache.Puts
	e, err := b.AddOperation(context.Background(), operation.NewOperation(nil, "ADD", vstub.NdBytes("val", 1)), nil)
	if allowed {
		vstub.Cover("allowed")
		vstub.Assert(err == nil, "C03 a listed writer (or anybody under the wildcard) can write")
		return
	}
	vstub.Cover("denied")
	vstub.Assert(err != nil, "C03 a local write by a non-writer fails with an error")
	vstub.Assert(e == nil, "C03 a denied write returns no entry")
	vstub.Assert(b.OpLog().Len() == 0, "C03 a denied write leaves the log untouched")
	vstub.Assert(env.Cache.Puts == puts, "C03 a denied write leaves the cache untouched")
	vstub.Assert(len(b.Index().Get("").([]ipfslog.Entry)) == 0, "C03 a denied write leaves the view untouched")
	// ... and nothing else: a second attempt is refused the same way (it returns)
	e2, err2 := b.AddOperation(context.Background(), operation.NewOperation(nil, "ADD", []byte("again")), nil)
	vstub.Cover("denied-twice")
	vstub.Assert(err2 != nil && e2 == nil, "C03 a second local write by a non-writer fails with an error too")
	vstub.Assert(b.OpLog().Len() == 0 && env.Cache.Puts == puts, "C03 repeated denied writes leave log and cache untouched")
	vstub.Assert(b.ReplicationStatus().GetProgress() == 0 && b.ReplicationStatus().GetMax() == 0, "C03 denied writes leave the replication status untouched")
}

package basestore

import (
	"context"

	ipfslog "berty.tech/go-ipfs-log"
	"berty.tech/go-ipfs-log/entry"
	idp "berty.tech/go-ipfs-log/identityprovider"
	"berty.tech/go-orbit-db/iface"
	"berty.tech/go-orbit-db/internal/vstub"
	"berty.tech/go-orbit-db/internal/vstubodb"
	"berty.tech/go-orbit-db/stores/operation"
	cid "github.com/ipfs/go-cid"
)

// newReplica initialises a real BaseStore (InitBaseStore) over a stub environment.
func newReplica(name string, blocks *vstub.Blocks, replicate bool) (*BaseStore, *vstubodb.Env) {
	env := vstubodb.NewEnv(name, 1, "db", blocks, nil)
	b := &BaseStore{}
	if err := b.InitBaseStore(env.IPFS, env.Identity, env.Addr, env.Options(replicate)); err != nil {
		vstub.Fail("InitBaseStore failed")
		return nil, env
	}
	return b, env
}

// remoteEntry makes a valid entry for the database of `b`, written through a
// second real ipfs-log instance by identity `id` (another device of an
// authorised writer, or a third party), stored in the shared block store.
func remoteEntry(b *BaseStore, env *vstubodb.Env, id *idp.Identity, payload []byte) ipfslog.Entry {
	l, err := ipfslog.NewLog(env.IPFS, id, &ipfslog.LogOptions{ID: b.id, IO: env.IO})
	if err != nil {
		vstub.Fail("NewLog failed")
		return nil
	}
	data, _ := operation.NewOperation(nil, "ADD", payload).Marshal()
	e, err := l.Append(context.Background(), data, nil)
	if err != nil {
		vstub.Fail("remote Append failed")
		return nil
	}
	return e
}

// c12Head builds one head of a decoded head-exchange message in which every
// structurally optional part is independently absent or present.
func c12Head(b *BaseStore, k int, victim ipfslog.Entry) *entry.Entry {
	if vstub.NdChoice("head-nil", 2) == 1 {
		return nil // JSON null
	}
	e := &entry.Entry{LogID: b.id, V: 2, Payload: []byte("x")}
	copied := false
	switch vstub.NdChoice("identity", 4) {
	case 3:
		// a byte-level mutation of a REAL message: identity block, key and signature are
		// those of the valid entry (all public), the payload differs
		e.Identity = victim.GetIdentity()
		e.Key = victim.GetKey()
		e.Sig = victim.GetSig()
		copied = true
	case 0: // absent
	case 1: // a writer's id (the field an attacker copies), signatures missing
		e.Identity = &idp.Identity{ID: b.identity.ID, PublicKey: []byte("pk-mallory"), Type: "orbitdb"}
	case 2: // complete identity block naming the writer
		e.Identity = &idp.Identity{ID: b.identity.ID, PublicKey: []byte("pk-mallory"), Type: "orbitdb",
			Signatures: &idp.IdentitySignature{ID: []byte("s"), PublicKey: []byte("s")}}
	}
	if vstub.NdChoice("clock", 2) == 1 {
		e.Clock = &entry.LamportClock{ID: []byte("pk-mallory"), Time: vstub.NdInt("time")}
	}
	switch vstub.NdChoice("hash", 3) {
	case 1:
		e.Hash = vstub.MkCid(100 + k)
	case 2:
		// the malformed head is announced under the address of a VALID entry the
		// replica has not merged yet (its public fields can be copied by anybody)
		e.Hash = victim.GetHash()
	}
	if vstub.NdChoice("next", 2) == 1 {
		e.Next = []cid.Cid{vstub.MkCid(200 + k)}
	}
	if !copied && vstub.NdChoice("keysig", 2) == 1 {
		e.Key = []byte("pk-mallory")
		e.Sig = []byte("garbage")
	}
	return e
}

// VerifC12Heads: a head-exchange message on the store's pubsub topic whose
// decoded form is ANY value of the message type (null heads, heads missing
// identity / clock / hash / links / key, arbitrary clock time) never makes the
// process panic, never changes the database, and does not stop a later valid
// message from being handled.
func VerifC12Heads() {
	maxHeads := vstub.Param("H", 1)
	blocks := vstub.NewBlocks(nil)
	b, env := newReplica("a", blocks, true)
	if b == nil {
		return
	}
	valid := remoteEntry(b, env, env.Identity, []byte("ok"))
	if valid == nil {
		return
	}
	n := 1 + vstub.NdChoice("nheads", maxHeads)
	var heads []*entry.Entry
	for k := 0; k < n; k++ {
		heads = append(heads, c12Head(b, k, valid))
	}
	msg := &iface.MessageExchangeHeads{Address: b.id, Heads: heads}
	payload, err := b.messageMarshaler.Marshal(msg)
	if err != nil {
		vstub.Fail("C12 marshal failed")
		return
	}
	topic := env.PubSub.Topics[b.id]
	if topic == nil {
		vstub.Fail("C12 store did not subscribe to its topic")
		return
	}
	good, _ := b.messageMarshaler.Marshal(&iface.MessageExchangeHeads{Address: b.id, Heads: []*entry.Entry{valid.(*entry.Entry)}})
	// pacing: the valid message arrives after the malformed one was handled, or
	// in the same burst right behind it, or right before it (both waiting in the
	// topic's buffer when the listener wakes up)
	switch vstub.NdChoice("pacing", 3) {
	case 0:
		topic.MsgCh <- &iface.EventPubSubMessage{Content: payload}
		vstub.WaitIdle()
		vstub.Cover("malformed-handled")
		vstub.Assert(b.OpLog().Len() == 0, "C12 malformed heads never enter the log")
		topic.MsgCh <- &iface.EventPubSubMessage{Content: good}
	case 1:
		topic.MsgCh <- &iface.EventPubSubMessage{Content: payload}
		topic.MsgCh <- &iface.EventPubSubMessage{Content: good}
		vstub.Cover("burst")
	case 2:
		topic.MsgCh <- &iface.EventPubSubMessage{Content: good}
		topic.MsgCh <- &iface.EventPubSubMessage{Content: payload}
		vstub.Cover("burst")
	}
	vstub.WaitIdle()
	vstub.Cover("valid-sent")
	vstub.Assert(b.OpLog().Len() == 1, "C12 a valid message after a malformed one is still handled")
	_, has := b.OpLog().Get(valid.GetHash())
	vstub.Assert(has, "C12 the valid head is in the log")
}

// VerifC12RepeatedHeads: a WELL-FORMED but abusive heads message: one genuine
// head listed R times (R larger than any worker pool a verification stage might
// use), or R distinct genuine heads of one chain.  Sync returns, the entries are
// merged once, and a later valid message is still handled.
func VerifC12RepeatedHeads() {
	r := vstub.Param("R", 20)
	blocks := vstub.NewBlocks(nil)
	prov := vstub.NewProvider()
	w2 := vstub.NewIdentity("w2", prov)
	a, env := openAC("a", blocks, vstubodb.WriteAll())
	if a == nil {
		return
	}
	ctx := context.Background()
	var l *ipfslog.IPFSLog
	var chain []ipfslog.Entry
	distinct := vstub.NdChoice("distinct-heads", 2) == 1
	n := 1
	if distinct {
		n = r
	}
	for k := 0; k < n; k++ {
		var e ipfslog.Entry
		l, e = appendAs(env, l, a.id, w2, []byte{'h', byte(k)})
		if e == nil {
			return
		}
		chain = append(chain, e)
	}
	var msg []ipfslog.Entry
	for k := 0; k < r; k++ {
		if distinct {
			msg = append(msg, chain[k].Copy())
		} else {
			msg = append(msg, chain[0].Copy())
		}
	}
	if distinct {
		vstub.Cover("many-distinct-heads")
	} else {
		vstub.Cover("one-head-repeated")
	}
	// optionally some of the listed heads are TAMPERED copies (they pass the
	// structural and access checks, their content does not hash to the address they
	// claim): the first, the last, or all of them
	tampered := vstub.NdChoice("tampered-heads", 4)
	if tampered > 0 {
		bad := func(k int) {
			c := msg[k].Copy()
			c.SetPayload([]byte("tampered"))
			msg[k] = c
		}
		switch tampered {
		case 1:
			bad(0)
		case 2:
			bad(len(msg) - 1)
		case 3:
			for k := range msg {
				bad(k)
			}
		}
		vstub.Cover("with-tampered-heads")
	}
	_ = a.Sync(ctx, msg) // must return (it may report an error)
	vstub.WaitIdle()
	vstub.Cover("abusive-message-handled")
	if tampered == 0 {
		for _, e := range chain {
			vstub.Assert(inLog(a, e), "C12 the genuine entries of an abusive heads message are merged")
		}
		vstub.Assert(a.OpLog().Len() == len(chain), "C12 an abusive heads message adds each entry once")
	}
	for _, e := range a.OpLog().Values().Slice() {
		vstub.Assert(string(e.GetPayload()) != "tampered", "C12/C04 a tampered head of an abusive message is never merged")
	}
	_, later := appendAs(env, l, a.id, w2, []byte("later"))
	if later == nil {
		return
	}
	if err := a.Sync(ctx, []ipfslog.Entry{later.Copy()}); err != nil {
		vstub.Fail("C12 a later valid message returned an error")
	}
	vstub.WaitIdle()
	vstub.Assert(inLog(a, later) && inView(a, later), "C12 a valid message after an abusive one is still handled")
}

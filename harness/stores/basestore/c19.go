package basestore

import (
	ipfslog "berty.tech/go-ipfs-log"
	"berty.tech/go-orbit-db/internal/vstub"
	"berty.tech/go-orbit-db/stores/replicator"
)

// lenLog is an oplog of which only the length matters (symbolic).
type lenLog struct {
	ipfslog.Log
	n int
}

func (l *lenLog) Len() int { return l.n }

// c19State builds a store whose replication status and log length are arbitrary
// (subject to the representation invariant 0 <= progress <= max, n >= 0).
func c19State() (b *BaseStore, p, m, n int) {
	p = vstub.NdInt("progress")
	m = vstub.NdInt("max")
	n = vstub.NdInt("oplogLen")
	vstub.Assume(p >= 0)
	vstub.Assume(p <= m)
	vstub.Assume(m < 1<<62)
	vstub.Assume(n >= 0)
	vstub.Assume(n < 1<<62)
	b = &BaseStore{}
	b.replicationStatus = replicator.NewReplicationInfo()
	b.replicationStatus.SetProgress(p)
	b.replicationStatus.SetMax(m)
	b.oplog = &lenLog{n: n}
	return
}

// VerifC19Step: one update of the replication status from an arbitrary valid
// pre-state never lowers progress or max and keeps progress <= max.
func VerifC19Step() {
	b, p, m, _ := c19State()
	x := vstub.NdInt("arg")
	vstub.Assume(x >= 0)
	vstub.Assume(x < 1<<62)
	// the two entry points other code calls (recalculateReplicationProgress is
	// only ever reached through recalculateReplicationStatus)
	switch vstub.NdChoice("entry", 2) {
	case 0:
		vstub.Cover("max")
		b.recalculateReplicationMax(x)
	case 1:
		vstub.Cover("status")
		b.recalculateReplicationStatus(x)
	}
	p2 := b.ReplicationStatus().GetProgress()
	m2 := b.ReplicationStatus().GetMax()
	vstub.Assert(m2 >= m, "C19 max never decreases")
	vstub.Assert(p2 >= p, "C19 progress never decreases")
	vstub.Assert(p2 <= m2, "C19 progress <= max")
}

// VerifC19Rest: at rest with a complete log (every announced clock <= entry
// count, i.e. max <= n) the update made when a replication batch completes
// leaves progress == max == n.
func VerifC19Rest() {
	b, _, m, n := c19State()
	vstub.Assume(m <= n)
	if n > b.replicationStatus.GetProgress() {
		vstub.Cover("update")
		b.recalculateReplicationStatus(n)
	} else {
		vstub.Cover("no-update")
	}
	p2 := b.ReplicationStatus().GetProgress()
	m2 := b.ReplicationStatus().GetMax()
	vstub.Assert(p2 == m2, "C19 at rest progress == max")
	vstub.Assert(m2 == n, "C19 at rest max == entry count")
}

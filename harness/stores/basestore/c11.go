package basestore

import (
	"context"
	"time"

	ipfslog "berty.tech/go-ipfs-log"
	"berty.tech/go-orbit-db/internal/vstub"
	"berty.tech/go-orbit-db/internal/vstubodb"
)

// VerifC11Abort: a replication request is cancelled at a chosen step (before
// it starts, at the k-th block fetch — i.e. while another worker waits for a
// fetch slot or in the middle of a fetch — or after the last fetch), or one of
// its fetches fails; afterwards an uncancelled request for the same heads
// completes and makes every reachable entry visible.
func VerifC11Abort() {
	n := vstub.Param("N", 3)
	blocks := vstub.NewBlocks(nil)
	prov := vstub.NewProvider()
	w2 := vstub.NewIdentity("w2", prov)
	env := vstubodb.NewEnv("a", 1, "db", blocks, nil)
	opts := env.Options(false)
	opts.AccessController = vstubodb.WriteAll()
	opts.ReplicationConcurrency = uint(1 + vstub.NdChoice("concurrency", 2))
	a := &BaseStore{}
	if err := a.InitBaseStore(env.IPFS, env.Identity, env.Addr, opts); err != nil {
		vstub.Fail("InitBaseStore failed")
		return
	}
	// the remote log: a chain of n entries, or two branches (two heads)
	var all []ipfslog.Entry
	var heads []ipfslog.Entry
	if vstub.NdChoice("shape", 2) == 0 {
		var l *ipfslog.IPFSLog
		var e ipfslog.Entry
		for k := 0; k < n; k++ {
			l, e = appendAs(env, l, a.id, w2, []byte{'c', byte(k)})
			if e == nil {
				return
			}
			all = append(all, e)
		}
		heads = []ipfslog.Entry{e}
	} else {
		w3 := vstub.NewIdentity("w3", prov)
		var l2, l3 *ipfslog.IPFSLog
		var e2, e3 ipfslog.Entry
		for k := 0; k < n-1; k++ {
			l2, e2 = appendAs(env, l2, a.id, w2, []byte{'x', byte(k)})
			if e2 == nil {
				return
			}
			all = append(all, e2)
		}
		l3, e3 = appendAs(env, l3, a.id, w3, []byte{'y'})
		_ = l3
		if e3 == nil {
			return
		}
		all = append(all, e3)
		heads = []ipfslog.Entry{e2, e3}
	}
	copies := func() []ipfslog.Entry {
		var out []ipfslog.Entry
		for _, h := range heads {
			out = append(out, h.Copy())
		}
		return out
	}

	// ---- request 1: aborted
	ctx1, cancel1 := context.WithCancel(context.Background())
	fault := vstub.NdChoice("fault", 4) // 0: cancel, 1: one fetch fails, 2: cancel and fetch failure, 3: none (control)
	at := vstub.NdChoice("at", n+2)     // 0: before the request; k>=1: at the k-th fetch; n+1: never reached (after the last fetch)
	failHash := ""
	if fault == 1 || fault == 2 {
		failHash = vstub.BlockKey(all[vstub.NdChoice("failWhich", len(all))].GetHash())
		blocks.Missing[failHash] = true
	}
	if fault == 0 || fault == 2 {
		if at == 0 {
			cancel1()
		}
		blocks.OnRead = func(k int, hash string) {
			if k == at {
				cancel1()
			}
		}
	}
	_ = a.Sync(ctx1, copies())
	vstub.WaitIdle()
	cancel1()
	vstub.WaitIdle()
	vstub.Cover("aborted")
	// KNOWN FINDING C11-partial-ancestry: when the aborted request got as far as
	// joining a head but not all of its ancestors, the replica holds an entry whose
	// ancestry is incomplete; the replicator treats that entry as "already in the
	// log" and a later request never fetches the missing ancestors.
	partial := false
	for _, e := range a.OpLog().Values().Slice() {
		for _, nx := range e.GetNext() {
			if _, ok := a.OpLog().Get(nx); !ok {
				partial = true
			}
		}
	}
	if partial {
		vstub.Cover("partial-ancestry")
		if vstub.KnownFinding("C11-partial-ancestry") {
			return
		}
	}
	if fault == 3 {
		vstub.Cover("control")
		for _, e := range all {
			vstub.Assert(inLog(a, e), "C11 control: without any fault the first request replicates everything")
		}
	}

	// ---- request 2: the fault is gone, the context is live
	blocks.OnRead = nil
	if failHash != "" {
		delete(blocks.Missing, failHash)
	}
	if err := a.Sync(context.Background(), copies()); err != nil {
		vstub.Fail("C11 second request returned an error")
	}
	vstub.WaitIdle()
	vstub.Cover("retried")
	for _, e := range all {
		vstub.Assert(inLog(a, e), "C11 after an aborted request a later request makes every reachable entry visible")
		vstub.Assert(inView(a, e), "C11 after an aborted request a later request makes every reachable entry visible in the view")
	}
}

// VerifC11CancelAnywhere: the first request's context is cancelled at ANY
// visible operation of any thread (every lock/unlock, channel operation,
// goroutine start, block or cache effect is a point where the path may fire the
// cancellation); a later uncancelled request must still make every reachable
// entry visible (modulo the listed partial-ancestry finding).
func VerifC11CancelAnywhere() {
	n := vstub.Param("N", 2)
	blocks := vstub.NewBlocks(nil)
	prov := vstub.NewProvider()
	w2 := vstub.NewIdentity("w2", prov)
	env := vstubodb.NewEnv("a", 1, "db", blocks, nil)
	opts := env.Options(false)
	opts.AccessController = vstubodb.WriteAll()
	opts.ReplicationConcurrency = uint(1 + vstub.NdChoice("concurrency", 2))
	a := &BaseStore{}
	if err := a.InitBaseStore(env.IPFS, env.Identity, env.Addr, opts); err != nil {
		vstub.Fail("InitBaseStore failed")
		return
	}
	var all []ipfslog.Entry
	var l *ipfslog.IPFSLog
	var e ipfslog.Entry
	for k := 0; k < n; k++ {
		l, e = appendAs(env, l, a.id, w2, []byte{'c', byte(k)})
		if e == nil {
			return
		}
		all = append(all, e)
	}
	ctx1, cancel1 := context.WithCancel(context.Background())
	vstub.FaultAtAnyStep(func() { cancel1() })
	_ = a.Sync(ctx1, []ipfslog.Entry{e.Copy()})
	vstub.WaitIdle()
	vstub.FaultDisarm()
	cancel1()
	vstub.WaitIdle()
	vstub.Cover("aborted")
	partial := false
	for _, x := range a.OpLog().Values().Slice() {
		for _, nx := range x.GetNext() {
			if _, ok := a.OpLog().Get(nx); !ok {
				partial = true
			}
		}
	}
	if partial && vstub.KnownFinding("C11-partial-ancestry") {
		return
	}
	if err := a.Sync(context.Background(), []ipfslog.Entry{e.Copy()}); err != nil {
		vstub.Fail("C11 second request returned an error")
	}
	vstub.WaitIdle()
	vstub.Cover("retried")
	for _, x := range all {
		vstub.Assert(inLog(a, x), "C11 after a request cancelled at any step a later request makes every reachable entry visible")
		vstub.Assert(inView(a, x), "C11 after a request cancelled at any step a later request makes every reachable entry visible in the view")
	}
}

// VerifC11Saturated: the replicator is SATURATED when the request is aborted -
// one fetch slot, several hashes queued, so some worker of the request is still
// waiting for a slot when the context ends - and which waiting worker gets the
// slot (and which queued hash it takes) is a schedule decision: every schedule
// with at most P preemptions.  A later uncancelled request for the same heads,
// or for a newer head on top of them, must complete: everything reachable is
// visible and nothing is left queued.
func VerifC11Saturated() {
	p := vstub.Param("P", 1)
	n := vstub.Param("N", 3)
	blocks := vstub.NewBlocks(nil)
	prov := vstub.NewProvider()
	w2 := vstub.NewIdentity("w2", prov)
	w3 := vstub.NewIdentity("w3", prov)
	env := vstubodb.NewEnv("a", 1, "db", blocks, nil)
	opts := env.Options(false)
	opts.AccessController = vstubodb.WriteAll()
	opts.ReplicationConcurrency = 1
	a := &BaseStore{}
	if err := a.InitBaseStore(env.IPFS, env.Identity, env.Addr, opts); err != nil {
		vstub.Fail("InitBaseStore failed")
		return
	}
	var all []ipfslog.Entry
	var l2, l3 *ipfslog.IPFSLog
	var e2, e3 ipfslog.Entry
	for k := 0; k < n-1; k++ {
		l2, e2 = appendAs(env, l2, a.id, w2, []byte{'x', byte(k)})
		if e2 == nil {
			return
		}
		all = append(all, e2)
	}
	l3, e3 = appendAs(env, l3, a.id, w3, []byte{'y'})
	if e3 == nil {
		return
	}
	all = append(all, e3)
	heads := []ipfslog.Entry{e2, e3}
	if vstub.NdChoice("order", 2) == 1 {
		heads = []ipfslog.Entry{e3, e2}
	}
	copies := func(hs []ipfslog.Entry) []ipfslog.Entry {
		var out []ipfslog.Entry
		for _, h := range hs {
			out = append(out, h.Copy())
		}
		return out
	}
	ctx1, cancel1 := context.WithCancel(context.Background())
	at := 1 + vstub.NdChoice("at", 2)
	blocks.OnRead = func(k int, hash string) {
		if k == at {
			cancel1()
		}
	}
	vstub.ExploreSchedules(p)
	_ = a.Sync(ctx1, copies(heads))
	vstub.WaitIdle()
	vstub.ExploreSchedules(0)
	cancel1()
	vstub.WaitIdle()
	blocks.OnRead = nil
	vstub.Cover("aborted-while-saturated")
	for _, e := range a.OpLog().Values().Slice() {
		for _, nx := range e.GetNext() {
			if _, ok := a.OpLog().Get(nx); !ok {
				vstub.Cover("partial-ancestry")
				if vstub.KnownFinding("C11-partial-ancestry") {
					return
				}
			}
		}
	}
	// the later request: the same heads, or a newer head written on top of both branches
	second := heads
	if vstub.NdChoice("later", 2) == 1 {
		if _, err := l2.Join(l3, -1); err != nil {
			vstub.Fail("C11 harness: join failed")
			return
		}
		_, top := appendAs(env, l2, a.id, w2, []byte("top"))
		if top == nil {
			return
		}
		all = append(all, top)
		second = []ipfslog.Entry{top}
		vstub.Cover("newer-head")
	}
	if err := a.Sync(context.Background(), copies(second)); err != nil {
		vstub.Fail("C11 later request returned an error")
	}
	vstub.WaitIdle()
	vstub.Cover("retried")
	for _, e := range all {
		vstub.Assert(inLog(a, e), "C11 after a request aborted while the replicator was saturated a later request makes every reachable entry visible")
		vstub.Assert(inView(a, e), "C11 after a request aborted while the replicator was saturated a later request makes every reachable entry visible in the view")
	}
	vstub.Assert(len(a.Replicator().GetQueue()) == 0, "C11 nothing is left queued once the later request completed")
}

// VerifC11LoadAbort: LOADING FROM DISK is aborted part-way.  A restarted store
// has two cached heads (its own chain and a replicated concurrent chain); the
// first Load is cancelled at its k-th block read, or the block of one head (or of
// an ancestor) cannot be read; a later Load with a live context and every block
// readable makes all reachable entries visible - on the same store and on a
// store reopened from the same directory.
func VerifC11LoadAbort() {
	n := vstub.Param("N", 2)
	blocks := vstub.NewBlocks(nil)
	a, envA := openWith("a", blocks, nil, nil)
	b, _ := openWith("b", blocks, nil, nil)
	if a == nil || b == nil {
		return
	}
	ctx := context.Background()
	addN(a, n, 'a')
	addN(b, n, 'b')
	if err := a.Sync(ctx, b.OpLog().Heads().Slice()); err != nil {
		vstub.Fail("C11 Sync failed")
		return
	}
	vstub.WaitIdle()
	all := a.OpLog().Values().Slice()
	if len(all) != 2*n {
		vstub.Fail("C11 harness: replication did not complete")
		return
	}
	_ = a.Close()
	vstub.WaitIdle()
	r, _ := openWith("a", blocks, envA.Cache, nil)
	if r == nil {
		return
	}
	ctx1, cancel1 := context.WithCancel(ctx)
	failHash := ""
	switch vstub.NdChoice("fault", 2) {
	case 0:
		at := 1 + vstub.NdChoice("at", 2*n)
		blocks.OnRead = func(k int, hash string) {
			if k == at {
				cancel1()
			}
		}
		vstub.Cover("load-cancelled")
	case 1:
		failHash = vstub.BlockKey(all[vstub.NdChoice("failWhich", len(all))].GetHash())
		blocks.Missing[failHash] = true
		vstub.Cover("load-fetch-failed")
	}
	_ = r.Load(ctx1, -1) // may report an error
	vstub.WaitIdle()
	cancel1()
	vstub.WaitIdle()
	blocks.OnRead = nil
	if failHash != "" {
		delete(blocks.Missing, failHash)
	}
	vstub.Cover("aborted")
	for _, e := range r.OpLog().Values().Slice() {
		for _, nx := range e.GetNext() {
			if _, ok := r.OpLog().Get(nx); !ok {
				vstub.Cover("partial-ancestry")
				if vstub.KnownFinding("C11-partial-ancestry") {
					return
				}
			}
		}
	}
	target := r
	if vstub.NdChoice("later-on", 2) == 1 {
		_ = r.Close()
		vstub.WaitIdle()
		target, _ = openWith("a", blocks, envA.Cache, nil)
		if target == nil {
			return
		}
		vstub.Cover("reopened")
	}
	if err := target.Load(ctx, -1); err != nil {
		vstub.Fail("C11 the later Load returned an error")
		return
	}
	vstub.WaitIdle()
	vstub.Cover("retried")
	for _, e := range all {
		vstub.Assert(inLog(target, e), "C11 after a load aborted part-way a later load makes every reachable entry visible")
		vstub.Assert(inView(target, e), "C11 after a load aborted part-way a later load shows every reachable entry in the view")
	}
}

// VerifC11LateProvider: nothing is cancelled and nothing fails - the provider of
// one block (the oldest entry, or a middle one) is merely SLOW: it answers after
// a long delay (virtual time).  The request completes on its own and everything
// reachable is visible; a later request for the same heads changes nothing.  (A
// fetch that gives up after a timeout of its own turns the slow provider into a
// request that failed part-way.)
func VerifC11LateProvider() {
	n := vstub.Param("N", 3)
	blocks := vstub.NewBlocks(nil)
	prov := vstub.NewProvider()
	w2 := vstub.NewIdentity("w2", prov)
	a, env := openAC("a", blocks, vstubodb.WriteAll())
	if a == nil {
		return
	}
	ctx := context.Background()
	var l *ipfslog.IPFSLog
	var all []ipfslog.Entry
	for k := 0; k < n; k++ {
		var e ipfslog.Entry
		l, e = appendAs(env, l, a.id, w2, []byte{'c', byte(k)})
		if e == nil {
			return
		}
		all = append(all, e)
	}
	slow := all[vstub.NdChoice("slow-block", n-1)] // any entry but the head
	blocks.Late[vstub.BlockKey(slow.GetHash())] = 10 * time.Minute
	head := all[n-1]
	if err := a.Sync(ctx, []ipfslog.Entry{head.Copy()}); err != nil {
		vstub.Fail("C11 Sync returned an error")
		return
	}
	vstub.WaitIdle()
	// let (virtual) time pass beyond the provider's delay, then wait for quiescence again
	<-time.After(11 * time.Minute)
	vstub.WaitIdle()
	vstub.Cover("slow-provider-answered")
	delete(blocks.Late, vstub.BlockKey(slow.GetHash()))
	if err := a.Sync(ctx, []ipfslog.Entry{head.Copy()}); err != nil {
		vstub.Fail("C11 the later request returned an error")
	}
	vstub.WaitIdle()
	for _, e := range all {
		vstub.Assert(inLog(a, e), "C11 a request whose provider is slow (no abort by the caller) ends with every reachable entry visible, at the latest after a later request")
		vstub.Assert(inView(a, e), "C11 ... and in the view")
	}
	vstub.Assert(len(a.Replicator().GetQueue()) == 0, "C11 nothing is left queued after a slow provider answered")
}

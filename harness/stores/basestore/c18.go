package basestore

import (
	"context"

	ipfslog "berty.tech/go-ipfs-log"
	"berty.tech/go-orbit-db/internal/vstub"
	"berty.tech/go-orbit-db/internal/vstubodb"
	"berty.tech/go-orbit-db/stores/operation"
)

const repoGoroutines = "berty.tech/go-orbit-db/stores"

// VerifC18Close: a store (replication enabled) is closed at ANY moment of an
// activity — idle, in the middle of a local write, of a replication, or of a
// load — once or repeatedly.  Afterwards no background thread started by
// go-orbit-db is left (a thread blocked for ever counts as left), later
// operations return (error or harmless result) instead of panicking or
// hanging, and a fresh store over the same cache and blocks loads every
// acknowledged entry.
func VerifC18Close() {
	blocks := vstub.NewBlocks(nil)
	prov := vstub.NewProvider()
	w2 := vstub.NewIdentity("w2", prov)
	env := vstubodb.NewEnv("a", 1, "db", blocks, nil)
	opts := env.Options(true)
	opts.AccessController = vstubodb.WriteAll()
	a := &BaseStore{}
	if err := a.InitBaseStore(env.IPFS, env.Identity, env.Addr, opts); err != nil {
		vstub.Fail("InitBaseStore failed")
		return
	}
	ctx := context.Background()
	// one acknowledged write before anything else
	first, err := a.AddOperation(ctx, operation.NewOperation(nil, "ADD", []byte("first")), nil)
	if err != nil {
		vstub.Fail("C18 AddOperation failed")
		return
	}
	vstub.WaitIdle()

	closeErrs := 0
	closer := func() {
		go func() {
			if err := a.Close(); err != nil {
				closeErrs++
			}
		}()
	}
	activity := vstub.NdChoice("activity", 5)
	var acked ipfslog.Entry
	switch activity {
	case 0: // idle
		closer()
		vstub.Cover("idle")
	case 1: // in the middle of a local write
		vstub.FaultAtAnyStep(closer)
		e, werr := a.AddOperation(ctx, operation.NewOperation(nil, "ADD", []byte("second")), nil)
		if werr == nil {
			acked = e
		}
		vstub.Cover("mid-write")
	case 2: // in the middle of a replication
		var l *ipfslog.IPFSLog
		var e ipfslog.Entry
		for k := 0; k < 2; k++ {
			l, e = appendAs(env, l, a.id, w2, []byte{'r', byte(k)})
			if e == nil {
				return
			}
		}
		vstub.FaultAtAnyStep(closer)
		_ = a.Sync(ctx, []ipfslog.Entry{e.Copy()})
		vstub.Cover("mid-replication")
	case 4: // a replication whose fetch is pending on an unreachable provider
		var l *ipfslog.IPFSLog
		var e, parent ipfslog.Entry
		l, parent = appendAs(env, l, a.id, w2, []byte("p"))
		if parent == nil {
			return
		}
		_, e = appendAs(env, l, a.id, w2, []byte("c"))
		if e == nil {
			return
		}
		blocks.Hang[vstub.BlockKey(parent.GetHash())] = true
		_ = a.Sync(ctx, []ipfslog.Entry{e.Copy()})
		vstub.WaitIdle() // the fetch of the parent is now pending
		closer()
		vstub.Cover("pending-fetch")
	case 3: // in the middle of a load
		vstub.FaultAtAnyStep(closer)
		_ = a.Load(ctx, -1)
		vstub.Cover("mid-load")
	}
	vstub.WaitIdle()
	vstub.FaultDisarm()
	// closing again (the fault may not have fired: then this is the first Close)
	repeats := 1 + vstub.NdChoice("repeats", 2)
	for k := 0; k < repeats; k++ {
		if err := a.Close(); err != nil {
			closeErrs++
		}
	}
	vstub.WaitIdle()
	vstub.Cover("closed")
	vstub.Assert(closeErrs == 0, "C18 Close (once or repeatedly, at any moment) reports no error")
	vstub.Assert(vstub.LiveThreads(repoGoroutines) == 0, "C18 after Close no background activity started by the store is left")

	// later operations return promptly (an error or a harmless result), never panic or hang
	switch vstub.NdChoice("later", 4) {
	case 0:
		_, _ = a.AddOperation(ctx, operation.NewOperation(nil, "ADD", []byte("late")), nil)
	case 1:
		_ = a.Load(ctx, -1)
	case 2:
		_, e := appendAs(env, nil, a.id, w2, []byte("late-remote"))
		if e != nil {
			_ = a.Sync(ctx, []ipfslog.Entry{e.Copy()})
		}
	case 3:
		_ = a.Close()
	}
	vstub.WaitIdle()
	vstub.Cover("later-returned")
	vstub.Assert(vstub.LiveThreads(repoGoroutines) == 0, "C18 an operation on a closed store starts no lasting background activity")

	// the directory is reopenable with all acknowledged data
	r := reopen(env)
	if r == nil {
		return
	}
	if err := r.Load(ctx, -1); err != nil {
		vstub.Fail("C18 Load after Close failed")
		return
	}
	vstub.WaitIdle()
	vstub.Assert(inLog(r, first), "C18 data acknowledged before Close is still there after reopening")
	if acked != nil {
		vstub.Assert(inLog(r, acked), "C18 a write acknowledged while Close was running is still there after reopening")
	}
	_ = r.Close()
}

// VerifC18CloseBlockedLoad: a store is closed while a Load (or a
// LoadFromSnapshot) of it is STUCK on a block that no reachable peer provides
// (the caller's context is still live).  Close - of the store, once or twice -
// returns instead of waiting for the stuck load; once the caller gives up on
// the load nothing is left running, and the directory reopens with all
// acknowledged data.
func VerifC18CloseBlockedLoad() {
	blocks := vstub.NewBlocks(nil)
	env := vstubodb.NewEnv("a", 1, "db", blocks, nil)
	opts := env.Options(false)
	opts.AccessController = vstubodb.WriteAll()
	a := &BaseStore{}
	if err := a.InitBaseStore(env.IPFS, env.Identity, env.Addr, opts); err != nil {
		vstub.Fail("InitBaseStore failed")
		return
	}
	ctx := context.Background()
	var acks []ipfslog.Entry
	n := 1 + vstub.NdChoice("entries", 2)
	for k := 0; k < n; k++ {
		e, err := a.AddOperation(ctx, operation.NewOperation(nil, "ADD", []byte{'e', byte(k)}), nil)
		if err != nil {
			vstub.Fail("C18 AddOperation failed")
			return
		}
		acks = append(acks, e)
	}
	_ = a.Close()
	vstub.WaitIdle()

	r := reopen(env)
	if r == nil {
		return
	}
	// the oldest entry's block is not available right now
	blocks.Hang[vstub.BlockKey(acks[0].GetHash())] = true
	lctx, lcancel := context.WithCancel(ctx)
	loadReturned := false
	go func() {
		_ = r.Load(lctx, -1)
		loadReturned = true
	}()
	vstub.WaitIdle()
	vstub.Assert(!loadReturned, "C18 harness: the load is stuck on the unavailable block")
	vstub.Cover("load-stuck")

	closeReturned := 0
	closes := 1 + vstub.NdChoice("closes", 2)
	for k := 0; k < closes; k++ {
		go func() {
			_ = r.Close()
			closeReturned++
		}()
		vstub.WaitIdle()
	}
	vstub.Assert(closeReturned == closes, "C18 Close returns while a Load is stuck on an unavailable block (it does not wait for it)")
	vstub.Cover("closed")
	// a later operation returns as well (not a write: this store never finished
	// loading its log, and writing through a store that has not loaded is outside
	// every property)
	_ = r.Close()
	// the caller gives up on the load: nothing may be left running
	lcancel()
	vstub.WaitIdle()
	vstub.Assert(loadReturned, "C18 the stuck Load returns once its own context ends")
	vstub.Assert(vstub.LiveThreads(repoGoroutines) == 0, "C18 nothing is left running after Close and the end of the stuck load")

	// the block becomes available again: the directory reopens with all acknowledged data
	delete(blocks.Hang, vstub.BlockKey(acks[0].GetHash()))
	r2 := reopen(env)
	if r2 == nil {
		return
	}
	if err := r2.Load(ctx, -1); err != nil {
		vstub.Fail("C18 Load after Close failed")
		return
	}
	vstub.WaitIdle()
	for _, e := range acks {
		vstub.Assert(inLog(r2, e), "C18 data acknowledged before Close is still there after reopening")
	}
	_ = r2.Close()
}

// VerifC18DropDuring: Drop is called at ANY visible step of a local write or of
// a replication (Drop closes the store, destroys its cache and resets log and
// index, taking locks the writer and the joiner take too).  Drop and the
// operation it interrupted both return, Close after Drop returns, later
// operations return, and no background activity is left.
func VerifC18DropDuring() {
	blocks := vstub.NewBlocks(nil)
	prov := vstub.NewProvider()
	w2 := vstub.NewIdentity("w2", prov)
	env := vstubodb.NewEnv("a", 1, "db", blocks, nil)
	opts := env.Options(true)
	opts.AccessController = vstubodb.WriteAll()
	a := &BaseStore{}
	if err := a.InitBaseStore(env.IPFS, env.Identity, env.Addr, opts); err != nil {
		vstub.Fail("InitBaseStore failed")
		return
	}
	ctx := context.Background()
	if _, err := a.AddOperation(ctx, operation.NewOperation(nil, "ADD", []byte("first")), nil); err != nil {
		vstub.Fail("C18 AddOperation failed")
		return
	}
	vstub.WaitIdle()
	dropped := make(chan struct{})
	fired := false
	dropper := func() {
		fired = true
		go func() {
			defer close(dropped)
			_ = a.Drop()
		}()
	}
	vstub.FaultAtAnyStep(dropper)
	switch vstub.NdChoice("activity", 2) {
	case 0:
		_, _ = a.AddOperation(ctx, operation.NewOperation(nil, "ADD", []byte("second")), nil)
		vstub.Cover("drop-mid-write")
	case 1:
		var l *ipfslog.IPFSLog
		var e ipfslog.Entry
		for k := 0; k < 2; k++ {
			l, e = appendAs(env, l, a.id, w2, []byte{'r', byte(k)})
			if e == nil {
				return
			}
		}
		_ = a.Sync(ctx, []ipfslog.Entry{e.Copy()})
		vstub.Cover("drop-mid-replication")
	}
	vstub.WaitIdle()
	vstub.FaultDisarm()
	if !fired {
		dropper()
	}
	<-dropped
	vstub.WaitIdle()
	vstub.Cover("dropped")
	_ = a.Close()
	vstub.WaitIdle()
	vstub.Assert(vstub.LiveThreads(repoGoroutines) == 0, "C18 after Drop (at any moment) and Close no background activity started by the store is left")
	switch vstub.NdChoice("later", 3) {
	case 0:
		_, _ = a.AddOperation(ctx, operation.NewOperation(nil, "ADD", []byte("late")), nil)
	case 1:
		_ = a.Load(ctx, -1)
	case 2:
		_ = a.Drop()
	}
	vstub.WaitIdle()
	vstub.Cover("later-returned")
	vstub.Assert(vstub.LiveThreads(repoGoroutines) == 0, "C18 an operation on a dropped store starts no lasting background activity")
}

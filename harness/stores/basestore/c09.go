package basestore

import (
	"context"

	ipfslog "berty.tech/go-ipfs-log"

	"berty.tech/go-orbit-db/iface"
	"berty.tech/go-orbit-db/internal/vstub"
	"berty.tech/go-orbit-db/internal/vstubodb"
	"berty.tech/go-orbit-db/stores"
	"berty.tech/go-orbit-db/stores/operation"
	"github.com/libp2p/go-libp2p/core/event"
	"github.com/libp2p/go-libp2p/core/peer"
)

// openOnBus opens database number dbCid for identity `name` on a shared bus and
// a shared pubsub/direct channel (one process), replication enabled.
func openOnBus(name string, dbCid int, blocks *vstub.Blocks, bus event.Bus, ps *vstubodb.PubSub, dc *vstubodb.DirectChannel) (*BaseStore, *vstubodb.Env) {
	env := vstubodb.NewEnv(name, dbCid, "db", blocks, bus)
	env.PubSub = ps
	env.Direct = dc
	opts := env.Options(true)
	opts.AccessController = vstubodb.WriteAll()
	b := &BaseStore{}
	if err := b.InitBaseStore(env.IPFS, env.Identity, env.Addr, opts); err != nil {
		vstub.Fail("InitBaseStore failed")
		return nil, env
	}
	return b, env
}

// VerifC09Isolation: two databases are opened by one process on the default
// shared event bus (one pubsub, one direct channel).  A sequence of actions on
// database A — local write, replication of a remote head, load — never sends
// anything on B's topic, never changes B's log, view or replication status, and
// every store event on the bus carries the address of the store whose log
// holds the entries it announces.
func VerifC09Isolation() {
	steps := vstub.Param("STEPS", 2)
	bus := vstub.NewBus()
	ps := vstubodb.NewPubSub()
	dc := &vstubodb.DirectChannel{}
	blocks := vstub.NewBlocks(nil)
	a, _ := openOnBus("me", 1, blocks, bus, ps, dc)
	b, _ := openOnBus("me", 2, blocks, bus, ps, dc)
	if a == nil || b == nil {
		return
	}
	// a remote writer of database A (another process)
	remote, remoteEnv := openWithCid("remote", 1, vstub.NewBlocks(nil))
	if remote == nil {
		return
	}
	blocks.Peers = append(blocks.Peers, remote.IO().(*vstub.IO).B)
	ta, tb := ps.Topics[a.id], ps.Topics[b.id]
	if ta == nil || tb == nil || ta == tb {
		vstub.Fail("C09 stores did not subscribe to distinct topics")
		return
	}
	// both topics have a peer, so publications are not suppressed
	ta.PeerList = []peer.ID{"peer-x"}
	tb.PeerList = []peer.ID{"peer-x"}

	hb := bus.(*vstub.HookBus)
	hb.OnEmit = func(evt interface{}) {
		switch e := evt.(type) {
		case stores.EventWrite:
			vstub.Assert(e.Address.String() == a.id, "C09 write events carry the address of the store written to")
		case stores.EventReplicated:
			vstub.Assert(e.Address.String() == a.id, "C09 replicated events carry the address of the store that merged the entries")
		case stores.EventReplicate:
			vstub.Assert(e.Address.String() == a.id, "C09 replicate events carry the address of the store that is replicating")
		case stores.EventReplicateProgress:
			vstub.Assert(e.Address.String() == a.id, "C09 replicate-progress events carry the address of the store that is replicating")
		}
	}
	ctx := context.Background()
	for s := 0; s < steps; s++ {
		switch vstub.NdChoice("action", 4) {
		case 3:
			// A is handed (announcement / manual sync) a valid entry that was written for
			// database B by a writer both accept: A drops it, and B - which received
			// nothing - does not react in any way
			_, fe := appendAs(remoteEnv, nil, b.id, remoteEnv.Identity, vstub.NdBytes("val", 1))
			if fe == nil {
				return
			}
			_ = a.Sync(ctx, []ipfslog.Entry{fe.Copy()})
			vstub.Cover("foreign-head-on-a")
		case 0:
			if _, err := a.AddOperation(ctx, operation.NewOperation(nil, "ADD", vstub.NdBytes("val", 1)), nil); err != nil {
				vstub.Fail("C09 AddOperation failed")
			}
			vstub.Cover("write-on-a")
		case 1:
			if _, err := remote.AddOperation(ctx, operation.NewOperation(nil, "ADD", vstub.NdBytes("val", 1)), nil); err != nil {
				vstub.Fail("C09 remote AddOperation failed")
			}
			if err := a.Sync(ctx, remote.OpLog().Heads().Slice()); err != nil {
				vstub.Fail("C09 Sync failed")
			}
			vstub.Cover("replicate-on-a")
		case 2:
			if err := a.Load(ctx, -1); err != nil {
				vstub.Fail("C09 Load failed")
			}
			vstub.Cover("load-on-a")
		}
		vstub.WaitIdle()
		vstub.Assert(tb.NumPublished() == 0, "C09 nothing is published on the other database's topic")
		vstub.Assert(b.OpLog().Len() == 0, "C09 the other database's log is unchanged")
		vstub.Assert(b.ReplicationStatus().GetProgress() == 0, "C09 the other database's replication progress is unchanged")
		vstub.Assert(b.ReplicationStatus().GetMax() == 0, "C09 the other database's replication maximum is unchanged")
	}
	vstub.Assert(len(dc.Sent) == 0, "C09 nothing is sent on the direct channel without a peer joining")

	// ---- both databases are written to at about the same time: whatever the
	// interleaving (preemption bound P), each topic only ever carries heads of
	// its own database
	p := vstub.Param("P", 1)
	hb.OnEmit = nil
	vstub.ExploreSchedules(p)
	if _, err := b.AddOperation(ctx, operation.NewOperation(nil, "ADD", []byte("b-own")), nil); err != nil {
		vstub.Fail("C09 AddOperation on b failed")
	}
	if _, err := a.AddOperation(ctx, operation.NewOperation(nil, "ADD", []byte("a-own")), nil); err != nil {
		vstub.Fail("C09 AddOperation on a failed")
	}
	vstub.WaitIdle()
	vstub.ExploreSchedules(0)
	vstub.Cover("interleaved-writes")
	checkTopic := func(t *vstubodb.Topic, st *BaseStore, who string) {
		for _, payload := range t.Published {
			msg := &iface.MessageExchangeHeads{}
			if err := st.messageMarshaler.Unmarshal(payload, msg); err != nil {
				vstub.Fail("C09 a published message does not decode")
				return
			}
			vstub.Assert(msg.Address == st.id, "C09 a message on a database's topic names that database ("+who+")")
			for _, h := range msg.Heads {
				vstub.Assert(h.GetLogID() == st.id, "C09 a database's topic only carries heads of that database ("+who+")")
			}
		}
	}
	checkTopic(ta, a, "a")
	checkTopic(tb, b, "b")
	vstub.Assert(tb.NumPublished() >= 1, "C09 the write to b is announced on b's topic")
}

func openWithCid(name string, dbCid int, blocks *vstub.Blocks) (*BaseStore, *vstubodb.Env) {
	env := vstubodb.NewEnv(name, dbCid, "db", blocks, nil)
	opts := env.Options(false)
	opts.AccessController = vstubodb.WriteAll()
	b := &BaseStore{}
	if err := b.InitBaseStore(env.IPFS, env.Identity, env.Addr, opts); err != nil {
		vstub.Fail("InitBaseStore failed")
		return nil, env
	}
	return b, env
}

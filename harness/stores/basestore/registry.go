package basestore

// verifHarnesses lists the harness entry points of this package for native replay.
var verifHarnesses = map[string]func(){
	"VerifC19Step":                  VerifC19Step,
	"VerifC19Rest":                  VerifC19Rest,
	"VerifC12Heads":                 VerifC12Heads,
	"VerifC17Concurrent":            VerifC17Concurrent,
	"VerifC15Load":                  VerifC15Load,
	"VerifC19History":               VerifC19History,
	"VerifC05Crash":                 VerifC05Crash,
	"VerifC09Isolation":             VerifC09Isolation,
	"VerifC10Mixed":                 VerifC10Mixed,
	"VerifC11Abort":                 VerifC11Abort,
	"VerifC11CancelAnywhere":        VerifC11CancelAnywhere,
	"VerifC11Saturated":             VerifC11Saturated,
	"VerifC03Forged":                VerifC03Forged,
	"VerifC04Tampered":              VerifC04Tampered,
	"VerifC18CloseBlockedLoad":      VerifC18CloseBlockedLoad,
	"VerifC13Concurrent":            VerifC13Concurrent,
	"VerifC16Backfill":              VerifC16Backfill,
	"VerifC17WritersAndReplication": VerifC17WritersAndReplication,
	"VerifC13PendingQueue":          VerifC13PendingQueue,
	"VerifC04ForeignChain":          VerifC04ForeignChain,
	"VerifC02Heal":                  VerifC02Heal,
	"VerifC18Close":                 VerifC18Close,
	"VerifC13Snapshot":              VerifC13Snapshot,
	"VerifC03LocalWrite":            VerifC03LocalWrite,
}

package basestore

import (
	"context"

	ipfslog "berty.tech/go-ipfs-log"
	"berty.tech/go-orbit-db/internal/vstub"
	"berty.tech/go-orbit-db/internal/vstubodb"
	"berty.tech/go-orbit-db/stores/operation"
)

// c13Store wraps BaseStore with a Type(), as concrete stores do.
type c13Store struct{ BaseStore }

func (s *c13Store) Type() string { return "eventlog" }

func c13Open(name string, blocks *vstub.Blocks, cache *vstub.Cache, files *vstub.Unixfs) (*c13Store, *vstubodb.Env) {
	env := vstubodb.NewEnv(name, 1, "db", blocks, nil)
	if cache != nil {
		env.Cache = cache
	}
	env.IPFS.Files = files
	opts := env.Options(false)
	opts.AccessController = vstubodb.WriteAll()
	s := &c13Store{}
	if err := s.InitBaseStore(env.IPFS, env.Identity, env.Addr, opts); err != nil {
		vstub.Fail("InitBaseStore failed")
		return nil, env
	}
	return s, env
}

// VerifC13Snapshot: for every log shape (empty, chain, fork / multi-writer,
// containing replicated entries) saving a snapshot never panics, and if it
// reports success a fresh instance reconstructs exactly the same log, heads and
// view from it.  With SIZES>0 every encoded header / entry has a SYMBOLIC byte
// length in [2, SIZES]: the solver decides whether some size makes Save succeed
// while Load fails.
func VerifC13Snapshot() {
	t := vstub.Param("T", 2)
	sizes := vstub.Param("SIZES", 0)
	blocks := vstub.NewBlocks(nil)
	a, envA := c13Open("a", blocks, nil, nil)
	if a == nil {
		return
	}
	ctx := context.Background()
	shape := vstub.NdChoice("shape", 3) // 0 empty, 1 single-writer chain, 2 two writers incl. replicated entries
	switch shape {
	case 0:
		vstub.Cover("empty")
	case 1:
		addN(&a.BaseStore, t, 'a')
		vstub.Cover("chain")
	case 2:
		bw, _ := openWith("b", blocks, nil, nil)
		if bw == nil {
			return
		}
		// the two writers' concurrent chains have any lengths nb + na = T (so the
		// heads have equal or different clock times, whichever writer sorts first);
		// optionally a later local write merges the two heads
		nb := 1
		if t > 2 && sizes == 0 {
			nb = 1 + vstub.NdChoice("remote-len", t-1)
		}
		addN(bw, nb, 'b')
		addN(&a.BaseStore, t-nb, 'a')
		if err := a.Sync(ctx, bw.OpLog().Heads().Slice()); err != nil {
			vstub.Fail("C13 Sync failed")
			return
		}
		vstub.WaitIdle()
		vstub.Cover("replicated")
		if sizes == 0 && vstub.NdChoice("merge-write", 2) == 1 {
			addN(&a.BaseStore, 1, 'm')
			vstub.Cover("merged")
		}
	}
	wantHashes := hashesOf(&a.BaseStore)
	var wantHeads []string
	for _, h := range a.OpLog().Heads().Slice() {
		wantHeads = append(wantHeads, h.GetHash().String())
	}
	if sizes > 0 && shape != 0 {
		// (an empty log's header has a fixed small size; documents embedding entries can be arbitrarily large)
		vstub.SymbolicBlobSizes(sizes)
	}
	_, err := SaveSnapshot(ctx, a)
	if err != nil {
		vstub.Cover("save-refused")
		return // saving may fail, but then it must say so
	}
	vstub.Cover("saved")
	vstub.SymbolicBlobSizes(0)

	r, _ := c13Open("a", blocks, envA.Cache, envA.IPFS.Files)
	if r == nil {
		return
	}
	// the loading instance may already hold PART of the saved log: the complete
	// branch under one of the saved heads (received from a peer before the snapshot
	// is loaded); the snapshot must still bring everything else
	if sizes == 0 && len(wantHeads) > 0 {
		if pre := vstub.NdChoice("already-holds-head", len(wantHeads)+1); pre > 0 {
			h := a.OpLog().Heads().Slice()[pre-1]
			if err := r.Sync(ctx, []ipfslog.Entry{h.Copy()}); err != nil {
				vstub.Fail("C13 Sync on the loading instance failed")
				return
			}
			vstub.WaitIdle()
			vstub.Cover("partly-held")
		}
	}
	lerr := r.LoadFromSnapshot(ctx)
	vstub.WaitIdle()
	if lerr != nil {
		vstub.Observe("load error: " + lerr.Error())
	}
	vstub.Assert(lerr == nil, "C13 a snapshot that was saved successfully loads")
	if lerr != nil {
		return
	}
	vstub.Cover("loaded")
	vstub.Assert(vstubodb.SameStrings(hashesOf(&r.BaseStore), wantHashes), "C13 the reloaded log is exactly the saved log")
	var gotHeads []string
	for _, h := range r.OpLog().Heads().Slice() {
		gotHeads = append(gotHeads, h.GetHash().String())
	}
	vstub.Assert(len(gotHeads) == len(wantHeads), "C13 the reloaded heads are exactly the saved heads")
	view := r.Index().Get("").([]ipfslog.Entry)
	vstub.Assert(len(view) == len(wantHashes), "C13 the reloaded view shows the saved state")
}

var _ = operation.NewOperation

// VerifC13Concurrent: the log GROWS while a snapshot is being saved - a local
// write, or the join that ends a replication, starts at ANY visible operation
// of SaveSnapshot (it takes no store lock).  Saving either reports an error or
// writes a snapshot that loads, and the reloaded database is the one that
// existed before or after the growth (never something that cannot be read).
func VerifC13Concurrent() {
	t := vstub.Param("T", 2)
	blocks := vstub.NewBlocks(nil)
	a, envA := c13Open("a", blocks, nil, nil)
	if a == nil {
		return
	}
	ctx := context.Background()
	addN(&a.BaseStore, t, 'a')
	before := hashesOf(&a.BaseStore)
	growth := vstub.NdChoice("growth", 2)
	var bw *BaseStore
	if growth == 1 {
		bw, _ = openWith("b", blocks, nil, nil)
		if bw == nil {
			return
		}
		addN(bw, 1, 'b')
	}
	done := make(chan struct{})
	fired := false
	grow := func() {
		defer close(done)
		if growth == 0 {
			if _, err := a.AddOperation(ctx, operation.NewOperation(nil, "ADD", []byte("late")), nil); err != nil {
				vstub.Fail("C13 concurrent AddOperation failed")
			}
		} else {
			if err := a.Sync(ctx, bw.OpLog().Heads().Slice()); err != nil {
				vstub.Fail("C13 concurrent Sync failed")
			}
		}
	}
	vstub.FaultAtAnyStep(func() { fired = true; go grow() })
	_, err := SaveSnapshot(ctx, a)
	vstub.FaultDisarm()
	if fired {
		<-done
		vstub.Cover("grew-during-save")
	}
	vstub.WaitIdle()
	after := hashesOf(&a.BaseStore)
	if err != nil {
		vstub.Cover("save-refused")
		return
	}
	vstub.Cover("saved")
	r, _ := c13Open("a", blocks, envA.Cache, envA.IPFS.Files)
	if r == nil {
		return
	}
	lerr := r.LoadFromSnapshot(ctx)
	vstub.WaitIdle()
	if lerr != nil {
		vstub.Observe("load error: " + lerr.Error())
	}
	vstub.Assert(lerr == nil, "C13 a snapshot saved while the log grows still loads (or saving fails)")
	if lerr != nil {
		return
	}
	vstub.Cover("loaded")
	got := hashesOf(&r.BaseStore)
	// the reloaded log is closed under the saved state: at least everything held
	// before the save started, at most everything held after it ended, in log order
	vstub.Assert(len(got) >= len(before) && len(got) <= len(after), "C13 the reloaded log is the database before or after the concurrent growth")
	pos := 0
	for _, h := range got {
		for pos < len(after) && after[pos] != h {
			pos++
		}
		vstub.Assert(pos < len(after), "C13 the reloaded log lists only saved entries, in log order")
		pos++
	}
	for _, h := range before {
		found := false
		for _, g := range got {
			if g == h {
				found = true
			}
		}
		vstub.Assert(found, "C13 the reloaded log holds everything the database held when the save started")
	}
}

// VerifC13PendingQueue: a snapshot is saved WHILE A REPLICATION IS IN PROGRESS:
// the replicator has fetched the newest entries of a remote chain and is stuck
// on an older one (its provider is slow), so the stored replication queue is
// not empty.  Saving succeeds (or says it failed); a fresh instance then loads
// the snapshot while that block is not available at all (the peer is gone):
// loading returns, without an error, and reconstructs exactly the log, heads
// and view that were saved.
func VerifC13PendingQueue() {
	blocks := vstub.NewBlocks(nil)
	prov := vstub.NewProvider()
	w2 := vstub.NewIdentity("w2", prov)
	a, envA := c13Open("a", blocks, nil, nil)
	if a == nil {
		return
	}
	ctx := context.Background()
	addN(&a.BaseStore, 1+vstub.NdChoice("own", 2), 'a')
	// a remote chain r0 <- r1 <- r2 written by another writer
	var l *ipfslog.IPFSLog
	var chain []ipfslog.Entry
	for k := 0; k < 3; k++ {
		var e ipfslog.Entry
		l, e = appendAs(envA, l, a.id, w2, []byte{'r', byte('0' + k)})
		if e == nil {
			return
		}
		chain = append(chain, e)
	}
	stuck := vstub.NdChoice("stuck-at", 2) // the fetch of r0 or of r1 never completes
	blocks.Hang[vstub.BlockKey(chain[stuck].GetHash())] = true
	if err := a.Sync(ctx, []ipfslog.Entry{chain[2].Copy()}); err != nil {
		vstub.Fail("C13 Sync failed")
		return
	}
	vstub.WaitIdle()
	vstub.Assert(len(a.Replicator().GetQueue()) > 0, "C13 harness: the replication queue is not empty while the fetch is pending")
	vstub.Cover("replication-in-progress")
	wantHashes := hashesOf(&a.BaseStore)
	var wantHeads []string
	for _, h := range a.OpLog().Heads().Slice() {
		wantHeads = append(wantHeads, h.GetHash().String())
	}
	if _, err := SaveSnapshot(ctx, a); err != nil {
		vstub.Cover("save-refused")
		return
	}
	vstub.Cover("saved")
	_ = a.Close()
	vstub.WaitIdle()
	// the provider of the remote chain is gone and, optionally, the blocks that
	// were fetched but not yet joined have been collected: fetching them fails
	delete(blocks.Hang, vstub.BlockKey(chain[stuck].GetHash()))
	blocks.Missing[vstub.BlockKey(chain[stuck].GetHash())] = true
	if vstub.NdChoice("fetched-blocks-kept", 2) == 0 {
		for _, e := range chain {
			blocks.Missing[vstub.BlockKey(e.GetHash())] = true
		}
	}
	r, _ := c13Open("a", blocks, envA.Cache, envA.IPFS.Files)
	if r == nil {
		return
	}
	lerr := r.LoadFromSnapshot(ctx)
	vstub.WaitIdle()
	if lerr != nil {
		vstub.Observe("load error: " + lerr.Error())
	}
	vstub.Assert(lerr == nil, "C13 a snapshot saved while a replication was in progress loads")
	if lerr != nil {
		return
	}
	vstub.Cover("loaded")
	got := hashesOf(&r.BaseStore)
	// everything that was saved is back, in order; the resumed replication may add
	// entries of the remote chain that are still fetchable, nothing else
	pos := 0
	for _, h := range wantHashes {
		for pos < len(got) && got[pos] != h {
			pos++
		}
		vstub.Assert(pos < len(got), "C13 the reloaded log holds the saved log, in log order")
		pos++
	}
	for _, h := range got {
		known := false
		for _, w := range wantHashes {
			known = known || w == h
		}
		for _, e := range chain {
			known = known || e.GetHash().String() == h
		}
		vstub.Assert(known, "C13 the reloaded log holds nothing but saved entries and entries of the replication that was in progress")
	}
	view := r.Index().Get("").([]ipfslog.Entry)
	vstub.Assert(len(view) == len(got), "C13 the reloaded view shows the reloaded log")
	_ = wantHeads
}

// VerifC13SaveFault: the ERROR paths of SaveSnapshot.  A snapshot of T entries is
// saved, the log grows, and a second save runs while a storage write fails (the
// cache write of the snapshot path, of the queue, or the file itself).  Saving
// either reports the error or - if it reports success - a fresh instance loads
// exactly the database held at the time of that save (never the stale first
// snapshot, never nothing).
func VerifC13SaveFault() {
	t := vstub.Param("T", 2)
	blocks := vstub.NewBlocks(nil)
	a, envA := c13Open("a", blocks, nil, nil)
	if a == nil {
		return
	}
	ctx := context.Background()
	addN(&a.BaseStore, t, 'a')
	if _, err := SaveSnapshot(ctx, a); err != nil {
		vstub.Fail("C13 first SaveSnapshot failed")
		return
	}
	addN(&a.BaseStore, 1, 'n')
	want := hashesOf(&a.BaseStore)
	switch vstub.NdChoice("fault", 3) {
	case 0:
		vstub.Cover("no-fault")
	case 1:
		envA.Cache.FailPut = "/snapshot"
		vstub.Cover("snapshot-key-write-fails")
	case 2:
		envA.Cache.FailPut = "/queue"
		vstub.Cover("queue-key-write-fails")
	}
	_, err := SaveSnapshot(ctx, a)
	envA.Cache.FailPut = ""
	if err != nil {
		vstub.Cover("save-refused")
		return // saving may fail, but then it must say so
	}
	vstub.Cover("saved")
	r, _ := c13Open("a", blocks, envA.Cache, envA.IPFS.Files)
	if r == nil {
		return
	}
	lerr := r.LoadFromSnapshot(ctx)
	vstub.WaitIdle()
	vstub.Assert(lerr == nil, "C13 a save that reported success can be loaded")
	if lerr != nil {
		return
	}
	vstub.Assert(vstubodb.SameStrings(hashesOf(&r.BaseStore), want), "C13 a save that reported success reloads to the database held when it was saved (not to an earlier snapshot)")
}

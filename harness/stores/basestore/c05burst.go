package basestore

import (
	"context"
	"sync"

	ipfslog "berty.tech/go-ipfs-log"
	"berty.tech/go-orbit-db/internal/vstub"
	"berty.tech/go-orbit-db/stores/operation"
)

// VerifC05Burst: a CRASH right after a write was acknowledged, while other
// writers are in flight.  W goroutines write to one store concurrently (every
// schedule with at most P preemptions); at the instant each AddOperation returns
// success the disk image (heads cache) is captured, as a crash at that instant
// would leave it.  A store reopened over each captured image and loaded holds the
// entry whose write had just been acknowledged (and every write acknowledged
// before it).
func VerifC05Burst() {
	w := vstub.Param("W", 2)
	p := vstub.Param("P", 1)
	blocks := vstub.NewBlocks(nil)
	a, envA := openWith("a", blocks, nil, nil)
	if a == nil {
		return
	}
	ctx := context.Background()
	// one earlier, quiet write (so that the cache holds an older head to fall back to)
	addN(a, 1, 'q')
	type ack struct {
		e    ipfslog.Entry
		disk *vstub.Cache
	}
	var mu sync.Mutex
	var acks []ack
	vstub.ExploreSchedules(p)
	var wg sync.WaitGroup
	for k := 0; k < w; k++ {
		wg.Add(1)
		go func(k int) {
			defer wg.Done()
			e, err := a.AddOperation(ctx, operation.NewOperation(nil, "ADD", []byte{'w', byte(k)}), nil)
			if err != nil {
				vstub.Fail("C05 concurrent AddOperation failed")
				return
			}
			// the write call has returned successfully: a crash from now on must not lose it
			mu.Lock()
			acks = append(acks, ack{e: e, disk: envA.Cache.Clone()})
			mu.Unlock()
		}(k)
	}
	wg.Wait()
	vstub.ExploreSchedules(0)
	vstub.Cover("burst-written")
	for n, x := range acks {
		r, _ := openWith("a", blocks, x.disk, nil)
		if r == nil {
			return
		}
		if err := r.Load(ctx, -1); err != nil {
			vstub.Fail("C05 Load after the crash failed")
			return
		}
		vstub.WaitIdle()
		vstub.Assert(inLog(r, x.e), "C05 a write acknowledged while other writers are in flight survives a crash right after its acknowledgement")
		for _, earlier := range acks[:n] {
			vstub.Assert(inLog(r, earlier.e), "C05 writes acknowledged earlier survive a crash after a later acknowledgement")
		}
		_ = r.Close()
		vstub.WaitIdle()
	}
	vstub.Cover("recovered")
}

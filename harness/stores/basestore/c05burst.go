package basestore

import (
	"context"
	"sync"

	ipfslog "berty.tech/go-ipfs-log"
	"berty.tech/go-orbit-db/internal/vstub"
	"berty.tech/go-orbit-db/stores/operation"
)

// VerifC05Burst: a CRASH right after a write was acknowledged, while other
// writers are in flight.  W goroutines write to one store concurrently (every
// schedule with at most P preemptions); at the instant each AddOperation returns
// success the disk image (heads cache) is captured, as a crash at that instant
// would leave it.  A store reopened over each captured image and loaded holds the
// entry whose write had just been acknowledged (and every write acknowledged
// before it).
func VerifC05Burst() {
	w := vstub.Param("W", 2)
	p := vstub.Param("P", 1)
	blocks := vstub.NewBlocks(nil)
	a, envA := openWith("a", blocks, nil, nil)
	if a == nil {
		return
	}
	ctx := context.Background()
	// one earlier, quiet write (so that the cache holds an older head to fall back to)
	addN(a, 1, 'q')
	type ack struct {
		e    ipfslog.Entry
		disk *vstub.Cache
	}
	var mu sync.Mutex
	var acks []ack
	vstub.ExploreSchedules(p)
	var wg sync.WaitGroup
	for k := 0; k < w; k++ {
		wg.Add(1)
		go func(k int) {
			defer wg.Done()
			e, err := a.AddOperation(ctx, operation.NewOperation(nil, "ADD", []byte{'w', byte(k)}), nil)
			if err != nil {
				vstub.Fail("C05 concurrent AddOperation failed")
				return
			}
			// the write call has returned successfully: a crash from now on must not lose it
			mu.Lock()
			acks = append(acks, ack{e: e, disk: envA.Cache.Clone()})
			mu.Unlock()
		}(k)
	}
	wg.Wait()
	vstub.ExploreSchedules(0)
	vstub.Cover("burst-written")
	for n, x := range acks {
		r, _ := openWith("a", blocks, x.disk, nil)
		if r == nil {
			return
		}
		if err := r.Load(ctx, -1); err != nil {
			vstub.Fail("C05 Load after the crash failed")
			return
		}
		vstub.WaitIdle()
		vstub.Assert(inLog(r, x.e), "C05 a write acknowledged while other writers are in flight survives a crash right after its acknowledgement")
		for _, earlier := range acks[:n] {
			vstub.Assert(inLog(r, earlier.e), "C05 writes acknowledged earlier survive a crash after a later acknowledgement")
		}
		_ = r.Close()
		vstub.WaitIdle()
	}
	vstub.Cover("recovered")
}

// VerifC05WriteDuringMerge: a local write starts at ANY visible step of the
// replication of a remote batch (fetches, join, cache writes, events of
// replicationLoadComplete) and runs until it blocks.  The disk image is captured
// at the instant the write is acknowledged (a crash right there) and again after
// a clean close: a store reopened over either image and loaded holds the
// acknowledged entry; over the clean-close image it also holds the replicated one.
func VerifC05WriteDuringMerge() {
	blocks := vstub.NewBlocks(nil)
	a, envA := openWith("a", blocks, nil, nil)
	b, _ := openWith("b", blocks, nil, nil)
	if a == nil || b == nil {
		return
	}
	ctx := context.Background()
	addN(a, 1, 'q')
	addN(b, 1+vstub.NdChoice("remote-entries", 2), 'r')
	remote := b.OpLog().Heads().Slice()[0]
	var acked ipfslog.Entry
	var crashImage *vstub.Cache
	done := make(chan struct{})
	fired := false
	write := func() {
		defer close(done)
		e, err := a.AddOperation(ctx, operation.NewOperation(nil, "ADD", []byte("during-merge")), nil)
		if err != nil {
			vstub.Fail("C05 AddOperation during a merge failed")
			return
		}
		acked = e
		crashImage = envA.Cache.Clone()
	}
	vstub.FaultAtAnyStep(func() { fired = true; go write() })
	_ = a.Sync(ctx, []ipfslog.Entry{remote.Copy()})
	vstub.WaitIdle()
	vstub.FaultDisarm()
	if !fired {
		go write()
	}
	<-done
	vstub.WaitIdle()
	if acked == nil {
		return
	}
	vstub.Cover("written-during-merge")
	_ = a.Close()
	vstub.WaitIdle()
	reload := func(img *vstub.Cache, what string, wantRemote bool) {
		r, _ := openWith("a", blocks, img, nil)
		if r == nil {
			return
		}
		if err := r.Load(ctx, -1); err != nil {
			vstub.Fail("C05 Load failed (" + what + ")")
			return
		}
		vstub.WaitIdle()
		vstub.Assert(inLog(r, acked), "C05 a write acknowledged while a replicated batch was being merged survives "+what)
		if wantRemote {
			vstub.Assert(inLog(r, remote), "C05 the replicated batch survives "+what)
		}
		_ = r.Close()
		vstub.WaitIdle()
	}
	reload(crashImage, "a crash right after its acknowledgement", false)
	reload(envA.Cache.Clone(), "a clean close", true)
	vstub.Cover("recovered")
}

package basestore

import (
	"context"

	ipfslog "berty.tech/go-ipfs-log"
	"berty.tech/go-orbit-db/internal/vstub"
	"berty.tech/go-orbit-db/stores/operation"
)

// VerifC05Sessions: CLEAN shutdowns only.  A replica writes T entries and
// replicates a concurrent entry of another writer (local + remote cached heads),
// then goes through S sessions; each session reopens the database from the same
// directory, loads it with a limit (any of 1..total, or everything), optionally
// writes one more entry, and closes cleanly.  Optionally a second handle on the
// same directory is open during a session, writes, and is closed BEFORE the
// first one (the older handle closes last).  Finally the database is reopened
// and loaded in full: every acknowledged write and the replicated entry are
// there, nothing else is.
func VerifC05Sessions() {
	t := vstub.Param("T", 2)
	sessions := vstub.Param("S", 2)
	blocks := vstub.NewBlocks(nil)
	a, envA := openWith("a", blocks, nil, nil)
	if a == nil {
		return
	}
	ctx := context.Background()
	var acks []ipfslog.Entry
	write := func(b *BaseStore, tag byte) bool {
		e, err := b.AddOperation(ctx, operation.NewOperation(nil, "ADD", []byte{tag, byte(len(acks))}), nil)
		if err != nil {
			vstub.Fail("C05 AddOperation failed")
			return false
		}
		acks = append(acks, e)
		return true
	}
	for k := 0; k < t; k++ {
		if !write(a, 'a') {
			return
		}
	}
	bw, _ := openWith("b", blocks, nil, nil)
	if bw == nil {
		return
	}
	addN(bw, 1, 'b')
	remote := bw.OpLog().Heads().Slice()[0]
	if err := a.Sync(ctx, []ipfslog.Entry{remote.Copy()}); err != nil {
		vstub.Fail("C05 Sync failed")
		return
	}
	vstub.WaitIdle()
	vstub.Assert(inLog(a, remote), "C05 harness: the remote entry was replicated")
	_ = a.Close()
	vstub.WaitIdle()
	cache := envA.Cache

	for s := 0; s < sessions; s++ {
		total := len(acks) + 1
		r, _ := openWith("a", blocks, cache, nil)
		if r == nil {
			return
		}
		limit := -1
		if c := vstub.NdChoice("limit", total+1); c > 0 {
			limit = c
			vstub.Cover("partial-load")
		}
		if err := r.Load(ctx, limit); err != nil {
			vstub.Fail("C05 Load failed")
			return
		}
		vstub.WaitIdle()
		var second *BaseStore
		switch vstub.NdChoice("activity", 3) {
		case 0:
		case 1:
			if !write(r, 'w') {
				return
			}
			vstub.Cover("wrote-in-session")
		case 2:
			// a second handle on the same directory, opened and fully loaded later,
			// writes and is closed first
			second, _ = openWith("a", blocks, cache, nil)
			if second == nil {
				return
			}
			if err := second.Load(ctx, -1); err != nil {
				vstub.Fail("C05 Load (second handle) failed")
				return
			}
			vstub.WaitIdle()
			if !write(second, 'x') {
				return
			}
			_ = second.Close()
			vstub.WaitIdle()
			vstub.Cover("second-handle")
		}
		_ = r.Close()
		vstub.WaitIdle()
	}

	f, _ := openWith("a", blocks, cache, nil)
	if f == nil {
		return
	}
	if err := f.Load(ctx, -1); err != nil {
		vstub.Fail("C05 final Load failed")
		return
	}
	vstub.WaitIdle()
	vstub.Cover("reloaded")
	for _, e := range acks {
		vstub.Assert(inLog(f, e), "C05 every acknowledged write survives clean close / reopen sessions")
	}
	vstub.Assert(inLog(f, remote), "C05 a replicated entry survives clean close / reopen sessions")
	vstub.Assert(f.OpLog().Len() == len(acks)+1, "C05 the reloaded log holds exactly what was written or replicated")
}

package basestore

import (
	"context"
	"sync"

	ipfslog "berty.tech/go-ipfs-log"
	"berty.tech/go-orbit-db/internal/vstub"
	"berty.tech/go-orbit-db/stores/operation"
)

// VerifC17CancelledWriter: W writers with live contexts and one writer whose
// context is CANCELLED by one more thread (so the cancellation lands while the
// writer is queued behind another one, while it appends, or after it returned),
// every schedule of these W+2 threads with at most P preemptions.  Whatever the cancelled call returns, every call that returned
// success appended one distinct entry which is in log and view, and after a
// restart and load all of them are still there; a call that returned an error
// left nothing behind that a later success depends on.
func VerifC17CancelledWriter() {
	w := vstub.Param("W", 2)
	p := vstub.Param("P", 1)
	blocks := vstub.NewBlocks(nil)
	b, env := newReplica("a", blocks, false)
	if b == nil {
		return
	}
	env.Cache.Label = headTimes
	entries := make([]ipfslog.Entry, w+1)
	errs := make([]error, w+1)
	cctx, cancel := context.WithCancel(context.Background())
	defer cancel()
	vstub.ExploreSchedules(p)
	var wg sync.WaitGroup
	// the cancellation is one more thread of the schedule: it lands before, between or
	// after any of the writers' visible steps
	wg.Add(1)
	go func() {
		defer wg.Done()
		cancel()
	}()
	for k := 0; k <= w; k++ {
		wg.Add(1)
		go func(k int) {
			defer wg.Done()
			ctx := context.Background()
			if k == w {
				ctx = cctx
			}
			entries[k], errs[k] = b.AddOperation(ctx, operation.NewOperation(nil, "ADD", []byte{'w', byte(k)}), nil)
		}(k)
	}
	wg.Wait()
	vstub.ExploreSchedules(0)
	vstub.Cover("written")
	if errs[w] != nil {
		vstub.Cover("cancelled-call-failed")
	} else {
		vstub.Cover("cancelled-call-succeeded")
	}
	n := 0
	for k := 0; k <= w; k++ {
		if k < w {
			vstub.Assert(errs[k] == nil, "C17 a write with a live context succeeds next to a cancelled one")
		}
		if errs[k] != nil || entries[k] == nil {
			continue
		}
		n++
		for j := 0; j < k; j++ {
			if errs[j] == nil && entries[j] != nil {
				vstub.Assert(!entries[k].GetHash().Equals(entries[j].GetHash()), "C17 each successful call appended a distinct entry (cancelled writer)")
			}
		}
		vstub.Assert(inLog(b, entries[k]) && inView(b, entries[k]), "C17 every acknowledged entry is in log and view (cancelled writer)")
	}
	vstub.Assert(b.OpLog().Len() >= n, "C17 at least one entry per successful call (cancelled writer)")
	_ = b.Close()
	r := reopen(env)
	if r == nil {
		return
	}
	if err := r.Load(context.Background(), -1); err != nil {
		vstub.Fail("C17 Load after restart failed")
		return
	}
	vstub.Cover("reloaded")
	for k := 0; k <= w; k++ {
		if errs[k] == nil && entries[k] != nil {
			vstub.Assert(inLog(r, entries[k]), "C17 every acknowledged entry is still there after restart and load (a queued writer was cancelled)")
		}
	}
}

package basestore

import (
	"context"
	"sync"

	ipfslog "berty.tech/go-ipfs-log"
	"berty.tech/go-orbit-db/internal/vstub"
)

// VerifC02RestartRace: a replica RESTARTS while another replica holds writes it
// has not seen: the restarted store's Load (from its own heads cache) runs
// concurrently with the Sync of the heads the other side sends on seeing it
// join - every schedule of the two with at most P preemptions.  Once both have
// finished and the other side's heads have been exchanged once more (what a heal
// does), the restarted replica holds every acknowledged write of both.
func VerifC02RestartRace() {
	p := vstub.Param("P", 1)
	t := vstub.Param("T", 2)
	blocks := vstub.NewBlocks(nil)
	a, envA := openWith("a", blocks, nil, nil)
	b, _ := openWith("b", blocks, nil, nil)
	if a == nil || b == nil {
		return
	}
	ctx := context.Background()
	addN(a, t, 'a')
	mine := a.OpLog().Values().Slice()
	_ = a.Close()
	vstub.WaitIdle()
	// while a is down b writes (optionally on top of a's history)
	if vstub.NdChoice("b-saw-a", 2) == 1 {
		if err := b.Sync(ctx, []ipfslog.Entry{mine[len(mine)-1].Copy()}); err != nil {
			vstub.Fail("C02 Sync on b failed")
			return
		}
		vstub.WaitIdle()
	}
	addN(b, vstub.Param("B", 1), 'b')
	theirs := b.OpLog().Values().Slice()
	heads := func() []ipfslog.Entry {
		var out []ipfslog.Entry
		for _, h := range b.OpLog().Heads().Slice() {
			out = append(out, h.Copy())
		}
		return out
	}

	r, _ := openWith("a", blocks, envA.Cache, nil)
	if r == nil {
		return
	}
	var wg sync.WaitGroup
	var lerr error
	vstub.ExploreSchedules(p)
	wg.Add(2)
	go func() {
		defer wg.Done()
		lerr = r.Load(ctx, -1)
	}()
	go func() {
		defer wg.Done()
		_ = r.Sync(ctx, heads())
	}()
	wg.Wait()
	vstub.WaitIdle()
	vstub.ExploreSchedules(0)
	if lerr != nil {
		vstub.Fail("C02 Load after restart failed")
		return
	}
	vstub.Cover("raced")
	// the heal: b's heads are exchanged once more
	_ = r.Sync(ctx, heads())
	vstub.WaitIdle()
	vstub.Cover("healed")
	for _, e := range mine {
		vstub.Assert(inLog(r, e), "C02 a restarted replica holds its own acknowledged writes after Load raced a head exchange")
	}
	for _, e := range theirs {
		vstub.Assert(inLog(r, e), "C02 a restarted replica holds the other replica's acknowledged writes after Load raced a head exchange and the heads were exchanged again")
	}
	view := r.Index().Get("").([]ipfslog.Entry)
	vstub.Assert(len(view) == r.OpLog().Len(), "C02 the restarted replica's view shows what its log holds")
}

package basestore

import (
	"context"
	"encoding/json"

	ipfslog "berty.tech/go-ipfs-log"
	"berty.tech/go-ipfs-log/entry"
	"berty.tech/go-orbit-db/internal/vstub"
	"berty.tech/go-orbit-db/internal/vstubodb"
	"berty.tech/go-orbit-db/stores"
	"berty.tech/go-orbit-db/stores/operation"
)

type ack struct {
	hash    string
	effects int // number of persistence effects issued when the acknowledgement was given
}

// ownDisk opens store `name` whose block store and cache log their effects to
// one ordered effect log (the replica's "disk"), with `peers` as remote block stores.
func ownDisk(name string, peers ...*vstub.Blocks) (*BaseStore, *vstubodb.Env) {
	env := vstubodb.NewEnv(name, 1, "db", nil, nil) // own Blocks + Cache share env.Effects
	env.Blocks.Peers = peers
	opts := env.Options(false)
	opts.AccessController = vstubodb.WriteAll()
	b := &BaseStore{}
	if err := b.InitBaseStore(env.IPFS, env.Identity, env.Addr, opts); err != nil {
		vstub.Fail("InitBaseStore failed")
		return nil, env
	}
	return b, env
}

func cachedHeads(c *vstub.Cache, key string) []*entry.Entry {
	raw, ok := c.M[key]
	if !ok {
		return nil
	}
	var heads []*entry.Entry
	if err := json.Unmarshal(raw, &heads); err != nil {
		return nil
	}
	return heads
}

// VerifC05Crash (also decides C16's state-before-event clause): a history of
// local writes and real replications runs on store a, whose block and cache
// writes form one ordered effect log.  Acknowledgements (return of a write
// call, emission of EventReplicated) record the effect count at that instant.
// The crash index is a symbolic integer: the recovered disk is the first c
// effects; a fresh store over it runs the real Load.
func VerifC05Crash() {
	steps := vstub.Param("STEPS", 2)
	remote, renv := openWith("b", vstub.NewBlocks(nil), nil, nil)
	if remote == nil {
		return
	}
	a, env := ownDisk("a", renv.Blocks)
	if a == nil {
		return
	}
	ctx := context.Background()
	var acks []ack
	written := map[string]bool{}
	writeEvents := 0
	type keptEvent struct {
		ev     stores.EventReplicated
		hashes []string
	}
	var kept []keptEvent
	announced := map[string]int{}
	var remoteWritten []string
	hb := env.Bus.(*vstub.HookBus)
	hb.OnEmit = func(evt interface{}) {
		switch e := evt.(type) {
		case stores.EventWrite:
			writeEvents++
			// C16: when the write event is emitted, queries already reflect the entry
			_, inLog := a.OpLog().Get(e.Entry.GetHash())
			vstub.Assert(inLog, "C16 on EventWrite the entry is already in the log")
			listed := false
			for _, x := range a.Index().Get("").([]ipfslog.Entry) {
				if x.GetHash().Equals(e.Entry.GetHash()) {
					listed = true
				}
			}
			vstub.Assert(listed, "C16 on EventWrite the view already reflects the entry")
		case stores.EventReplicated:
			n := env.Effects.Len()
			// a subscriber may read this event arbitrarily late: keep it, with what it announced now
			var announcedNow []string
			for _, x := range e.Entries {
				announcedNow = append(announcedNow, x.GetHash().String())
				announced[x.GetHash().String()]++
			}
			kept = append(kept, keptEvent{ev: e, hashes: announcedNow})
			for _, x := range e.Entries {
				acks = append(acks, ack{hash: x.GetHash().String(), effects: n})
				_, inLog := a.OpLog().Get(x.GetHash())
				vstub.Assert(inLog, "C16 on EventReplicated every announced entry is already in the log")
			}
			// the merged heads are already persisted when the batch is reported
			covered := map[string]bool{}
			for _, h := range cachedHeads(env.Cache, "/_remoteHeads") {
				covered[h.Hash.String()] = true
			}
			for _, h := range a.OpLog().Heads().Slice() {
				vstub.Assert(covered[h.GetHash().String()], "C16/C05 on EventReplicated the merged heads are already persisted")
			}
			vstub.Cover("replicated-event")
		}
	}
	writes := 0
	for s := 0; s < steps; s++ {
		switch vstub.NdChoice("step", 2) {
		case 0: // local write
			e, err := a.AddOperation(ctx, operation.NewOperation(nil, "ADD", vstub.NdBytes("val", 1)), nil)
			if err != nil {
				vstub.Fail("C05 AddOperation failed")
				return
			}
			writes++
			acks = append(acks, ack{hash: e.GetHash().String(), effects: env.Effects.Len()})
			written[e.GetHash().String()] = true
			vstub.Cover("local-write")
		case 1: // the remote writer writes, a replicates the batch
			e, err := remote.AddOperation(ctx, operation.NewOperation(nil, "ADD", vstub.NdBytes("val", 1)), nil)
			if err != nil {
				vstub.Fail("C05 remote AddOperation failed")
				return
			}
			written[e.GetHash().String()] = true
			remoteWritten = append(remoteWritten, e.GetHash().String())
			if err := a.Sync(ctx, remote.OpLog().Heads().Slice()); err != nil {
				vstub.Fail("C05 Sync failed")
				return
			}
			vstub.WaitIdle()
		}
	}
	vstub.Assert(writeEvents == writes, "C16 exactly one write event per successful local write")
	// a subscriber that reads the replicated events only now (however slowly it
	// reads) still sees, in each of them, the batch it announced when emitted;
	// every merged remote entry was announced by exactly one event
	for _, k := range kept {
		vstub.Assert(len(k.ev.Entries) == len(k.hashes), "C16 a replicated event read late still announces its own batch (size)")
		if len(k.ev.Entries) == len(k.hashes) {
			for j, x := range k.ev.Entries {
				vstub.Assert(x.GetHash().String() == k.hashes[j], "C16 a replicated event read late still announces its own batch")
			}
		}
	}
	for _, h := range remoteWritten {
		vstub.Assert(announced[h] == 1, "C16 every merged remote entry is announced by exactly one replicated event")
	}
	for _, e := range a.OpLog().Values().Slice() {
		written[e.GetHash().String()] = true
	}
	hb.OnEmit = nil

	// ---- crash: keep the first c effects only
	effects := env.Effects.Effects
	total := len(effects)
	c := vstub.NdInt("crashIndex")
	vstub.Assume(c >= 0)
	vstub.Assume(c <= total)
	disk := vstub.NewBlocks(nil)
	cache := vstub.NewCache(nil)
	for k, ef := range effects {
		if k >= c {
			break
		}
		switch ef.Kind {
		case "block":
			disk.PutKey(ef.Key, ef.Obj)
		case "cache-put":
			cache.M[ef.Key] = ef.Value
		case "cache-del":
			delete(cache.M, ef.Key)
		}
	}
	r, _ := openWith("a", disk, cache, nil)
	if r == nil {
		return
	}
	err := r.Load(ctx, -1)
	vstub.Cover("recovered")
	vstub.Assert(err == nil, "C05 Load after a crash returns no error")
	rec := map[string]bool{}
	for _, e := range r.OpLog().Values().Slice() {
		rec[e.GetHash().String()] = true
	}
	for _, k := range acks {
		if k.effects <= c {
			vstub.Assert(rec[k.hash], "C05 every entry acknowledged before the crash is recovered")
		}
	}
	for _, e := range r.OpLog().Values().Slice() {
		vstub.Assert(written[e.GetHash().String()], "C05 only entries that were really written are recovered")
		for _, n := range e.GetNext() {
			vstub.Assert(rec[n.String()], "C05 the recovered log is closed under ancestry")
		}
	}
	view := r.Index().Get("").([]ipfslog.Entry)
	vstub.Assert(len(view) == len(rec), "C05 the recovered view lists exactly the recovered entries")
}

// VerifC16Backfill: a merged remote batch produces a replicated event even when
// it does not move the heads: a store loads only the k most recent entries of a
// persisted chain (limit), then receives - by Sync or LoadMoreFrom - the newest
// entry below its window; the replicator fetches the older history and merges
// it behind the current heads.  Every merged entry is announced by exactly one
// EventReplicated, and when the event is emitted the entries are in the log.
func VerifC16Backfill() {
	t := vstub.Param("T", 4)
	blocks := vstub.NewBlocks(nil)
	a, envA := openWith("a", blocks, nil, nil)
	if a == nil {
		return
	}
	ctx := context.Background()
	addN(a, t, 'a')
	all := a.OpLog().Values().Slice()
	_ = a.Close()
	r, envR := openWith("a", blocks, envA.Cache, nil)
	if r == nil {
		return
	}
	k := 1 + vstub.NdChoice("window", t-1)
	if err := r.Load(ctx, k); err != nil {
		vstub.Fail("C16 partial Load failed")
		return
	}
	vstub.WaitIdle()
	vstub.Assert(r.OpLog().Len() == k, "C16 harness: the window holds k entries")
	announced := map[string]int{}
	events := 0
	hb := envR.Bus.(*vstub.HookBus)
	hb.OnEmit = func(evt interface{}) {
		if e, ok := evt.(stores.EventReplicated); ok {
			events++
			for _, x := range e.Entries {
				announced[x.GetHash().String()]++
				_, inLog := r.OpLog().Get(x.GetHash())
				vstub.Assert(inLog, "C16 on EventReplicated every announced entry is already in the log")
			}
		}
	}
	below := all[len(all)-k-1] // the newest entry the store does not hold
	if vstub.NdChoice("via", 2) == 0 {
		_ = r.Sync(ctx, []ipfslog.Entry{below.Copy()})
	} else {
		r.LoadMoreFrom(ctx, 0, []ipfslog.Entry{below.Copy()})
	}
	vstub.WaitIdle()
	hb.OnEmit = nil
	vstub.Cover("backfilled")
	vstub.Assert(r.OpLog().Len() == t, "C16/C01 the older history is merged behind the current heads")
	vstub.Assert(events >= 1, "C16 a merged remote batch produces a replicated event even if the heads do not move")
	for j := 0; j < len(all)-k; j++ {
		vstub.Assert(announced[all[j].GetHash().String()] == 1, "C16 every merged entry is announced by exactly one replicated event")
	}
}

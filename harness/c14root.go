package orbitdb

import (
	"context"

	"berty.tech/go-orbit-db/cache/cacheleveldown"
	"berty.tech/go-orbit-db/internal/vstub"
	"berty.tech/go-orbit-db/internal/vstubodb"
)

var verifHarnesses = map[string]func(){
	"VerifC14Helpers": VerifC14Helpers,
}

// VerifC14Helpers: the public package's instance (orbitdb.NewOrbitDB: default
// store types and access controllers registered) and its typed helpers Log /
// KeyValue / Docs.  A database made by one helper has the helper's type, its
// address opens again through the same helper as the same database with its
// data, and opening that address through ANOTHER helper is refused (the type
// recorded in the manifest decides, not the helper).
func VerifC14Helpers() {
	net := vstubodb.NewNet()
	env := vstubodb.NewEnv("alice", 1, "unused", nil, nil)
	dag := vstub.NewMemDag()
	env.IPFS.DagStore = dag
	node := net.Node(env.IPFS.Peer)
	dir := vstub.Dir("/data/alice")
	ctx := context.Background()
	o, err := NewOrbitDB(ctx, env.IPFS, &NewOrbitDBOptions{
		Cache: cacheleveldown.New(nil), Directory: &dir, DirectChannelFactory: node.DirectFactory(),
		PubSub: node, EventBus: env.Bus, PeerID: env.IPFS.Peer,
	})
	if err != nil {
		vstub.Fail("C14 NewOrbitDB failed")
		return
	}
	no := false
	opts := func() *CreateDBOptions { return &CreateDBOptions{IO: env.IO, Replicate: &no} }
	kind := vstub.NdChoice("helper", 3)
	name := "db" + vstub.NdString("name", 1)
	var st Store
	switch kind {
	case 0:
		l, err := o.Log(ctx, name, opts())
		if err != nil {
			vstub.Cover("refused")
			return
		}
		if _, err := l.Add(ctx, []byte("x")); err != nil {
			vstub.Fail("C14 Add failed")
			return
		}
		st = l
	case 1:
		kv, err := o.KeyValue(ctx, name, opts())
		if err != nil {
			vstub.Cover("refused")
			return
		}
		if _, err := kv.Put(ctx, "k", []byte("x")); err != nil {
			vstub.Fail("C14 Put failed")
			return
		}
		st = kv
	case 2:
		d, err := o.Docs(ctx, name, opts())
		if err != nil {
			vstub.Cover("refused")
			return
		}
		if _, err := d.Put(ctx, map[string]interface{}{"_id": "k", "v": "x"}); err != nil {
			vstub.Fail("C14 Put failed")
			return
		}
		st = d
	}
	want := []string{"eventlog", "keyvalue", "docstore"}[kind]
	vstub.Cover("created")
	vstub.Assert(st.Type() == want, "C14 a database made by a typed helper has that helper's type")
	addr := st.Address().String()
	_ = st.Close()
	vstub.WaitIdle()

	// the address through another helper: the recorded type decides
	other := (kind + 1 + vstub.NdChoice("other", 2)) % 3
	var oerr error
	switch other {
	case 0:
		_, oerr = o.Log(ctx, addr, opts())
	case 1:
		_, oerr = o.KeyValue(ctx, addr, opts())
	case 2:
		_, oerr = o.Docs(ctx, addr, opts())
	}
	vstub.Assert(oerr != nil, "C14 opening an address through a helper of another type is refused (the recorded type decides)")
	vstub.WaitIdle()
	// whatever the refused open created is closed again by closing and re-creating the instance
	_ = o.Close()
	vstub.WaitIdle()
	env2 := vstubodb.NewEnv("alice", 1, "unused", env.Blocks, nil)
	env2.IPFS.DagStore = dag
	node2 := net.Node(env2.IPFS.Peer)
	o2, err := NewOrbitDB(ctx, env2.IPFS, &NewOrbitDBOptions{
		Cache: cacheleveldown.New(nil), Directory: &dir, DirectChannelFactory: node2.DirectFactory(),
		PubSub: node2, EventBus: env2.Bus, PeerID: env2.IPFS.Peer,
	})
	if err != nil {
		vstub.Fail("C14 second NewOrbitDB failed")
		return
	}
	opts2 := &CreateDBOptions{IO: env2.IO, Replicate: &no}
	var again Store
	switch kind {
	case 0:
		again, err = o2.Log(ctx, addr, opts2)
	case 1:
		again, err = o2.KeyValue(ctx, addr, opts2)
	case 2:
		again, err = o2.Docs(ctx, addr, opts2)
	}
	vstub.Assert(err == nil, "C14 the address opens again through the helper of its own type")
	if err != nil {
		return
	}
	vstub.Cover("reopened")
	vstub.Assert(again.Type() == want && again.Address().String() == addr, "C14 the reopened store is the same database, of the recorded type")
	if err := again.Load(ctx, -1); err != nil {
		vstub.Fail("C14 Load failed")
		return
	}
	vstub.WaitIdle()
	vstub.Assert(again.OpLog().Len() == 1, "C05 the reopened database holds its acknowledged write")
}

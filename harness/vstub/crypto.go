package vstub

import (
	"fmt"
	"io"

	"github.com/libp2p/go-libp2p/core/crypto"
	pb "github.com/libp2p/go-libp2p/core/crypto/pb"
)

// Stand-ins for secp256k1 key handling under the interpreter (the functions
// below replace libp2p's by name; natively the real ones run).  A private key
// is an opaque token; its public key is derived from it injectively; signing is
// the perfect symbolic signature of SignToken, so
//   verify(pub(k), m, s) <=> s = sign(k, m).
// Freshly generated keys are pairwise distinct (a counter stands for the
// randomness), and a key read back from its Raw() bytes is the same key.

type PrivKey struct {
	crypto.PrivKey
	raw []byte
}

var keyCounter int

// GenerateSecp256k1Key replaces crypto.GenerateSecp256k1Key.
func GenerateSecp256k1Key(src io.Reader) (crypto.PrivKey, crypto.PubKey, error) {
	keyCounter++
	k := &PrivKey{raw: []byte(fmt.Sprintf("sk-%d", keyCounter))}
	return k, k.GetPublic(), nil
}

// UnmarshalSecp256k1PrivateKey replaces crypto.UnmarshalSecp256k1PrivateKey.
func UnmarshalSecp256k1PrivateKey(data []byte) (crypto.PrivKey, error) {
	if len(data) < 3 || data[0] != 's' || data[1] != 'k' || data[2] != '-' {
		return nil, fmt.Errorf("invalid private key")
	}
	return &PrivKey{raw: append([]byte{}, data...)}, nil
}

// UnmarshalSecp256k1PublicKey replaces crypto.UnmarshalSecp256k1PublicKey.
func UnmarshalSecp256k1PublicKey(data []byte) (crypto.PubKey, error) {
	if len(data) == 0 {
		return nil, fmt.Errorf("invalid public key")
	}
	return &PubKey{raw: data}, nil
}

func (k *PrivKey) Raw() ([]byte, error) { return k.raw, nil }
func (k *PrivKey) Type() pb.KeyType     { return pb.KeyType_Secp256k1 }
func (k *PrivKey) Equals(o crypto.Key) bool {
	r, err := o.Raw()
	return err == nil && string(r) == string(k.raw)
}
func (k *PrivKey) GetPublic() crypto.PubKey {
	return &PubKey{raw: append([]byte("pk-of-"), k.raw...)}
}
func (k *PrivKey) Sign(data []byte) ([]byte, error) {
	pub, _ := k.GetPublic().Raw()
	return SignToken(pub, data), nil
}

func (k *PubKey) Type() pb.KeyType { return pb.KeyType_Secp256k1 }
func (k *PubKey) Equals(o crypto.Key) bool {
	r, err := o.Raw()
	return err == nil && string(r) == string(k.raw)
}

// KeyTypeString replaces (pb.KeyType).String (generated protobuf code).
func KeyTypeString(t pb.KeyType) string {
	switch t {
	case pb.KeyType_RSA:
		return "RSA"
	case pb.KeyType_Ed25519:
		return "Ed25519"
	case pb.KeyType_Secp256k1:
		return "Secp256k1"
	case pb.KeyType_ECDSA:
		return "ECDSA"
	}
	return "unknown"
}

// SameBytes replaces identityprovider.compressedToUncompressedS256Key (a change
// of representation of the same key).
func SameBytes(b []byte) ([]byte, error) { return b, nil }

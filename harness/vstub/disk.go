package vstub

import (
	"errors"
	"os"
	"path/filepath"
	"strings"
	"sync"
)

// Disk models the local file system as far as the cache manager uses it: one
// key/value store per directory path, surviving Close, removed by RemoveAll.
// Under the interpreter leveldb.NewDatastore(path) opens DiskOpen(path) and
// os.RemoveAll(path) calls DiskRemoveAll(path); natively the real leveldb runs.
var (
	diskMu sync.Mutex
	disk   = map[string]*Cache{}
	// DiskEffects receives the effects of every store opened from the disk.
	DiskEffects *EffectLog
)

// diskAliases maps a directory spelling to the directory it designates (a
// symbolic link natively): see DirAlias.
var diskAliases = map[string]string{}

// resolveAlias rewrites a path that goes through an aliased directory.
func resolveAlias(path string) string {
	for a, t := range diskAliases {
		if path == a {
			return t
		}
		if strings.HasPrefix(path, a+"/") {
			return t + path[len(a):]
		}
	}
	return path
}

// DirAlias returns ANOTHER spelling of the directory Dir(target) designates:
// natively a symbolic link to it; under the interpreter (dirAliasModel) the
// alias path itself, which the disk model resolves to the target.
func DirAlias(alias, target string) string {
	a, t := Dir(alias), Dir(target)
	_ = os.MkdirAll(filepath.Dir(a), 0o755)
	_ = os.MkdirAll(t, 0o755)
	_ = os.Symlink(t, a)
	return a
}

func dirAliasModel(alias, target string) string {
	diskMu.Lock()
	defer diskMu.Unlock()
	diskAliases[alias] = target
	return alias
}

func DiskOpen(path string) (*Cache, error) {
	diskMu.Lock()
	defer diskMu.Unlock()
	path = resolveAlias(path)
	if path == "" {
		// in-memory leveldb: a fresh private store
		return NewCache(DiskEffects), nil
	}
	c, ok := disk[path]
	if !ok {
		c = NewCache(DiskEffects)
		disk[path] = c
	}
	// leveldb holds a LOCK file while a directory is open: a second open of a
	// store that was not closed fails (as the real one does)
	if c.Locked {
		return nil, errDiskLocked
	}
	c.Locked = true
	return c, nil
}

var errDiskLocked = errors.New("leveldb: resource temporarily unavailable (directory is locked by an open store)")

// DiskRemoveAll removes path and everything beneath it.
func DiskRemoveAll(path string) error {
	diskMu.Lock()
	defer diskMu.Unlock()
	path = resolveAlias(path)
	for p := range disk {
		if p == path || strings.HasPrefix(p, path+"/") {
			delete(disk, p)
		}
	}
	return nil
}

// DiskPaths lists the directories that currently hold a store.
func DiskPaths() []string {
	diskMu.Lock()
	defer diskMu.Unlock()
	var out []string
	for p := range disk {
		out = append(out, p)
	}
	return out
}

// DiskHas reports whether a store exists at path with at least one key
// (natively: whether the directory exists and is not empty).
func DiskHas(path string) bool {
	entries, err := os.ReadDir(path)
	return err == nil && len(entries) > 0
}

// diskHasModel is DiskHas under the interpreter (substituted by name).
func diskHasModel(path string) bool {
	diskMu.Lock()
	defer diskMu.Unlock()
	path = resolveAlias(path)
	c, ok := disk[path]
	return ok && len(c.M) > 0
}

// Dir returns the directory an instance should use for the logical path p:
// under the interpreter p itself (the disk model keeps one store per path);
// natively a private temporary directory standing for p, so that replays use
// the real leveldb on a real file system without touching anything else.
func Dir(p string) string {
	nativeMu.Lock()
	defer nativeMu.Unlock()
	if nativeBase == "" {
		d, err := os.MkdirTemp("", "verif-disk")
		if err != nil {
			panic(err)
		}
		nativeBase = d
	}
	return filepath.Join(nativeBase, p)
}

// Cleanup removes the native temporary directories (called by the replay test).
func Cleanup() {
	nativeMu.Lock()
	defer nativeMu.Unlock()
	if nativeBase != "" {
		os.RemoveAll(nativeBase)
		nativeBase = ""
	}
}

var (
	nativeMu   sync.Mutex
	nativeBase string
)

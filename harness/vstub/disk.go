package vstub

import (
	"strings"
	"sync"
)

// Disk models the local file system as far as the cache manager uses it: one
// key/value store per directory path, surviving Close, removed by RemoveAll.
// Under the interpreter leveldb.NewDatastore(path) opens DiskOpen(path) and
// os.RemoveAll(path) calls DiskRemoveAll(path); natively the real leveldb runs.
var (
	diskMu sync.Mutex
	disk   = map[string]*Cache{}
	// DiskEffects receives the effects of every store opened from the disk.
	DiskEffects *EffectLog
)

func DiskOpen(path string) *Cache {
	diskMu.Lock()
	defer diskMu.Unlock()
	if path == "" {
		// in-memory leveldb: a fresh private store
		return NewCache(DiskEffects)
	}
	c, ok := disk[path]
	if !ok {
		c = NewCache(DiskEffects)
		disk[path] = c
	}
	return c
}

// DiskRemoveAll removes path and everything beneath it.
func DiskRemoveAll(path string) error {
	diskMu.Lock()
	defer diskMu.Unlock()
	for p := range disk {
		if p == path || strings.HasPrefix(p, path+"/") {
			delete(disk, p)
		}
	}
	return nil
}

// DiskPaths lists the directories that currently hold a store.
func DiskPaths() []string {
	diskMu.Lock()
	defer diskMu.Unlock()
	var out []string
	for p := range disk {
		out = append(out, p)
	}
	return out
}

// DiskHas reports whether a store exists at path with at least one key.
func DiskHas(path string) bool {
	diskMu.Lock()
	defer diskMu.Unlock()
	c, ok := disk[path]
	return ok && len(c.M) > 0
}

// Dir returns the directory an instance should use: under the interpreter the
// given path (the disk model keeps one store per path); natively the in-memory
// marker of the cache manager, so that replays never touch the real file system.
func Dir(path string) string { return ":memory:" }

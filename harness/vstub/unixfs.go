package vstub

import (
	"context"
	"fmt"
	"io"
	"sync"

	"github.com/ipfs/boxo/files"
	"github.com/ipfs/boxo/path"
	coreiface "github.com/ipfs/kubo/core/coreiface"
	"github.com/ipfs/kubo/core/coreiface/options"
)

// MemFile is an in-memory files.File.  Under the interpreter
// files.NewBytesFile is replaced by NewMemFile, and Read is FileRead (an
// interpreter primitive that also understands byte sequences whose segment
// lengths are symbolic).
type MemFile struct {
	files.File
	Data []byte
	Pos  int
}

func NewMemFile(b []byte) files.File { return &MemFile{Data: b} }

func (f *MemFile) Close() error         { return nil }
func (f *MemFile) Size() (int64, error) { return int64(len(f.Data)), nil }
func (f *MemFile) Read(p []byte) (int, error) {
	return FileRead(f, p)
}

// FileRead copies the next len(p) bytes of f into p (bytes.Reader semantics).
func FileRead(f *MemFile, p []byte) (int, error) {
	if f.Pos >= len(f.Data) {
		return 0, io.EOF
	}
	n := copy(p, f.Data[f.Pos:])
	f.Pos += n
	return n, nil
}

// Unixfs is an in-memory UnixfsAPI: Add stores the file's bytes under their
// content address, Get returns a fresh reader over them.
type Unixfs struct {
	coreiface.UnixfsAPI
	mu    sync.Mutex
	files map[string][]byte
	Adds  int
}

func (u *Unixfs) Add(ctx context.Context, n files.Node, opts ...options.UnixfsAddOption) (path.ImmutablePath, error) {
	var data []byte
	if mf, ok := n.(*MemFile); ok {
		data = mf.Data
	} else if r, ok := n.(io.Reader); ok {
		b, err := io.ReadAll(r)
		if err != nil {
			return path.ImmutablePath{}, err
		}
		data = b
	} else {
		return path.ImmutablePath{}, fmt.Errorf("vstub.Unixfs: not a file")
	}
	u.mu.Lock()
	u.Adds++
	c := CidFromToken(Hash(fmt.Sprintf("unixfs-%d-%s", u.Adds, FileToken(data))))
	p := path.FromCid(c)
	u.files[p.String()] = data
	u.mu.Unlock()
	return p, nil
}

// FileToken summarises file content for addressing (the interpreter substitutes a fresh token).
func FileToken(data []byte) string { return Hash(string(data)) }

func (u *Unixfs) Get(ctx context.Context, p path.Path) (files.Node, error) {
	u.mu.Lock()
	defer u.mu.Unlock()
	data, ok := u.files[p.String()]
	if !ok {
		return nil, fmt.Errorf("vstub.Unixfs: %s not found", p.String())
	}
	return NewMemFile(data), nil
}

func (c *CoreAPI) Unixfs() coreiface.UnixfsAPI {
	if c.Files == nil {
		c.Files = &Unixfs{files: map[string][]byte{}}
	}
	return c.Files
}

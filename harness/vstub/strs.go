package vstub

// Naive byte-loop versions of the strings/bytes functions the encoded code
// calls.  The interpreter substitutes them for the library versions (which use
// assembly / unsafe); being ordinary Go they handle symbolic bytes by forking.
// `go test` differential-tests them against the real library (strs_test in setup).

import "strings"

func StringsIndex(s, sep string) int {
	n := len(sep)
	if n == 0 {
		return 0
	}
	for i := 0; i+n <= len(s); i++ {
		if s[i:i+n] == sep {
			return i
		}
	}
	return -1
}

func StringsLastIndex(s, sep string) int {
	n := len(sep)
	if n == 0 {
		return len(s)
	}
	for i := len(s) - n; i >= 0; i-- {
		if s[i:i+n] == sep {
			return i
		}
	}
	return -1
}

func StringsContains(s, sub string) bool { return StringsIndex(s, sub) >= 0 }

func StringsHasPrefix(s, p string) bool { return len(s) >= len(p) && s[:len(p)] == p }

func StringsHasSuffix(s, p string) bool { return len(s) >= len(p) && s[len(s)-len(p):] == p }

func StringsTrimPrefix(s, p string) string {
	if StringsHasPrefix(s, p) {
		return s[len(p):]
	}
	return s
}

func StringsTrimSuffix(s, p string) string {
	if StringsHasSuffix(s, p) {
		return s[:len(s)-len(p)]
	}
	return s
}

func StringsJoin(elems []string, sep string) string {
	out := ""
	for i, e := range elems {
		if i > 0 {
			out += sep
		}
		out += e
	}
	return out
}

func StringsRepeat(s string, count int) string {
	if count < 0 {
		panic("strings: negative Repeat count")
	}
	out := ""
	for i := 0; i < count; i++ {
		out += s
	}
	return out
}

func StringsSplit(s, sep string) []string {
	if sep == "" {
		out := make([]string, 0, len(s))
		for i := 0; i < len(s); i++ {
			out = append(out, s[i:i+1])
		}
		return out
	}
	out := []string{}
	for {
		i := StringsIndex(s, sep)
		if i < 0 {
			break
		}
		out = append(out, s[:i])
		s = s[i+len(sep):]
	}
	return append(out, s)
}

func StringsReplaceAll(s, old, new string) string {
	if old == "" {
		panic("vstub: ReplaceAll with empty old is not modelled")
	}
	out := ""
	for {
		i := StringsIndex(s, old)
		if i < 0 {
			break
		}
		out += s[:i] + new
		s = s[i+len(old):]
	}
	return out + s
}

// StringsToLower is exact for ASCII; other bytes are left unchanged (stated restriction).
func StringsToLower(s string) string {
	b := []byte(s)
	for i := range b {
		// branch-free (no fork on symbolic bytes): add 0x20 iff 'A' <= b[i] <= 'Z'
		b[i] += byte((int(b[i]-'A')-26)>>8) & 0x20
	}
	return string(b)
}

func StringsCompare(a, b string) int {
	if a == b {
		return 0
	}
	if a < b {
		return -1
	}
	return 1
}

func BytesCompare(a, b []byte) int { return StringsCompare(string(a), string(b)) }

func BytesEqual(a, b []byte) bool { return string(a) == string(b) }

// strings.Builder stand-in (its String() uses unsafe.String/SliceData): the
// builder pointer is an identity, the bytes live in a side table.
var builders = map[*strings.Builder][]byte{}

func BuilderWriteString(b *strings.Builder, s string) (int, error) {
	builders[b] = append(builders[b], s...)
	return len(s), nil
}
func BuilderWriteByte(b *strings.Builder, c byte) error {
	builders[b] = append(builders[b], c)
	return nil
}
func BuilderWrite(b *strings.Builder, p []byte) (int, error) {
	builders[b] = append(builders[b], p...)
	return len(p), nil
}
func BuilderWriteRune(b *strings.Builder, r rune) (int, error) {
	if r < 0x80 {
		builders[b] = append(builders[b], byte(r))
		return 1, nil
	}
	s := string(r)
	builders[b] = append(builders[b], s...)
	return len(s), nil
}
func BuilderString(b *strings.Builder) string { return string(builders[b]) }
func BuilderLen(b *strings.Builder) int       { return len(builders[b]) }
func BuilderCap(b *strings.Builder) int       { return cap(builders[b]) }
func BuilderGrow(b *strings.Builder, n int)   {}
func BuilderReset(b *strings.Builder)         { delete(builders, b) }

// naive versions of the assembly primitives of internal/bytealg
func BACountString(s string, c byte) int {
	n := 0
	for i := 0; i < len(s); i++ {
		if s[i] == c {
			n++
		}
	}
	return n
}
func BACount(b []byte, c byte) int {
	n := 0
	for i := 0; i < len(b); i++ {
		if b[i] == c {
			n++
		}
	}
	return n
}
func BAIndexByte(b []byte, c byte) int {
	for i := 0; i < len(b); i++ {
		if b[i] == c {
			return i
		}
	}
	return -1
}
func BAIndexByteString(s string, c byte) int {
	for i := 0; i < len(s); i++ {
		if s[i] == c {
			return i
		}
	}
	return -1
}
func BALastIndexByte(b []byte, c byte) int {
	for i := len(b) - 1; i >= 0; i-- {
		if b[i] == c {
			return i
		}
	}
	return -1
}
func BALastIndexByteString(s string, c byte) int {
	for i := len(s) - 1; i >= 0; i-- {
		if s[i] == c {
			return i
		}
	}
	return -1
}
func BAIndexString(a, b string) int { return StringsIndex(a, b) }
func BAIndex(a, b []byte) int       { return StringsIndex(string(a), string(b)) }
func BAEqual(a, b []byte) bool      { return BytesEqual(a, b) }
func BACompare(a, b []byte) int     { return BytesCompare(a, b) }

package vstub

import (
	"sync"
	"time"
)

// Timers and tickers on the interpreter's VIRTUAL time (time.After fires only
// when no thread can run and no harness thread waits for quiescence).  The
// *time.Timer / *time.Ticker objects are identities; their state is in side
// tables.  Replaced by name under the interpreter; natively the real ones run.

type timerState struct {
	stop  chan struct{}
	fired bool
}

var (
	timersMu sync.Mutex
	timers   = map[*time.Timer]*timerState{}
	tickers  = map[*time.Ticker]chan struct{}{}
)

func armTimer(t *time.Timer, d time.Duration, ch chan time.Time, f func()) {
	st := &timerState{stop: make(chan struct{})}
	timersMu.Lock()
	timers[t] = st
	timersMu.Unlock()
	go func() {
		select {
		case tv := <-time.After(d):
			timersMu.Lock()
			st.fired = true
			timersMu.Unlock()
			if f != nil {
				f()
				return
			}
			select {
			case ch <- tv:
			default:
			}
		case <-st.stop:
		}
	}()
}

func TimeNewTimer(d time.Duration) *time.Timer {
	ch := make(chan time.Time, 1)
	t := &time.Timer{C: ch}
	armTimer(t, d, ch, nil)
	return t
}

func TimeAfterFunc(d time.Duration, f func()) *time.Timer {
	t := &time.Timer{}
	armTimer(t, d, nil, f)
	return t
}

// TimerStop reports whether the call stopped the timer before it fired.
func TimerStop(t *time.Timer) bool {
	timersMu.Lock()
	st := timers[t]
	if st == nil || st.fired {
		timersMu.Unlock()
		return false
	}
	delete(timers, t)
	timersMu.Unlock()
	close(st.stop)
	return true
}

func TimerReset(t *time.Timer, d time.Duration) bool {
	active := TimerStop(t)
	var ch chan time.Time
	if t.C != nil {
		ch = make(chan time.Time, 1)
		t.C = ch
	}
	armTimer(t, d, ch, nil)
	return active
}

func TimeNewTicker(d time.Duration) *time.Ticker {
	ch := make(chan time.Time, 1)
	tk := &time.Ticker{C: ch}
	stop := make(chan struct{})
	timersMu.Lock()
	tickers[tk] = stop
	timersMu.Unlock()
	go func() {
		for k := 0; k < 64; k++ {
			select {
			case tv := <-time.After(d):
				select {
				case ch <- tv:
				default:
				}
			case <-stop:
				return
			}
		}
	}()
	return tk
}

func TickerStop(tk *time.Ticker) {
	timersMu.Lock()
	stop := tickers[tk]
	delete(tickers, tk)
	timersMu.Unlock()
	if stop != nil {
		close(stop)
	}
}

func TimeTick(d time.Duration) <-chan time.Time { return TimeNewTicker(d).C }

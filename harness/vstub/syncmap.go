package vstub

import "sync"

// Stand-ins for sync.Map and sync.Pool under the interpreter (their methods are
// replaced by name; the real ones are built on atomics and unsafe pointers).
// A *sync.Map is used as an identity; its contents live in a side table as an
// insertion-ordered association list (Range iterates in insertion order).

type syncMapEntry struct {
	k, v interface{}
}

type syncMapState struct {
	entries []syncMapEntry
}

var (
	syncMapsMu sync.Mutex
	syncMaps   = map[*sync.Map]*syncMapState{}
	syncPools  = map[*sync.Pool][]interface{}{}
)

func syncMapOf(m *sync.Map) *syncMapState {
	s := syncMaps[m]
	if s == nil {
		s = &syncMapState{}
		syncMaps[m] = s
	}
	return s
}

func SyncMapLoad(m *sync.Map, key interface{}) (interface{}, bool) {
	syncMapsMu.Lock()
	defer syncMapsMu.Unlock()
	for _, e := range syncMapOf(m).entries {
		if e.k == key {
			return e.v, true
		}
	}
	return nil, false
}

func SyncMapStore(m *sync.Map, key, value interface{}) {
	syncMapsMu.Lock()
	defer syncMapsMu.Unlock()
	s := syncMapOf(m)
	for i := range s.entries {
		if s.entries[i].k == key {
			s.entries[i].v = value
			return
		}
	}
	s.entries = append(s.entries, syncMapEntry{key, value})
}

func SyncMapLoadOrStore(m *sync.Map, key, value interface{}) (interface{}, bool) {
	syncMapsMu.Lock()
	defer syncMapsMu.Unlock()
	s := syncMapOf(m)
	for _, e := range s.entries {
		if e.k == key {
			return e.v, true
		}
	}
	s.entries = append(s.entries, syncMapEntry{key, value})
	return value, false
}

func SyncMapLoadAndDelete(m *sync.Map, key interface{}) (interface{}, bool) {
	syncMapsMu.Lock()
	defer syncMapsMu.Unlock()
	s := syncMapOf(m)
	for i, e := range s.entries {
		if e.k == key {
			s.entries = append(s.entries[:i:i], s.entries[i+1:]...)
			return e.v, true
		}
	}
	return nil, false
}

func SyncMapDelete(m *sync.Map, key interface{}) { SyncMapLoadAndDelete(m, key) }

func SyncMapSwap(m *sync.Map, key, value interface{}) (interface{}, bool) {
	syncMapsMu.Lock()
	defer syncMapsMu.Unlock()
	s := syncMapOf(m)
	for i := range s.entries {
		if s.entries[i].k == key {
			old := s.entries[i].v
			s.entries[i].v = value
			return old, true
		}
	}
	s.entries = append(s.entries, syncMapEntry{key, value})
	return nil, false
}

func SyncMapCompareAndSwap(m *sync.Map, key, old, new interface{}) bool {
	syncMapsMu.Lock()
	defer syncMapsMu.Unlock()
	s := syncMapOf(m)
	for i := range s.entries {
		if s.entries[i].k == key && s.entries[i].v == old {
			s.entries[i].v = new
			return true
		}
	}
	return false
}

func SyncMapCompareAndDelete(m *sync.Map, key, old interface{}) bool {
	syncMapsMu.Lock()
	defer syncMapsMu.Unlock()
	s := syncMapOf(m)
	for i, e := range s.entries {
		if e.k == key && e.v == old {
			s.entries = append(s.entries[:i:i], s.entries[i+1:]...)
			return true
		}
	}
	return false
}

func SyncMapRange(m *sync.Map, f func(key, value interface{}) bool) {
	syncMapsMu.Lock()
	snapshot := append([]syncMapEntry{}, syncMapOf(m).entries...)
	syncMapsMu.Unlock()
	for _, e := range snapshot {
		if !f(e.k, e.v) {
			return
		}
	}
}

func SyncMapClear(m *sync.Map) {
	syncMapsMu.Lock()
	syncMapOf(m).entries = nil
	syncMapsMu.Unlock()
}

// sync.Pool: Get returns a previously Put object (LIFO) or New()'s result - a
// pool never loses the property that an object handed out is not handed out
// again before it is put back.
func SyncPoolGet(p *sync.Pool) interface{} {
	syncMapsMu.Lock()
	l := syncPools[p]
	if n := len(l); n > 0 {
		x := l[n-1]
		syncPools[p] = l[:n-1]
		syncMapsMu.Unlock()
		return x
	}
	syncMapsMu.Unlock()
	if p.New != nil {
		return p.New()
	}
	return nil
}

func SyncPoolPut(p *sync.Pool, x interface{}) {
	if x == nil {
		return
	}
	syncMapsMu.Lock()
	syncPools[p] = append(syncPools[p], x)
	syncMapsMu.Unlock()
}

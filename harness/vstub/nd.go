// Package vstub is the harness support package.  It is injected into the
// repository as berty.tech/go-orbit-db/internal/vstub through an overlay (it
// does not exist in /repo).  The symbolic interpreter (gosym) intercepts the
// functions of this file by name; the bodies below are the NATIVE semantics
// used when a counterexample or witness is replayed against the real build.
package vstub

import (
	"encoding/json"
	"fmt"
	"os"
	"runtime"
	"strings"
	"sync"
	"time"
)

type replayInput struct {
	Name  string `json:"name"`
	Kind  string `json:"kind"`
	Value uint64 `json:"value"`
}

type replayFile struct {
	Harness string         `json:"harness"`
	Inputs  []replayInput  `json:"inputs"`
	Events  []string       `json:"events"`
	Known   []string       `json:"known_enabled"`
	Params  map[string]int `json:"params"`
}

var (
	mu       sync.Mutex
	replay   *replayFile
	cursor   int
	Failures []string
	Trace    []string
	covers   = map[string]bool{}
)

// LoadReplay reads the replay file named by VERIF_REPLAY.
func LoadReplay() error {
	p := os.Getenv("VERIF_REPLAY")
	if p == "" {
		return fmt.Errorf("VERIF_REPLAY not set")
	}
	data, err := os.ReadFile(p)
	if err != nil {
		return err
	}
	r := &replayFile{}
	if err := json.Unmarshal(data, r); err != nil {
		return err
	}
	mu.Lock()
	replay = r
	eventDone = map[int]bool{}
	eventTaken = map[int]bool{}
	cursor = 0
	Failures = nil
	Trace = nil
	mu.Unlock()
	return nil
}

// ReplayHarness returns the harness name recorded in the replay file.
func ReplayHarness() string {
	if replay == nil {
		return ""
	}
	return replay.Harness
}

func next(name, kind string) uint64 {
	mu.Lock()
	defer mu.Unlock()
	if replay == nil {
		panic("vstub: nondeterministic input requested without a replay file")
	}
	if cursor >= len(replay.Inputs) {
		// inputs past the recorded ones were irrelevant to the counterexample
		return 0
	}
	in := replay.Inputs[cursor]
	cursor++
	if in.Name != name {
		Failures = append(Failures, fmt.Sprintf("replay-mismatch: input %d is %q, harness asked for %q", cursor-1, in.Name, name))
	}
	return in.Value
}

func NdInt(name string) int       { return int(next(name, "int")) }
func NdInt64(name string) int64   { return int64(next(name, "int64")) }
func NdUint64(name string) uint64 { return next(name, "uint64") }
func NdUint16(name string) uint16 { return uint16(next(name, "uint16")) }
func NdByte(name string) byte     { return byte(next(name, "byte")) }
func NdBool(name string) bool     { return next(name, "bool")&1 == 1 }

// NdChoice returns a value in [0,n); the interpreter explores every value as a separate path.
func NdChoice(name string, n int) int {
	v := int(next(name, "choice"))
	if v < 0 || v >= n {
		v = 0
	}
	return v
}

// NdASCII returns a symbolic byte below 0x80.  Used for bytes that end up inside a
// JSON string: encoding/json replaces invalid UTF-8 by U+FFFD, which the idealised
// JSON model of the interpreter does not do, so other values are outside the claim.
func NdASCII(name string) byte {
	b := NdByte(name)
	Assume(b < 0x80)
	return b
}

// NdBytes returns n symbolic bytes.
func NdBytes(name string, n int) []byte {
	b := make([]byte, n)
	for k := range b {
		b[k] = NdByte(fmt.Sprintf("%s[%d]", name, k))
	}
	return b
}

// NdString returns a string of exactly n symbolic bytes.
func NdString(name string, n int) string { return string(NdBytes(name, n)) }

// Assume restricts the inputs considered (a precondition of the harness).
func Assume(c bool) {
	if !c {
		mu.Lock()
		Failures = append(Failures, "replay-mismatch: assumption false under replayed inputs")
		mu.Unlock()
	}
}

// Assert states the property.  Symbolically: the solver decides pc ∧ ¬c.
func Assert(c bool, label string) {
	if !c {
		mu.Lock()
		Failures = append(Failures, "ASSERT "+label)
		mu.Unlock()
	}
}

// Fail is an unconditional violation on the current path.
func Fail(label string) { Assert(false, label) }

// Cover marks a point that must be reachable (vacuity guard).
func Cover(label string) {
	mu.Lock()
	covers[label] = true
	mu.Unlock()
}

// Observe appends to the observable trace compared between interpreter and native run.
func Observe(s string) {
	mu.Lock()
	Trace = append(Trace, s)
	mu.Unlock()
}

// KnownFinding reports whether the known finding id is listed (and therefore
// carved out of the input space by the harness).
func KnownFinding(id string) bool {
	if replay == nil {
		return false
	}
	for _, k := range replay.Known {
		if k == id {
			return true
		}
	}
	return false
}

// WaitIdle blocks until every other interpreter thread is blocked (quiescence).
// Natively it is approximated by the harness (sleep/poll); see each harness.
var NativeWaitIdle = func() { time.Sleep(250 * time.Millisecond) }

func WaitIdle() { NativeWaitIdle() }

// ExploreSchedules turns thread switches at visible operations into path
// decisions, with at most `preemptions` preemptions per path.
func ExploreSchedules(preemptions int) {}

// ExploreSelects makes the choice among several READY cases of a select a path
// decision (Go picks one at random: every choice is a legal behaviour) without
// turning on preemptions; cheaper than ExploreSchedules.  Natively a no-op.
func ExploreSelects(on bool) {}

// Yield is a visible operation (a point where the scheduler may switch).
func Yield() {}

// EventBegin / EventEnd bracket an effect of a stub (block write, cache write,
// emit, ...) with a label that is computed identically under the interpreter
// and natively.  Under the interpreter EventBegin is a visible operation (a
// preemption point), the label is appended to the path's event order, and the
// bracketed region is atomic.  Natively, when the replay file carries an event
// order (a schedule-dependent counterexample), EventBegin is a turnstile: it
// blocks until every earlier event of the recorded order has ENDED, which
// forces the real goroutines through the same order of effects.
func EventBegin(label string) int {
	mu.Lock()
	if replay == nil || len(replay.Events) == 0 {
		mu.Unlock()
		return -1
	}
	pos := -1
	for i := 0; i < len(replay.Events); i++ {
		if replay.Events[i] == label && !eventTaken[i] {
			pos = i
			break
		}
	}
	if pos < 0 {
		mu.Unlock()
		return -1
	}
	eventTaken[pos] = true
	deadline := time.Now().Add(3 * time.Second)
	for {
		turn := true
		for i := 0; i < pos; i++ {
			if !eventDone[i] {
				turn = false
				break
			}
		}
		if turn {
			mu.Unlock()
			return pos
		}
		if time.Now().After(deadline) {
			Failures = append(Failures, "replay-mismatch: event order could not be enforced at "+label)
			mu.Unlock()
			return pos
		}
		mu.Unlock()
		time.Sleep(time.Millisecond)
		mu.Lock()
	}
}

// EventEnd marks the effect begun with the given token as done.
func EventEnd(token int) {
	if token < 0 {
		return
	}
	mu.Lock()
	eventDone[token] = true
	mu.Unlock()
}

var (
	eventTaken = map[int]bool{}
	eventDone  = map[int]bool{}
)

// Hash returns a content address token for x: equal contents ⇔ equal tokens.
var NativeHash = func(x interface{}) string { return fmt.Sprintf("%#v", x) }

func Hash(x interface{}) string { return NativeHash(x) }

// TypeKey returns a string identifying x's dynamic type, with one pointer level removed.
func TypeKey(x interface{}) string {
	s := fmt.Sprintf("%T", x)
	if len(s) > 0 && s[0] == '*' {
		return s[1:]
	}
	return s
}

// Report summarises the native replay outcome.
func Report() (failures []string, trace []string) {
	mu.Lock()
	defer mu.Unlock()
	return append([]string(nil), Failures...), append([]string(nil), Trace...)
}

// Param returns a harness bound (set per tier by the check driver; recorded in the replay file natively).
func Param(name string, def int) int {
	if replay != nil && replay.Params != nil {
		if v, ok := replay.Params[name]; ok {
			return v
		}
	}
	return def
}

// FaultAtAnyStep arms a one-shot fault (e.g. a context cancellation): under the
// interpreter, at every visible operation of any thread the path may choose to
// fire it, so "the fault happens at any step" is explored exhaustively.
// Natively the fault is fired by the harness according to the recorded event
// order (or immediately if none was recorded).
func FaultAtAnyStep(f func()) { nativeFault = f }

// FaultDisarm disarms a fault that has not fired (natively: fires it if the
// replayed path had fired it — recorded as event "fault").
func FaultDisarm() {
	mu.Lock()
	f := nativeFault
	nativeFault = nil
	fired := false
	if replay != nil {
		for _, e := range replay.Events {
			if e == "fault" {
				fired = true
			}
		}
	}
	mu.Unlock()
	if f != nil && fired {
		f()
	}
}

var nativeFault func()

// LiveThreads returns the number of interpreter threads, other than the caller,
// that are still alive (blocked for ever counts as alive) and whose top-level
// function name contains substr.  Natively it inspects the goroutine dump.
func LiveThreads(substr string) int {
	// natively goroutines that were told to stop need a moment to go away (much
	// longer on a loaded machine): poll for up to ten seconds before reporting
	// survivors (under the interpreter this is an intrinsic over the thread table)
	count := liveThreadsNow(substr)
	for k := 0; k < 100 && count > 0; k++ {
		time.Sleep(100 * time.Millisecond)
		count = liveThreadsNow(substr)
	}
	return count
}

func liveThreadsNow(substr string) int {
	buf := make([]byte, 1<<22)
	n := runtime.Stack(buf, true)
	count := 0
	for _, g := range strings.Split(string(buf[:n]), "\n\n")[1:] {
		if strings.Contains(g, substr) && !strings.Contains(g, "testing.") {
			count++
		}
	}
	return count
}

// SymbolicBlobSizes(max>0) makes every encoded document produced from now on
// (json.Marshal) a byte sequence whose LENGTH is a fresh symbolic integer in
// [2, max]; 0 switches back to documents of unit length.  Natively it is a
// no-op (real encodings have their real sizes).
func SymbolicBlobSizes(max int) {}

// NativeBigPayload: under the interpreter encoded sizes are symbolic and payloads
// stay tiny (false).  Natively it reports whether the replayed model chose an
// encoded size that does not fit 16 bits, in which case the harness writes
// payloads that are really that large.
func NativeBigPayload() bool {
	if replay == nil {
		return false
	}
	for _, in := range replay.Inputs {
		if in.Name == "bloblen" && in.Value >= 65536 {
			return true
		}
	}
	return false
}

// AllocLimit declares the largest allocation the code under test may size from
// untrusted input (e.g. a frame's maximum size).  Under the interpreter every
// make([]T, n) with a symbolic n is then an assertion n <= limit decided by the
// solver over all inputs; natively it is a no-op (0 switches it off).
func AllocLimit(n int) {
	var ms runtime.MemStats
	runtime.ReadMemStats(&ms)
	mu.Lock()
	defer mu.Unlock()
	if n == 0 && nativeAllocLimit > 0 {
		// natively: total bytes allocated while the limit was armed (the harness arms it
		// around a single call, whose other allocations are small)
		if delta := ms.TotalAlloc - nativeAllocBase; delta > uint64(nativeAllocLimit)+1<<16 {
			Failures = append(Failures, fmt.Sprintf("ASSERT an allocation sized by untrusted input never exceeds the documented limit (allocated %d bytes, limit %d)", delta, nativeAllocLimit))
		}
	}
	nativeAllocLimit = n
	nativeAllocBase = ms.TotalAlloc
}

var (
	nativeAllocLimit int
	nativeAllocBase  uint64
)

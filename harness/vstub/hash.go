package vstub

import "hash"

// PerfectHash stands in for cryptographic hash functions under the interpreter
// (crypto/sha256, sha1, sha512, md5, hash/fnv are replaced by name): it
// accumulates what is written and its digest is a content token, so that equal
// inputs give equal digests and different inputs different ones (no collisions).
// Natively the real hash functions run; this type is never used there.
type PerfectHash struct {
	buf  []byte
	size int
	salt string
}

var _ hash.Hash = (*PerfectHash)(nil)

func (h *PerfectHash) Write(p []byte) (int, error) {
	h.buf = append(h.buf, p...)
	return len(p), nil
}

func (h *PerfectHash) digest() []byte {
	tok := Hash(struct {
		Salt string
		Data []byte
	}{h.salt, h.buf})
	out := make([]byte, h.size)
	for k := 0; k < h.size && k < len(tok); k++ {
		// the distinguishing characters of a token are its last ones
		out[h.size-1-k] = tok[len(tok)-1-k]
	}
	return out
}

func (h *PerfectHash) Sum(b []byte) []byte { return append(b, h.digest()...) }
func (h *PerfectHash) Reset()              { h.buf = nil }
func (h *PerfectHash) Size() int           { return h.size }
func (h *PerfectHash) BlockSize() int      { return 64 }

func (h *PerfectHash) Sum32() uint32 {
	d := h.digest()
	return uint32(d[0])<<24 | uint32(d[1])<<16 | uint32(d[2])<<8 | uint32(d[3])
}

func (h *PerfectHash) Sum64() uint64 {
	d := h.digest()
	var v uint64
	for k := 0; k < 8; k++ {
		v = v<<8 | uint64(d[k])
	}
	return v
}

func NewSha256() hash.Hash { return &PerfectHash{size: 32, salt: "sha256"} }
func NewSha1() hash.Hash   { return &PerfectHash{size: 20, salt: "sha1"} }
func NewSha512() hash.Hash { return &PerfectHash{size: 64, salt: "sha512"} }
func NewMd5() hash.Hash    { return &PerfectHash{size: 16, salt: "md5"} }

func NewFnv32() hash.Hash32 { return &PerfectHash{size: 4, salt: "fnv32"} }
func NewFnv64() hash.Hash64 { return &PerfectHash{size: 8, salt: "fnv64"} }

func Sum256(data []byte) (out [32]byte) {
	h := &PerfectHash{size: 32, salt: "sha256"}
	h.buf = append(h.buf, data...)
	copy(out[:], h.digest())
	return
}

func Sum1(data []byte) (out [20]byte) {
	h := &PerfectHash{size: 20, salt: "sha1"}
	h.buf = append(h.buf, data...)
	copy(out[:], h.digest())
	return
}

func SumMd5(data []byte) (out [16]byte) {
	h := &PerfectHash{size: 16, salt: "md5"}
	h.buf = append(h.buf, data...)
	copy(out[:], h.digest())
	return
}

package vstub

import (
	"context"
	"sync"
	"time"
)

// Ctx is the context implementation the interpreter substitutes for package
// context's (whose real one uses atomics and runtime timers).  Deadlines never
// fire on their own: a timeout is a fault the harness injects by calling Cancel.
type Ctx struct {
	mu       sync.Mutex
	parent   *Ctx
	up       context.Context // the parent as given (value lookups)
	done     chan struct{}
	err      error
	children []*Ctx
}

var background = &Ctx{}

func CtxBackground() context.Context { return background }

func (c *Ctx) Deadline() (time.Time, bool) { return time.Time{}, false }

func (c *Ctx) Done() <-chan struct{} {
	return c.done // nil for the background context: blocks forever
}

func (c *Ctx) Err() error {
	c.mu.Lock()
	defer c.mu.Unlock()
	return c.err
}

func (c *Ctx) Value(key interface{}) interface{} {
	if c.up != nil {
		return c.up.Value(key)
	}
	return nil
}

// valueCtx carries one key/value pair; cancellation is its parent's.
type valueCtx struct {
	context.Context
	key, val interface{}
}

func (v *valueCtx) Value(key interface{}) interface{} {
	if key == v.key {
		return v.val
	}
	return v.Context.Value(key)
}

func CtxWithValue(parent context.Context, key, val interface{}) context.Context {
	return &valueCtx{Context: parent, key: key, val: val}
}

// baseOf finds the cancellable context behind value wrappers.
func baseOf(c context.Context) *Ctx {
	for k := 0; k < 64; k++ {
		switch x := c.(type) {
		case *Ctx:
			return x
		case *valueCtx:
			c = x.Context
		default:
			return nil
		}
	}
	return nil
}

func (c *Ctx) cancel(err error) {
	c.mu.Lock()
	if c.err != nil {
		c.mu.Unlock()
		return
	}
	c.err = err
	close(c.done)
	children := c.children
	c.children = nil
	c.mu.Unlock()
	for _, ch := range children {
		ch.cancel(err)
	}
}

func newChild(parent context.Context) *Ctx {
	c := &Ctx{done: make(chan struct{}), up: parent}
	if p := baseOf(parent); p != nil {
		c.parent = p
		if p.done != nil {
			p.mu.Lock()
			perr := p.err
			if perr == nil {
				p.children = append(p.children, c)
			}
			p.mu.Unlock()
			if perr != nil {
				c.cancel(perr)
			}
		}
	}
	return c
}

func CtxWithCancel(parent context.Context) (context.Context, context.CancelFunc) {
	c := newChild(parent)
	return c, func() { c.cancel(context.Canceled) }
}

// CtxWithTimeout: the deadline elapses on VIRTUAL time (time.After under the
// interpreter fires only when no thread can run and no harness thread waits for
// quiescence), i.e. exactly when nothing else could happen any more.
func CtxWithTimeout(parent context.Context, d time.Duration) (context.Context, context.CancelFunc) {
	c := newChild(parent)
	go func() {
		select {
		case <-time.After(d):
			c.cancel(context.DeadlineExceeded)
		case <-c.done:
		}
	}()
	return c, func() { c.cancel(context.Canceled) }
}

func CtxWithDeadline(parent context.Context, t time.Time) (context.Context, context.CancelFunc) {
	return CtxWithTimeout(parent, time.Second)
}

func CtxWithoutCancel(parent context.Context) context.Context {
	return &valueCtx{Context: background, key: &background, val: nil}
}

func CtxCause(c context.Context) error { return c.Err() }

// CtxWithCancelCause: the cause is not tracked separately (Err reports
// context.Canceled as the real one does; Cause is modelled as Err).
func CtxWithCancelCause(parent context.Context) (context.Context, context.CancelCauseFunc) {
	c := newChild(parent)
	return c, func(cause error) { c.cancel(context.Canceled) }
}

func CtxAfterFunc(c context.Context, f func()) func() bool {
	stopped := make(chan struct{})
	var once sync.Once
	go func() {
		select {
		case <-c.Done():
			f()
		case <-stopped:
		}
	}()
	return func() bool {
		ran := true
		once.Do(func() { close(stopped); ran = c.Err() == nil })
		return ran
	}
}

package vstub

import (
	"context"
	"sync"
	"time"
)

// Ctx is the context implementation the interpreter substitutes for package
// context's (whose real one uses atomics and runtime timers).  Deadlines never
// fire on their own: a timeout is a fault the harness injects by calling Cancel.
type Ctx struct {
	mu       sync.Mutex
	parent   *Ctx
	done     chan struct{}
	err      error
	children []*Ctx
}

var background = &Ctx{}

func CtxBackground() context.Context { return background }

func (c *Ctx) Deadline() (time.Time, bool) { return time.Time{}, false }

func (c *Ctx) Done() <-chan struct{} {
	return c.done // nil for the background context: blocks forever
}

func (c *Ctx) Err() error {
	c.mu.Lock()
	defer c.mu.Unlock()
	return c.err
}

func (c *Ctx) Value(key interface{}) interface{} { return nil }

func (c *Ctx) cancel(err error) {
	c.mu.Lock()
	if c.err != nil {
		c.mu.Unlock()
		return
	}
	c.err = err
	close(c.done)
	children := c.children
	c.children = nil
	c.mu.Unlock()
	for _, ch := range children {
		ch.cancel(err)
	}
}

func newChild(parent context.Context) *Ctx {
	c := &Ctx{done: make(chan struct{})}
	if p, ok := parent.(*Ctx); ok && p != nil {
		c.parent = p
		if p.done != nil {
			p.mu.Lock()
			perr := p.err
			if perr == nil {
				p.children = append(p.children, c)
			}
			p.mu.Unlock()
			if perr != nil {
				c.cancel(perr)
			}
		}
	}
	return c
}

func CtxWithCancel(parent context.Context) (context.Context, context.CancelFunc) {
	c := newChild(parent)
	return c, func() { c.cancel(context.Canceled) }
}

func CtxWithTimeout(parent context.Context, d time.Duration) (context.Context, context.CancelFunc) {
	return CtxWithCancel(parent)
}

package vstub

import (
	"context"
	"fmt"
	"sync"

	cid "github.com/ipfs/go-cid"
	format "github.com/ipfs/go-ipld-format"
	coreiface "github.com/ipfs/kubo/core/coreiface"
)

// MemDag is an in-memory DAG service.  Natively the real CBOR IO of go-ipfs-log
// writes real CBOR nodes into it through CoreAPI.Dag(); under the interpreter
// io.WriteCBOR / io.ReadCBOR are routed to CborPut / CborGet below (the
// encoded document is an idealised blob, its address a perfect hash).
type MemDag struct {
	coreiface.APIDagService
	mu    sync.Mutex
	nodes map[string]format.Node
	blobs map[string][]byte
	// Offline makes every read fail (the network is unreachable).
	Offline bool
}

func NewMemDag() *MemDag {
	return &MemDag{nodes: map[string]format.Node{}, blobs: map[string][]byte{}}
}

func (d *MemDag) Add(ctx context.Context, n format.Node) error {
	d.mu.Lock()
	d.nodes[n.Cid().String()] = n
	d.mu.Unlock()
	return nil
}

func (d *MemDag) Get(ctx context.Context, c cid.Cid) (format.Node, error) {
	d.mu.Lock()
	defer d.mu.Unlock()
	if err := ctx.Err(); err != nil {
		return nil, err
	}
	if d.Offline {
		return nil, fmt.Errorf("ipld: offline")
	}
	n, ok := d.nodes[c.String()]
	if !ok {
		return nil, fmt.Errorf("ipld: could not find %s", c.String())
	}
	return n, nil
}

func (c *CoreAPI) Dag() coreiface.APIDagService {
	if c.DagStore == nil {
		c.DagStore = NewMemDag()
	}
	return c.DagStore
}

// CborPut stores an encoded document and returns its content address.
func CborPut(api coreiface.CoreAPI, blob []byte) cid.Cid {
	c := api.(*CoreAPI)
	d := c.Dag().(*MemDag)
	id := CidFromToken(Hash(string(blob)))
	d.mu.Lock()
	d.blobs[id.String()] = blob
	d.mu.Unlock()
	return id
}

type blobNode struct {
	format.Node
	data []byte
}

func (n *blobNode) RawData() []byte { return n.data }

// CborGet fetches an encoded document by address.
func CborGet(ctx context.Context, api coreiface.CoreAPI, id cid.Cid) (format.Node, error) {
	c := api.(*CoreAPI)
	d := c.Dag().(*MemDag)
	d.mu.Lock()
	defer d.mu.Unlock()
	if err := ctx.Err(); err != nil {
		return nil, err
	}
	if d.Offline {
		return nil, fmt.Errorf("ipld: offline")
	}
	b, ok := d.blobs[id.String()]
	if !ok {
		return nil, fmt.Errorf("ipld: could not find %s", id.String())
	}
	return &blobNode{data: b}, nil
}

package vstub

import (
	"encoding/json"
	"io"
	"strings"
)

// Stand-ins for encoding/json's streaming API under the interpreter
// (json.NewDecoder / (*Decoder).Decode / More / Buffered-free use, and
// json.NewEncoder / (*Encoder).Encode), replaced by name.  A *json.Decoder is
// an identity; its reader and its STICKY error live in a side table: as in the
// real decoder, once the input was syntactically malformed or ended, every
// later Decode returns the same error without looking at new input, while a
// type mismatch is reported for that value only.

type jsonDecState struct {
	r   io.Reader
	err error
}

var (
	jsonDecs = map[*json.Decoder]*jsonDecState{}
	jsonEncs = map[*json.Encoder]io.Writer{}
)

func JSONNewDecoder(r io.Reader) *json.Decoder {
	d := new(json.Decoder)
	jsonDecs[d] = &jsonDecState{r: r}
	return d
}

func readAllFrom(r io.Reader) ([]byte, error) {
	var out []byte
	buf := make([]byte, 16)
	for k := 0; k < 4096; k++ {
		n, err := r.Read(buf)
		out = append(out, buf[:n]...)
		if err == io.EOF {
			return out, nil
		}
		if err != nil {
			return out, err
		}
		if n == 0 {
			return out, nil
		}
	}
	return out, nil
}

func JSONDecoderDecode(d *json.Decoder, v interface{}) error {
	st := jsonDecs[d]
	if st == nil {
		return io.ErrUnexpectedEOF
	}
	if st.err != nil {
		return st.err
	}
	data, rerr := readAllFrom(st.r)
	if rerr != nil {
		st.err = rerr
		return rerr
	}
	if len(data) == 0 {
		st.err = io.EOF
		return io.EOF
	}
	err := json.Unmarshal(data, v)
	if err != nil && strings.Contains(err.Error(), "malformed input") {
		// a syntax error poisons the decoder
		st.err = err
	}
	return err
}

func JSONDecoderMore(d *json.Decoder) bool { return false }

func JSONDecoderDisallowUnknownFields(d *json.Decoder) {}
func JSONDecoderUseNumber(d *json.Decoder)             {}

func JSONNewEncoder(w io.Writer) *json.Encoder {
	e := new(json.Encoder)
	jsonEncs[e] = w
	return e
}

func JSONEncoderEncode(e *json.Encoder, v interface{}) error {
	data, err := json.Marshal(v)
	if err != nil {
		return err
	}
	_, err = jsonEncs[e].Write(data)
	return err
}

func JSONEncoderSetIndent(e *json.Encoder, prefix, indent string) {}
func JSONEncoderSetEscapeHTML(e *json.Encoder, on bool)           {}

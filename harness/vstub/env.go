package vstub

// Environment stubs written in ordinary Go.  They are interpreted by gosym like
// any other code and compile natively for replay.  Each stub mirrors the
// documented contract of the component it replaces (see DESIGN.md §1.5).

import (
	"context"
	"encoding/hex"
	"fmt"
	"reflect"
	"sync"
	"time"

	"berty.tech/go-ipfs-log/entry"
	idp "berty.tech/go-ipfs-log/identityprovider"
	logiface "berty.tech/go-ipfs-log/iface"
	cid "github.com/ipfs/go-cid"
	datastore "github.com/ipfs/go-datastore"
	format "github.com/ipfs/go-ipld-format"
	coreiface "github.com/ipfs/kubo/core/coreiface"
	"github.com/libp2p/go-libp2p/core/crypto"
	"github.com/libp2p/go-libp2p/core/event"
	"github.com/libp2p/go-libp2p/core/peer"
	"github.com/libp2p/go-libp2p/p2p/host/eventbus"
	mh "github.com/multiformats/go-multihash"
)

// ---------------------------------------------------------------- effects

// EffectLog is the ordered list of persistence effects (block writes and cache
// writes) issued by the code under test; crash points are prefixes of it.
type EffectLog struct {
	mu      sync.Mutex
	Effects []Effect
}

type Effect struct {
	Kind  string // "block" | "cache-put" | "cache-del"
	Key   string
	Value []byte
	Obj   interface{}
}

func (l *EffectLog) add(e Effect) {
	if l == nil {
		return
	}
	l.mu.Lock()
	l.Effects = append(l.Effects, e)
	l.mu.Unlock()
}

func (l *EffectLog) Len() int {
	if l == nil {
		return 0
	}
	l.mu.Lock()
	defer l.mu.Unlock()
	return len(l.Effects)
}

// ---------------------------------------------------------------- CIDs

// CidFromToken turns a content token into a CID.  The interpreter represents
// the CID by the token itself (injective); natively a real CIDv1 is built.
func CidFromToken(tok string) cid.Cid {
	h, err := mh.Sum([]byte(tok), mh.SHA2_256, -1)
	if err != nil {
		panic(err)
	}
	// dag-cbor, as the real entry / manifest CIDs are (the interpreter's tokens carry the
	// same codec prefix): a raw-codec CID with the same digest is an ALIAS, not the same CID
	return cid.NewCidV1(cid.DagCBOR, h)
}

// BlockKey is the key under which a block store holds the block addressed by c:
// the multihash digest, NOT the full CID — IPFS block stores ignore the CID's
// version and codec, so two CIDs with the same digest alias the same block.
func BlockKey(c cid.Cid) string { return string(c.Hash()) }

// MkCid returns the k-th of a family of distinct well-formed CIDs.
func MkCid(k int) cid.Cid { return CidFromToken(fmt.Sprintf("mk-%d", k)) }

// ---------------------------------------------------------------- crypto

type sigContent struct {
	Pub  string
	Data string
}

// Provider is the identity provider used by harness identities.  VerifyIdentity
// and GetType are the REAL OrbitDBIdentityProvider methods (promoted); Sign and
// UnmarshalPublicKey implement perfect symbolic cryptography:
// verify(pub, m, s) <=> s = sign(pub, m), and only the holder of an identity
// can call Sign for it (harness discipline = Dolev-Yao attacker).
type Provider struct {
	*idp.OrbitDBIdentityProvider
}

func NewProvider() *Provider {
	return &Provider{OrbitDBIdentityProvider: idp.NewOrbitDBIdentityProvider(&idp.CreateIdentityOptions{}).(*idp.OrbitDBIdentityProvider)}
}

func SignToken(pub []byte, data []byte) []byte {
	return []byte(Hash(sigContent{Pub: string(pub), Data: string(data)}))
}

func (p *Provider) Sign(ctx context.Context, identity *idp.Identity, data []byte) ([]byte, error) {
	return SignToken(identity.PublicKey, data), nil
}

func (p *Provider) UnmarshalPublicKey(data []byte) (crypto.PubKey, error) {
	if len(data) == 0 {
		return nil, fmt.Errorf("invalid public key")
	}
	return &PubKey{raw: data}, nil
}

type PubKey struct {
	crypto.PubKey
	raw []byte
}

func (k *PubKey) Verify(data []byte, sig []byte) (bool, error) {
	return string(sig) == string(SignToken(k.raw, data)), nil
}

func (k *PubKey) Raw() ([]byte, error) { return k.raw, nil }

// NewIdentity creates a well-formed orbitdb identity for `name` over the
// symbolic signature scheme: the id is the hex form of the identity's id key
// ("rk-<name>"), the public key is "pk-<name>", Signatures.ID is the public
// key's signature of the id and Signatures.PublicKey the id key's signature of
// hex(public key ++ id signature) - exactly the chain the real orbitdb identity
// provider builds, so that code verifying it accepts harness identities and
// rejects forged ones.
func NewIdentity(name string, prov idp.Interface) *idp.Identity {
	id := IDOf(name)
	pub := []byte("pk-" + name)
	sigID := SignToken(pub, []byte(id))
	signed := append(append([]byte{}, pub...), sigID...)
	return &idp.Identity{
		ID:        id,
		PublicKey: pub,
		Signatures: &idp.IdentitySignature{
			ID:        sigID,
			PublicKey: SignToken(IDKeyOf(name), []byte(hex.EncodeToString(signed))),
		},
		Type:     "orbitdb",
		Provider: prov,
	}
}

// IDKeyOf is the (public) id key of the harness identity `name`.
func IDKeyOf(name string) []byte { return []byte("rk-" + name) }

// IDOf is the identity id of the harness identity `name` (hex of its id key).
func IDOf(name string) string { return hex.EncodeToString(IDKeyOf(name)) }

// ---------------------------------------------------------------- block store + IO

type Blocks struct {
	mu      sync.Mutex
	objs    map[string]interface{}
	Log     *EffectLog
	Missing map[string]bool // hashes whose fetch fails (fault injection)
	Reads   int
	// Hang lists hashes whose fetch never completes (unreachable provider): Read
	// blocks until its context ends, as a real bitswap request does.
	Hang map[string]bool
	// Late lists hashes whose provider answers only after the given delay.
	Late map[string]time.Duration
	// OnRead, if set, is called at the start of every Read with the running read count (fault injection).
	OnRead func(n int, hash string)
	// Peers are block stores of connected peers: a block missing locally is
	// fetched from them and then stored locally (as bitswap does).
	Peers []*Blocks
	// EntryWrites counts entry writes; the FailWriteAt-th one (if not 0) fails once.
	EntryWrites int
	FailWriteAt int
	// PeersFn, if set, replaces Peers: the block stores reachable right now
	// (link state of a simulated network).
	PeersFn func() []*Blocks
}

// Keys lists the hashes held locally (insertion order is not significant).
func (b *Blocks) Keys() []string {
	b.mu.Lock()
	defer b.mu.Unlock()
	var out []string
	for k := range b.objs {
		out = append(out, k)
	}
	return out
}

func NewBlocks(log *EffectLog) *Blocks {
	return &Blocks{objs: map[string]interface{}{}, Log: log, Missing: map[string]bool{}, Hang: map[string]bool{}, Late: map[string]time.Duration{}}
}

func (b *Blocks) Has(c cid.Cid) bool {
	b.mu.Lock()
	defer b.mu.Unlock()
	_, ok := b.objs[BlockKey(c)]
	return ok
}

// PutKey stores obj under a hash string (rebuilding a disk from an effect log).
func (b *Blocks) PutKey(k string, obj interface{}) {
	b.mu.Lock()
	b.objs[k] = obj
	b.mu.Unlock()
}

// Put stores obj under c without going through IO (e.g. to rebuild a disk from an effect log).
func (b *Blocks) Put(c cid.Cid, obj interface{}) {
	b.mu.Lock()
	b.objs[BlockKey(c)] = obj
	b.mu.Unlock()
}

// entryContent is what the content address of an entry covers: every wire
// field except the hash itself (mirrors entry.Normalize + jsonable.ToJsonableEntry).
type entryContent struct {
	V         uint64
	LogID     string
	Key       string
	Sig       string
	Next      []string
	Refs      []string
	ClockID   string
	ClockTime int
	HasClock  bool
	Payload   string
	HasID     bool
	IDID      string
	IDPub     string
	IDType    string
	IDSigID   string
	IDSigPub  string
	HasIDSigs bool
}

func contentOf(e logiface.IPFSLogEntry) entryContent {
	c := entryContent{V: e.GetV(), LogID: e.GetLogID(), Key: string(e.GetKey()), Sig: string(e.GetSig()), Payload: string(e.GetPayload())}
	for _, n := range e.GetNext() {
		c.Next = append(c.Next, n.String())
	}
	for _, n := range e.GetRefs() {
		c.Refs = append(c.Refs, n.String())
	}
	// As jsonable.ToJsonableEntry / ToJsonableLamportClock / ToJsonableIdentity of the
	// real CBOR IO: the clock and the identity's signatures are dereferenced
	// without a nil check (an entry without them makes the real Write panic).
	cl := e.GetClock()
	c.HasClock = true
	c.ClockID = string(cl.GetID())
	c.ClockTime = cl.GetTime()
	if id := e.GetIdentity(); id != nil {
		c.HasID = true
		c.IDID = id.ID
		c.IDPub = string(id.PublicKey)
		c.IDType = id.Type
		c.HasIDSigs = true
		c.IDSigID = string(id.Signatures.ID)
		c.IDSigPub = string(id.Signatures.PublicKey)
	}
	return c
}

// IO implements ipfslog's IO over the block store: content addressing is a
// perfect hash of the entry's wire fields.
type IO struct {
	B *Blocks
}

type Node struct {
	format.Node
	Obj interface{}
}

func (io *IO) Write(ctx context.Context, ipfs coreiface.CoreAPI, obj interface{}, opts *logiface.WriteOpts) (cid.Cid, error) {
	switch o := obj.(type) {
	case logiface.IPFSLogEntry:
		io.B.mu.Lock()
		io.B.EntryWrites++
		fail := io.B.FailWriteAt != 0 && io.B.FailWriteAt == io.B.EntryWrites
		io.B.mu.Unlock()
		if fail {
			return cid.Cid{}, fmt.Errorf("vstub: injected block write failure")
		}
		c := CidFromToken(Hash(contentOf(o)))
		tok := -1
		if cl := o.GetClock(); cl != nil && cl.Defined() {
			tok = EventBegin(fmt.Sprintf("block-write:t=%d:w=%s", cl.GetTime(), string(cl.GetID())))
		}
		defer EventEnd(tok)
		stored := o.Copy()
		stored.SetHash(cid.Cid{})
		io.B.mu.Lock()
		_, had := io.B.objs[BlockKey(c)]
		io.B.objs[BlockKey(c)] = stored
		io.B.mu.Unlock()
		if !had {
			io.B.Log.add(Effect{Kind: "block", Key: BlockKey(c), Obj: stored})
		}
		return c, nil
	case *logiface.JSONLog:
		var heads []string
		for _, h := range o.Heads {
			heads = append(heads, h.String())
		}
		c := CidFromToken(Hash(struct {
			ID    string
			Heads []string
		}{o.ID, heads}))
		io.B.mu.Lock()
		io.B.objs[BlockKey(c)] = o
		io.B.mu.Unlock()
		io.B.Log.add(Effect{Kind: "block", Key: BlockKey(c), Obj: o})
		return c, nil
	}
	return cid.Cid{}, fmt.Errorf("vstub.IO: cannot write %T", obj)
}

func (io *IO) Read(ctx context.Context, ipfs coreiface.CoreAPI, c cid.Cid) (format.Node, error) {
	io.B.mu.Lock()
	io.B.Reads++
	nread := io.B.Reads
	hook := io.B.OnRead
	io.B.mu.Unlock()
	if hook != nil {
		hook(nread, BlockKey(c))
	}
	io.B.mu.Lock()
	hang := io.B.Hang[BlockKey(c)]
	io.B.mu.Unlock()
	if hang {
		<-ctx.Done()
		return nil, ctx.Err()
	}
	io.B.mu.Lock()
	late := io.B.Late[BlockKey(c)]
	io.B.mu.Unlock()
	if late > 0 {
		// a slow provider: the block is answered after a while (virtual time under
		// the interpreter), unless the reader gives up first
		select {
		case <-time.After(late):
			// answered: from now on the block is available at once
			io.B.mu.Lock()
			delete(io.B.Late, BlockKey(c))
			io.B.mu.Unlock()
		case <-ctx.Done():
			return nil, ctx.Err()
		}
	}
	io.B.mu.Lock()
	obj, ok := io.B.objs[BlockKey(c)]
	missing := io.B.Missing[BlockKey(c)]
	peers := io.B.Peers
	peersFn := io.B.PeersFn
	io.B.mu.Unlock()
	if peersFn != nil {
		peers = peersFn()
	}
	if err := ctx.Err(); err != nil {
		return nil, err
	}
	if !ok && !missing {
		for _, p := range peers {
			p.mu.Lock()
			pobj, pok := p.objs[BlockKey(c)]
			p.mu.Unlock()
			if pok {
				obj, ok = pobj, true
				io.B.mu.Lock()
				io.B.objs[BlockKey(c)] = pobj
				io.B.mu.Unlock()
				io.B.Log.add(Effect{Kind: "block", Key: BlockKey(c), Obj: pobj})
				break
			}
		}
	}
	if !ok || missing {
		return nil, fmt.Errorf("block not found")
	}
	return &Node{Obj: obj}, nil
}

func (io *IO) DecodeRawEntry(node format.Node, hash cid.Cid, p idp.Interface) (logiface.IPFSLogEntry, error) {
	n, ok := node.(*Node)
	if !ok {
		return nil, fmt.Errorf("vstub.IO: foreign node")
	}
	e, ok := n.Obj.(logiface.IPFSLogEntry)
	if !ok {
		return nil, fmt.Errorf("vstub.IO: not an entry")
	}
	out := e.Copy()
	out.SetHash(hash)
	return out, nil
}

func (io *IO) DecodeRawJSONLog(node format.Node) (*logiface.JSONLog, error) {
	n, ok := node.(*Node)
	if !ok {
		return nil, fmt.Errorf("vstub.IO: foreign node")
	}
	l, ok := n.Obj.(*logiface.JSONLog)
	if !ok {
		return nil, fmt.Errorf("vstub.IO: not a log")
	}
	return l, nil
}

// PreSign is the identity, as for the real CBOR IO without link encryption.
func (io *IO) PreSign(e logiface.IPFSLogEntry) (logiface.IPFSLogEntry, error) { return e, nil }

// ---------------------------------------------------------------- CoreAPI

type CoreAPI struct {
	coreiface.CoreAPI
	Peer     peer.ID
	DagStore *MemDag
	Files    *Unixfs
}

type keyAPI struct {
	coreiface.KeyAPI
	id peer.ID
}

type selfKey struct {
	coreiface.Key
	id peer.ID
}

func (c *CoreAPI) Key() coreiface.KeyAPI                          { return &keyAPI{id: c.Peer} }
func (k *keyAPI) Self(ctx context.Context) (coreiface.Key, error) { return &selfKey{id: k.id}, nil }
func (k *selfKey) ID() peer.ID                                    { return k.id }
func (k *selfKey) Name() string                                   { return "self" }

// ---------------------------------------------------------------- event bus

// NewBus returns the event bus for a harness: natively the real libp2p
// eventbus; under the interpreter NewStubBus is substituted (the real one is
// built on reflection and atomics).
func NewBus() event.Bus { return &HookBus{Bus: eventbus.NewBus()} }

// HookBus wraps an event bus so that a harness can observe every emission
// synchronously, in the emitting goroutine, before it is delivered.
type HookBus struct {
	event.Bus
	OnEmit func(evt interface{})
}

type hookEmitter struct {
	event.Emitter
	bus *HookBus
}

func (b *HookBus) Emitter(eventType interface{}, opts ...event.EmitterOpt) (event.Emitter, error) {
	em, err := b.Bus.Emitter(eventType, opts...)
	if err != nil {
		return nil, err
	}
	return &hookEmitter{Emitter: em, bus: b}, nil
}

func (e *hookEmitter) Emit(evt interface{}) error {
	if h := e.bus.OnEmit; h != nil {
		h(evt)
	}
	return e.Emitter.Emit(evt)
}

type SubSettings struct {
	Buffer int
	Name   string
}

func BusBufSize(n int) func(interface{}) error {
	return func(s interface{}) error {
		s.(*SubSettings).Buffer = n
		return nil
	}
}

func BusName(name string) func(interface{}) error {
	return func(s interface{}) error {
		s.(*SubSettings).Name = name
		return nil
	}
}

type StubBus struct {
	mu   sync.RWMutex
	subs map[string][]*StubSub
	// Emitted counts emissions per event type (harness observation).
	Emitted map[string]int
}

func NewStubBus() event.Bus {
	return &StubBus{subs: map[string][]*StubSub{}, Emitted: map[string]int{}}
}

type StubSub struct {
	bus    *StubBus
	keys   []string
	out    chan interface{}
	name   string
	closed bool
}

func (b *StubBus) Subscribe(eventType interface{}, opts ...event.SubscriptionOpt) (event.Subscription, error) {
	settings := &SubSettings{Buffer: 16}
	for _, o := range opts {
		if err := o(settings); err != nil {
			return nil, err
		}
	}
	var keys []string
	if list, ok := eventType.([]interface{}); ok {
		for _, t := range list {
			keys = append(keys, TypeKey(t))
		}
	} else {
		keys = []string{TypeKey(eventType)}
	}
	s := &StubSub{bus: b, keys: keys, out: make(chan interface{}, settings.Buffer), name: settings.Name}
	b.mu.Lock()
	for _, k := range keys {
		b.subs[k] = append(b.subs[k], s)
	}
	b.mu.Unlock()
	return s, nil
}

func (s *StubSub) Out() <-chan interface{} { return s.out }
func (s *StubSub) Name() string            { return s.name }

func (s *StubSub) Close() error {
	b := s.bus
	wildcard := len(s.keys) == 1 && s.keys[0] == TypeKey(event.WildcardSubscription)
	if !wildcard {
		// as the real eventbus does for TYPED subscriptions: drain concurrently so that
		// an emitter blocked on this sink (it holds the bus read lock while sending) can finish
		go func() {
			for range s.out {
			}
		}()
	}
	// a WILDCARD subscription is only unlinked (libp2p's wildcardSub.Close neither drains
	// nor closes its channel): an emitter blocked on its full sink keeps the read lock and
	// Close waits for the write lock - the caller must keep reading until Close returns
	b.mu.Lock()
	if s.closed {
		b.mu.Unlock()
		return nil
	}
	s.closed = true
	for _, k := range s.keys {
		l := b.subs[k]
		for i, x := range l {
			if x == s {
				b.subs[k] = append(append([]*StubSub{}, l[:i]...), l[i+1:]...)
				break
			}
		}
	}
	b.mu.Unlock()
	if !wildcard {
		close(s.out)
	}
	return nil
}

type StubEmitter struct {
	bus    *StubBus
	key    string
	closed bool
}

func (b *StubBus) Emitter(eventType interface{}, opts ...event.EmitterOpt) (event.Emitter, error) {
	return &StubEmitter{bus: b, key: TypeKey(eventType)}, nil
}

func (b *StubBus) GetAllEventTypes() []reflect.Type { return nil }

func (e *StubEmitter) Emit(evt interface{}) error {
	if e.closed {
		return fmt.Errorf("emitter is closed")
	}
	b := e.bus
	b.mu.RLock()
	defer b.mu.RUnlock()
	b.Emitted[e.key]++
	sinks := append([]*StubSub{}, b.subs[e.key]...)
	sinks = append(sinks, b.subs[TypeKey(event.WildcardSubscription)]...)
	for _, s := range sinks {
		s.out <- evt // blocking per-sink FIFO under the bus read lock, as the real eventbus
	}
	return nil
}

func (e *StubEmitter) Close() error {
	if e.closed {
		return fmt.Errorf("closed an emitter more than once")
	}
	e.closed = true
	return nil
}

// ---------------------------------------------------------------- cache

type Cache struct {
	datastore.Datastore
	mu     sync.Mutex
	M      map[string][]byte
	Log    *EffectLog
	Closed int
	Puts   int
	// Locked is set while a store opened from the disk model is open (leveldb's LOCK file).
	Locked bool
	// FailPut, if set, makes every Put of that key fail (a storage error).
	FailPut string
	// Label summarises a value for Event labels (set by harnesses that replay schedules).
	Label func(key string, value []byte) string
}

func NewCache(log *EffectLog) *Cache { return &Cache{M: map[string][]byte{}, Log: log} }

// Clone returns an independent cache holding a copy of the current content (the
// disk image as of now, for a replica that restarts from it).
func (c *Cache) Clone() *Cache {
	c.mu.Lock()
	defer c.mu.Unlock()
	n := &Cache{M: map[string][]byte{}, Log: c.Log}
	for k, v := range c.M {
		n.M[k] = v
	}
	return n
}

func (c *Cache) Put(ctx context.Context, key datastore.Key, value []byte) error {
	label := "cache-put:" + key.String()
	if c.Label != nil {
		label += ":" + c.Label(key.String(), value)
	}
	if c.FailPut != "" && c.FailPut == key.String() {
		return fmt.Errorf("vstub: injected cache write failure")
	}
	tok := EventBegin(label)
	c.mu.Lock()
	c.M[key.String()] = value
	c.Puts++
	c.mu.Unlock()
	c.Log.add(Effect{Kind: "cache-put", Key: key.String(), Value: value})
	EventEnd(tok)
	return nil
}

func (c *Cache) Get(ctx context.Context, key datastore.Key) ([]byte, error) {
	c.mu.Lock()
	defer c.mu.Unlock()
	v, ok := c.M[key.String()]
	if !ok {
		return nil, datastore.ErrNotFound
	}
	return v, nil
}

func (c *Cache) Has(ctx context.Context, key datastore.Key) (bool, error) {
	c.mu.Lock()
	defer c.mu.Unlock()
	_, ok := c.M[key.String()]
	return ok, nil
}

func (c *Cache) Delete(ctx context.Context, key datastore.Key) error {
	c.mu.Lock()
	delete(c.M, key.String())
	c.mu.Unlock()
	c.Log.add(Effect{Kind: "cache-del", Key: key.String()})
	return nil
}

func (c *Cache) Sync(ctx context.Context, prefix datastore.Key) error { return nil }

func (c *Cache) Close() error {
	c.mu.Lock()
	c.Closed++
	c.Locked = false
	c.mu.Unlock()
	return nil
}

// ---------------------------------------------------------------- logs for index-level harnesses

// ListLog is an oplog with a fixed listing (log order), for harnesses that
// drive an index or a query directly.
type ListLog struct {
	logiface.IPFSLog
	Entries []logiface.IPFSLogEntry
	ID      string
}

func (l *ListLog) Values() logiface.IPFSLogOrderedEntries {
	return entry.NewOrderedMapFromEntries(l.Entries)
}
func (l *ListLog) Len() int      { return len(l.Entries) }
func (l *ListLog) GetID() string { return l.ID }

// MkEntry builds a bare entry with the k-th CID and the given payload.
func MkEntry(k int, payload []byte) *entry.Entry {
	return &entry.Entry{Hash: MkCid(k), Payload: payload, LogID: "log", V: 2,
		Clock: &entry.LamportClock{ID: []byte("w"), Time: k + 1}}
}

// AuthorEntry builds, for the unit harnesses of the access controllers, an entry
// carrying an identity block that is genuine or forged by identity "b":
//
//	0 genuine "a"            1 genuine "b"
//	2 "b" naming a's id (own key, own signatures)
//	3 "b" naming a's id, the id re-signed with b's key, a's voucher copied
//	4 a copy of a's identity block, the entry signed with b's key
//	5 a's block with the signatures stripped
//	6 "b" naming a's id, a's id signature copied, b's own voucher
//	7 "b" naming a's id, both of a's signatures copied
//
// It returns the entry, the id it claims and whether the claim is genuine.
func AuthorEntry(kind int) (e *entry.Entry, claimedID string, genuine bool) {
	prov := NewProvider()
	a, b := NewIdentity("a", prov), NewIdentity("b", prov)
	switch kind {
	case 0:
		return &entry.Entry{Identity: a.Filtered(), Key: a.PublicKey}, a.ID, true
	case 1:
		return &entry.Entry{Identity: b.Filtered(), Key: b.PublicKey}, b.ID, true
	case 2:
		return &entry.Entry{Identity: &idp.Identity{ID: a.ID, PublicKey: b.PublicKey, Signatures: b.Signatures, Type: "orbitdb"}, Key: b.PublicKey}, a.ID, false
	case 3:
		sigs := &idp.IdentitySignature{ID: SignToken(b.PublicKey, []byte(a.ID)), PublicKey: a.Signatures.PublicKey}
		return &entry.Entry{Identity: &idp.Identity{ID: a.ID, PublicKey: b.PublicKey, Signatures: sigs, Type: "orbitdb"}, Key: b.PublicKey}, a.ID, false
	case 4:
		return &entry.Entry{Identity: a.Filtered(), Key: b.PublicKey}, a.ID, false
	case 6:
		sigs := &idp.IdentitySignature{ID: a.Signatures.ID, PublicKey: b.Signatures.PublicKey}
		return &entry.Entry{Identity: &idp.Identity{ID: a.ID, PublicKey: b.PublicKey, Signatures: sigs, Type: "orbitdb"}, Key: b.PublicKey}, a.ID, false
	case 7:
		sigs := &idp.IdentitySignature{ID: a.Signatures.ID, PublicKey: a.Signatures.PublicKey}
		return &entry.Entry{Identity: &idp.Identity{ID: a.ID, PublicKey: b.PublicKey, Signatures: sigs, Type: "orbitdb"}, Key: b.PublicKey}, a.ID, false
	default:
		return &entry.Entry{Identity: &idp.Identity{ID: a.ID, PublicKey: a.PublicKey, Type: "orbitdb"}, Key: a.PublicKey}, a.ID, false
	}
}

// AuthorKinds is the number of cases of AuthorEntry.
const AuthorKinds = 8

package vstub

import (
	"context"
	"fmt"

	coreiface "github.com/ipfs/kubo/core/coreiface"
	"github.com/ipfs/kubo/core/coreiface/options"
	"github.com/libp2p/go-libp2p/core/peer"
)

// ScriptedPubSub is a coreiface.PubSubAPI whose Peers() answers follow a script
// of membership snapshots and whose subscriptions deliver scripted messages.
type ScriptedPubSub struct {
	coreiface.PubSubAPI
	Snapshots [][]peer.ID
	next      int
	Messages  []*Msg
	Published []Published
}

type Published struct {
	Topic string
	Data  []byte
}

type Msg struct {
	coreiface.PubSubMessage
	Sender peer.ID
	Body   []byte
}

func (m *Msg) From() peer.ID { return m.Sender }
func (m *Msg) Data() []byte  { return m.Body }

func (p *ScriptedPubSub) Peers(ctx context.Context, opts ...options.PubSubPeersOption) ([]peer.ID, error) {
	if p.next >= len(p.Snapshots) {
		return nil, fmt.Errorf("script exhausted")
	}
	s := p.Snapshots[p.next]
	p.next++
	return s, nil
}

func (p *ScriptedPubSub) Publish(ctx context.Context, topic string, data []byte) error {
	p.Published = append(p.Published, Published{Topic: topic, Data: data})
	return nil
}

type scriptedSub struct {
	msgs []*Msg
	pos  int
}

func (s *scriptedSub) Close() error { return nil }

// Next delivers the scripted messages in order, then reports cancellation
// (as the real subscription does when its context ends).
func (s *scriptedSub) Next(ctx context.Context) (coreiface.PubSubMessage, error) {
	if s.pos >= len(s.msgs) {
		return nil, context.Canceled
	}
	m := s.msgs[s.pos]
	s.pos++
	return m, nil
}

func (p *ScriptedPubSub) Subscribe(ctx context.Context, topic string, opts ...options.PubSubSubscribeOption) (coreiface.PubSubSubscription, error) {
	return &scriptedSub{msgs: p.Messages}, nil
}

// PubSubCoreAPI is a CoreAPI exposing only PubSub().
type PubSubCoreAPI struct {
	coreiface.CoreAPI
	PS *ScriptedPubSub
}

func (c *PubSubCoreAPI) PubSub() coreiface.PubSubAPI { return c.PS }

package vstub

import (
	"context"
	"fmt"
	"sync"

	coreiface "github.com/ipfs/kubo/core/coreiface"
	"github.com/ipfs/kubo/core/coreiface/options"
	"github.com/libp2p/go-libp2p/core/peer"
)

// ScriptedPubSub is a coreiface.PubSubAPI whose Peers() answers follow a script
// of membership snapshots and whose subscriptions deliver scripted messages.
type ScriptedPubSub struct {
	coreiface.PubSubAPI
	Snapshots [][]peer.ID
	next      int
	Messages  []*Msg
	Published []Published
	// Always, if set, is returned by every Peers() call (a stable membership).
	Always []peer.ID
	// Subscribes counts Subscribe calls; Live feeds subscriptions created with LiveSubs.
	// ErrAt, if not 0, makes the ErrAt-th Peers() call fail (a transient error that
	// consumes no snapshot); StickyLast keeps answering with the last snapshot once
	// the script is exhausted (instead of an error); Polls counts Peers() calls and
	// OnPoll is called on each.
	ErrAt      int
	StickyLast bool
	Polls      int
	OnPoll     func(n int)
	Subscribes int
	LiveSubs   bool
	Subs       []*LiveSub
}

// LiveSub is a subscription fed by the harness (Push) instead of a script.
type LiveSub struct {
	ch     chan *Msg
	closed chan struct{}
	once   sync.Once
}

// Close ends the subscription: a pending or later Next returns an error (as the
// real subscription does).
func (s *LiveSub) Close() error {
	s.once.Do(func() {
		if s.closed != nil {
			close(s.closed)
		}
	})
	return nil
}

func (s *LiveSub) Next(ctx context.Context) (coreiface.PubSubMessage, error) {
	select {
	case m := <-s.ch:
		return m, nil
	case <-s.closed:
		return nil, fmt.Errorf("subscription closed")
	case <-ctx.Done():
		return nil, ctx.Err()
	}
}

// Push delivers a message to every live subscription (as pubsub does).
func (p *ScriptedPubSub) Push(m *Msg) {
	for _, s := range p.Subs {
		s.ch <- m
	}
}

type swarm struct {
	coreiface.SwarmAPI
}

func (s *swarm) Connect(ctx context.Context, pi peer.AddrInfo) error { return nil }

func (c *PubSubCoreAPI) Swarm() coreiface.SwarmAPI { return &swarm{} }

type selfKeyAPI struct {
	coreiface.KeyAPI
	id peer.ID
}

type Published struct {
	Topic string
	Data  []byte
}

type Msg struct {
	coreiface.PubSubMessage
	Sender peer.ID
	Body   []byte
}

func (m *Msg) From() peer.ID { return m.Sender }
func (m *Msg) Data() []byte  { return m.Body }

func (p *ScriptedPubSub) Peers(ctx context.Context, opts ...options.PubSubPeersOption) ([]peer.ID, error) {
	if p.Always != nil {
		return p.Always, nil
	}
	p.Polls++
	if p.OnPoll != nil {
		p.OnPoll(p.Polls)
	}
	if p.ErrAt != 0 && p.Polls == p.ErrAt {
		return nil, fmt.Errorf("transient error")
	}
	if p.next >= len(p.Snapshots) {
		if p.StickyLast && len(p.Snapshots) > 0 {
			return p.Snapshots[len(p.Snapshots)-1], nil
		}
		return nil, fmt.Errorf("script exhausted")
	}
	s := p.Snapshots[p.next]
	p.next++
	return s, nil
}

func (p *ScriptedPubSub) Publish(ctx context.Context, topic string, data []byte) error {
	p.Published = append(p.Published, Published{Topic: topic, Data: data})
	return nil
}

type scriptedSub struct {
	msgs []*Msg
	pos  int
}

func (s *scriptedSub) Close() error { return nil }

// Next delivers the scripted messages in order, then reports cancellation
// (as the real subscription does when its context ends).
func (s *scriptedSub) Next(ctx context.Context) (coreiface.PubSubMessage, error) {
	if s.pos >= len(s.msgs) {
		return nil, context.Canceled
	}
	m := s.msgs[s.pos]
	s.pos++
	return m, nil
}

func (p *ScriptedPubSub) Subscribe(ctx context.Context, topic string, opts ...options.PubSubSubscribeOption) (coreiface.PubSubSubscription, error) {
	Yield() // a subscribe is a network operation: other goroutines may run meanwhile
	p.Subscribes++
	if p.LiveSubs {
		s := &LiveSub{ch: make(chan *Msg, 16), closed: make(chan struct{})}
		p.Subs = append(p.Subs, s)
		return s, nil
	}
	return &scriptedSub{msgs: p.Messages}, nil
}

// PubSubCoreAPI is a CoreAPI exposing only PubSub().
type PubSubCoreAPI struct {
	coreiface.CoreAPI
	PS *ScriptedPubSub
}

func (c *PubSubCoreAPI) PubSub() coreiface.PubSubAPI { return c.PS }

package directchannel

import (
	"context"

	"berty.tech/go-orbit-db/internal/vstub"
	"github.com/libp2p/go-libp2p/core/network"
	"github.com/libp2p/go-libp2p/core/peer"
	"github.com/libp2p/go-libp2p/core/protocol"
	"go.uber.org/zap"
)

func init() {
	verifHarnesses["VerifC20Factory"] = VerifC20Factory
}

type regHost struct {
	stubHost
	handlers map[protocol.ID]network.StreamHandler
	removed  []protocol.ID
}

func (h *regHost) SetStreamHandler(pid protocol.ID, handler network.StreamHandler) {
	h.handlers[pid] = handler
}
func (h *regHost) RemoveStreamHandler(pid protocol.ID) {
	delete(h.handlers, pid)
	h.removed = append(h.removed, pid)
}

type closeEmitter struct {
	recEmitter
	closed int
}

func (e *closeEmitter) Close() error { e.closed++; return nil }

// VerifC20Factory: the public construction path of the direct channel
// (InitDirectChannelFactory -> NewChannel): the channel registers ONE stream
// handler under the protocol id on the host; a frame arriving through that
// handler is emitted once, intact, attributed to the stream's remote peer, on
// the emitter the instance supplied; Send on the other side opens a stream for
// the same protocol; Close removes the handler and closes the emitter.
func VerifC20Factory() {
	wire := &stubStream{}
	hostA := &regHost{handlers: map[protocol.ID]network.StreamHandler{}}
	hostB := &regHost{stubHost: stubHost{out: wire}, handlers: map[protocol.ID]network.StreamHandler{}}
	emA, emB := &closeEmitter{}, &closeEmitter{}
	chA, err := InitDirectChannelFactory(zap.NewNop(), hostA)(context.Background(), emA, nil)
	chB, err2 := InitDirectChannelFactory(zap.NewNop(), hostB)(context.Background(), emB, nil)
	if err != nil || err2 != nil {
		vstub.Fail("C20 NewChannel failed")
		return
	}
	vstub.Assert(len(hostA.handlers) == 1 && hostA.handlers[PROTOCOL] != nil, "C20 the channel registers its stream handler under the protocol id")
	if err := chA.Connect(context.Background(), peer.ID("b")); err != nil {
		vstub.Fail("C20 Connect failed")
	}
	l := vstub.NdChoice("len", vstub.Param("L", 3)+1)
	payload := vstub.NdBytes("payload", l)
	if err := chB.Send(context.Background(), peer.ID("a"), payload); err != nil {
		vstub.Fail("C20 Send failed")
		return
	}
	h := hostA.handlers[PROTOCOL]
	if h == nil {
		return
	}
	h(&stubStream{buf: wire.buf, remote: peer.ID("b")})
	vstub.Cover("delivered")
	vstub.Assert(len(emA.got) == 1, "C20 a payload sent by a remote peer is delivered exactly once")
	if len(emA.got) == 1 {
		vstub.Assert(string(emA.got[0].Payload) == string(payload), "C20 a payload is delivered byte for byte")
		vstub.Assert(emA.got[0].Peer == peer.ID("b"), "C20 a payload is attributed to the stream's remote peer")
	}
	vstub.Assert(len(emB.got) == 0, "C20 the sender does not receive its own payload")
	if err := chA.Close(); err != nil {
		vstub.Fail("C18 direct channel Close failed")
	}
	vstub.Cover("closed")
	vstub.Assert(len(hostA.handlers) == 0 && len(hostA.removed) == 1 && hostA.removed[0] == PROTOCOL, "C18 closing the channel removes its stream handler")
	vstub.Assert(emA.closed == 1, "C18 closing the channel closes its emitter")
}

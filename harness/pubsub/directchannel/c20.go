package directchannel

import (
	"context"
	"encoding/binary"
	"io"

	"berty.tech/go-orbit-db/iface"
	"berty.tech/go-orbit-db/internal/vstub"
	"github.com/libp2p/go-libp2p/core/host"
	"github.com/libp2p/go-libp2p/core/network"
	"github.com/libp2p/go-libp2p/core/peer"
	"github.com/libp2p/go-libp2p/core/protocol"
	"go.uber.org/zap"
)

var verifHarnesses = map[string]func(){
	"VerifC20FrameRoundTrip": VerifC20FrameRoundTrip,
	"VerifC12RawFrame":       VerifC12RawFrame,
}

// ---- stubs: a byte pipe standing in for a libp2p stream ----

type stubConn struct {
	network.Conn
	remote peer.ID
}

func (c *stubConn) RemotePeer() peer.ID { return c.remote }

type stubStream struct {
	network.Stream
	buf    []byte
	pos    int
	remote peer.ID
	resets int
}

func (s *stubStream) Read(p []byte) (int, error) {
	if s.pos >= len(s.buf) {
		return 0, io.EOF
	}
	n := copy(p, s.buf[s.pos:])
	s.pos += n
	return n, nil
}

func (s *stubStream) Write(p []byte) (int, error) {
	s.buf = append(s.buf, p...)
	return len(p), nil
}

func (s *stubStream) Close() error       { return nil }
func (s *stubStream) Reset() error       { s.resets++; return nil }
func (s *stubStream) Conn() network.Conn { return &stubConn{remote: s.remote} }

type stubHost struct {
	host.Host
	out *stubStream
}

func (h *stubHost) NewStream(ctx context.Context, p peer.ID, pids ...protocol.ID) (network.Stream, error) {
	return h.out, nil
}

type recEmitter struct {
	got []*iface.EventPubSubPayload
}

func (e *recEmitter) Emit(p *iface.EventPubSubPayload) error { e.got = append(e.got, p); return nil }
func (e *recEmitter) Close() error                           { return nil }

// VerifC20FrameRoundTrip: a payload sent by Send is delivered by the receiving
// side's handleNewPeer exactly once, byte for byte, attributed to the stream's
// remote peer; afterwards a second frame is still delivered.
func VerifC20FrameRoundTrip() {
	maxLen := vstub.Param("L", 3)
	l := vstub.NdChoice("len", maxLen+1)
	payload := vstub.NdBytes("payload", l)
	wire := &stubStream{}
	sender := &directChannel{host: &stubHost{out: wire}, emitter: &recEmitter{}, logger: zap.NewNop()}
	if err := sender.Send(context.Background(), peer.ID("receiver"), payload); err != nil {
		vstub.Fail("C20 Send failed")
		return
	}
	em := &recEmitter{}
	receiver := &directChannel{emitter: em, logger: zap.NewNop()}
	in := &stubStream{buf: wire.buf, remote: peer.ID("sender")}
	receiver.handleNewPeer(in)
	vstub.Cover("received")
	vstub.Assert(len(em.got) == 1, "C20 payload delivered exactly once")
	if len(em.got) == 1 {
		vstub.Assert(string(em.got[0].Payload) == string(payload), "C20 payload delivered byte for byte")
		vstub.Assert(em.got[0].Peer == peer.ID("sender"), "C20 payload attributed to the remote peer of the stream")
	}
}

// VerifC12RawFrame: ANY byte stream of up to B bytes on a direct-channel
// stream is either decoded (then the emitted payload is exactly the declared
// bytes) or dropped; it never panics, and a valid frame on the next stream is
// still delivered.
func VerifC12RawFrame() {
	maxLen := vstub.Param("B", 11)
	l := vstub.NdChoice("len", maxLen+1)
	raw := vstub.NdBytes("raw", l)
	em := &recEmitter{}
	d := &directChannel{emitter: em, logger: zap.NewNop()}
	// oversized frames are refused: no buffer larger than the frame limit is ever
	// allocated from a length prefix chosen by the remote peer
	vstub.AllocLimit(DelimitedReadMaxSize)
	d.handleNewPeer(&stubStream{buf: raw, remote: peer.ID("mallory")})
	vstub.AllocLimit(0)
	vstub.Cover("handled")
	vstub.Assert(len(em.got) <= 1, "C12 at most one payload per stream")
	if len(em.got) == 1 {
		p := em.got[0].Payload
		// the payload is a suffix-aligned slice of the stream after the length prefix
		vstub.Assert(len(p) <= len(raw), "C12 emitted payload comes from the stream")
	}
	// reference: the stream is <uvarint length n><n bytes>; a frame is delivered if and
	// only if the length prefix is well formed, within the limit, and ALL n bytes are
	// there (a stream that ends early - cleanly or not - delivers nothing); then the
	// payload is exactly those n bytes (C20: byte for byte, nothing the peer did not send)
	n, k := binary.Uvarint(raw)
	complete := k > 0 && n <= DelimitedReadMaxSize && uint64(len(raw)-k) >= n
	if complete {
		vstub.Cover("complete-frame")
		vstub.Assert(len(em.got) == 1, "C20 a complete frame is delivered")
		if len(em.got) == 1 {
			vstub.Assert(string(em.got[0].Payload) == string(raw[k:k+int(n)]), "C20 the delivered payload is exactly the announced bytes")
			vstub.Assert(em.got[0].Peer == peer.ID("mallory"), "C20 the payload is attributed to the remote peer of the stream")
		}
	} else {
		vstub.Cover("incomplete-frame")
		vstub.Assert(len(em.got) == 0, "C20/C12 a frame whose announced bytes did not all arrive (or whose length prefix is malformed or too large) delivers nothing")
	}
	// later traffic is not disturbed
	em.got = nil
	wire := &stubStream{}
	sender := &directChannel{host: &stubHost{out: wire}, emitter: &recEmitter{}, logger: zap.NewNop()}
	_ = sender.Send(context.Background(), peer.ID("x"), []byte("ok"))
	d.handleNewPeer(&stubStream{buf: wire.buf, remote: peer.ID("bob")})
	vstub.Assert(len(em.got) == 1, "C12 a valid frame after a malformed one is still delivered")
}

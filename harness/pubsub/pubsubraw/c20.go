package pubsubraw

import (
	"context"

	"berty.tech/go-orbit-db/events"
	"berty.tech/go-orbit-db/iface"
	"berty.tech/go-orbit-db/internal/vstub"
	p2ppubsub "github.com/libp2p/go-libp2p-pubsub"
	pb "github.com/libp2p/go-libp2p-pubsub/pb"
	"github.com/libp2p/go-libp2p/core/peer"
)

var verifHarnesses = map[string]func(){
	"VerifC20RawPeers":    VerifC20RawPeers,
	"VerifC20RawMessages": VerifC20RawMessages,
	"VerifC20RawTopics":   VerifC20RawTopics,
}

// ---------------------------------------------------------------------------
// Scripted stand-ins for libp2p-pubsub's concrete types.  Under the
// interpreter the methods of *PubSub, *Topic, *TopicEventHandler and
// *Subscription are replaced BY NAME with the functions below (gosym
// replace.go); the objects themselves are zero values used as identities.
// Contract mirrored from libp2p-pubsub: NextPeerEvent / Next return the next
// queued item, or block until the context ends and return its error; a
// cancelled handler / subscription is remembered.
// ---------------------------------------------------------------------------

type rawTopicScript struct {
	name       string
	peerEvents []p2ppubsub.PeerEvent
	msgs       []*p2ppubsub.Message
	peers      []peer.ID
	published  [][]byte
	handlers   []*p2ppubsub.TopicEventHandler
	subs       []*p2ppubsub.Subscription
}

type rawCursor struct {
	script    *rawTopicScript
	pos       int
	cancelled bool
}

var (
	verifRawTopics   = map[*p2ppubsub.Topic]*rawTopicScript{}
	verifRawHandlers = map[*p2ppubsub.TopicEventHandler]*rawCursor{}
	verifRawSubs     = map[*p2ppubsub.Subscription]*rawCursor{}
	verifRawJoins    = map[string]int{}
	verifRawScripts  = map[string]*rawTopicScript{}
)

func verifRawJoin(ps *p2ppubsub.PubSub, topic string, opts ...p2ppubsub.TopicOpt) (*p2ppubsub.Topic, error) {
	verifRawJoins[topic]++
	t := new(p2ppubsub.Topic)
	s := verifRawScripts[topic]
	if s == nil {
		s = &rawTopicScript{name: topic}
		verifRawScripts[topic] = s
	}
	verifRawTopics[t] = s
	return t, nil
}

func verifRawPublish(t *p2ppubsub.Topic, ctx context.Context, data []byte, opts ...p2ppubsub.PubOpt) error {
	s := verifRawTopics[t]
	s.published = append(s.published, data)
	return nil
}

func verifRawListPeers(t *p2ppubsub.Topic) []peer.ID { return verifRawTopics[t].peers }

func verifRawEventHandler(t *p2ppubsub.Topic, opts ...p2ppubsub.TopicEventHandlerOpt) (*p2ppubsub.TopicEventHandler, error) {
	h := new(p2ppubsub.TopicEventHandler)
	s := verifRawTopics[t]
	verifRawHandlers[h] = &rawCursor{script: s}
	s.handlers = append(s.handlers, h)
	return h, nil
}

func verifRawSubscribe(t *p2ppubsub.Topic, opts ...p2ppubsub.SubOpt) (*p2ppubsub.Subscription, error) {
	sub := new(p2ppubsub.Subscription)
	s := verifRawTopics[t]
	verifRawSubs[sub] = &rawCursor{script: s}
	s.subs = append(s.subs, sub)
	return sub, nil
}

func verifRawNextPeerEvent(h *p2ppubsub.TopicEventHandler, ctx context.Context) (p2ppubsub.PeerEvent, error) {
	c := verifRawHandlers[h]
	if c.pos < len(c.script.peerEvents) {
		e := c.script.peerEvents[c.pos]
		c.pos++
		return e, nil
	}
	<-ctx.Done()
	return p2ppubsub.PeerEvent{}, ctx.Err()
}

func verifRawHandlerCancel(h *p2ppubsub.TopicEventHandler) { verifRawHandlers[h].cancelled = true }

func verifRawNext(sub *p2ppubsub.Subscription, ctx context.Context) (*p2ppubsub.Message, error) {
	c := verifRawSubs[sub]
	if c.pos < len(c.script.msgs) {
		m := c.script.msgs[c.pos]
		c.pos++
		return m, nil
	}
	<-ctx.Done()
	return nil, ctx.Err()
}

func verifRawSubCancel(sub *p2ppubsub.Subscription) { verifRawSubs[sub].cancelled = true }

func verifRawWithBufferSize(size int) p2ppubsub.SubOpt { return nil }

// ---------------------------------------------------------------------------

func rawPeer(k int) peer.ID { return peer.ID("remote-" + string(rune('a'+k))) }

// VerifC20RawPeers: every scripted sequence of E join/leave events of the
// underlying topic (peers drawn from P remote peers) is reported by WatchPeers
// exactly once each, in order, with the right kind, peer and topic; when the
// context ends the channel is closed and the handler cancelled.
func VerifC20RawPeers() {
	nev := vstub.Param("E", 3)
	np := vstub.Param("P", 2)
	self := peer.ID("self")
	ps := NewPubSub(new(p2ppubsub.PubSub), self, nil, nil)
	script := &rawTopicScript{name: "topic-x"}
	verifRawScripts["topic-x"] = script
	n := vstub.NdChoice("events", nev+1)
	for k := 0; k < n; k++ {
		typ := p2ppubsub.PeerJoin
		if vstub.NdChoice("kind", 2) == 1 {
			typ = p2ppubsub.PeerLeave
		}
		script.peerEvents = append(script.peerEvents, p2ppubsub.PeerEvent{Type: typ, Peer: rawPeer(vstub.NdChoice("peer", np))})
	}
	ctx, cancel := context.WithCancel(context.Background())
	topic, err := ps.TopicSubscribe(ctx, "topic-x")
	if err != nil {
		vstub.Fail("C20 TopicSubscribe failed")
		return
	}
	ch, err := topic.WatchPeers(ctx)
	if err != nil {
		vstub.Fail("C20 WatchPeers failed")
		return
	}
	vstub.WaitIdle()
	var got []events.Event
	for len(ch) > 0 {
		got = append(got, <-ch)
	}
	vstub.Cover("watched")
	vstub.Assert(len(got) == n, "C20 each join / leave of the underlying topic is reported exactly once")
	if len(got) == n {
		for k, e := range got {
			want := script.peerEvents[k]
			switch ev := e.(type) {
			case *iface.EventPubSubJoin:
				vstub.Assert(want.Type == p2ppubsub.PeerJoin, "C20 a leave is not reported as a join")
				vstub.Assert(ev.Peer == want.Peer, "C20 a join is attributed to the peer that joined")
				vstub.Assert(ev.Topic == "topic-x", "C20 a join names its topic")
			case *iface.EventPubSubLeave:
				vstub.Assert(want.Type == p2ppubsub.PeerLeave, "C20 a join is not reported as a leave")
				vstub.Assert(ev.Peer == want.Peer, "C20 a leave is attributed to the peer that left")
				vstub.Assert(ev.Topic == "topic-x", "C20 a leave names its topic")
			default:
				vstub.Fail("C20 unexpected event type from WatchPeers")
			}
		}
	}
	cancel()
	vstub.WaitIdle()
	_, open := <-ch
	vstub.Assert(!open, "C20 the peer channel is closed when its context ends")
	vstub.Assert(len(script.handlers) == 1 && verifRawHandlers[script.handlers[0]].cancelled, "C20 the topic event handler is released when the watch ends")
	vstub.Assert(vstub.LiveThreads("berty.tech/go-orbit-db/pubsub") == 0, "C20 no watcher goroutine is left behind")
}

// VerifC20RawMessages: M scripted messages, each received from the local peer
// (an echo of an own publication) or from a remote peer, with symbolic bodies:
// exactly the remote ones are delivered, once each, in order, byte for byte;
// the channel closes and the subscription is cancelled when the context ends.
func VerifC20RawMessages() {
	nm := vstub.Param("M", 3)
	self := peer.ID("self")
	ps := NewPubSub(new(p2ppubsub.PubSub), self, nil, nil)
	script := &rawTopicScript{name: "topic-x"}
	verifRawScripts["topic-x"] = script
	n := vstub.NdChoice("messages", nm+1)
	var want [][]byte
	for k := 0; k < n; k++ {
		body := vstub.NdBytes("body", vstub.NdChoice("bodyLen", 3))
		from := self
		if vstub.NdChoice("from", 2) == 1 {
			from = rawPeer(vstub.NdChoice("remote", 2))
			want = append(want, body)
		}
		script.msgs = append(script.msgs, &p2ppubsub.Message{Message: &pb.Message{Data: body}, ReceivedFrom: from})
	}
	ctx, cancel := context.WithCancel(context.Background())
	topic, err := ps.TopicSubscribe(ctx, "topic-x")
	if err != nil {
		vstub.Fail("C20 TopicSubscribe failed")
		return
	}
	ch, err := topic.WatchMessages(ctx)
	if err != nil {
		vstub.Fail("C20 WatchMessages failed")
		return
	}
	vstub.WaitIdle()
	var got [][]byte
	for len(ch) > 0 {
		m := <-ch
		got = append(got, m.Content)
	}
	vstub.Cover("drained")
	vstub.Assert(len(got) == len(want), "C20 exactly the payloads sent by remote peers are delivered (own messages are not)")
	if len(got) == len(want) {
		for k := range got {
			vstub.Assert(len(got[k]) == len(want[k]), "C20 a payload is delivered with its length intact")
			if len(got[k]) == len(want[k]) {
				for j := range got[k] {
					vstub.Assert(got[k][j] == want[k][j], "C20 a payload is delivered byte for byte, in order")
				}
			}
		}
	}
	cancel()
	vstub.WaitIdle()
	_, open := <-ch
	vstub.Assert(!open, "C20 the message channel is closed when its context ends")
	vstub.Assert(len(script.subs) == 1 && verifRawSubs[script.subs[0]].cancelled, "C20 the subscription is cancelled when the watch ends")
	vstub.Assert(vstub.LiveThreads("berty.tech/go-orbit-db/pubsub") == 0, "C20 no watcher goroutine is left behind")
}

// VerifC20RawTopics: subscribing to the same topic twice yields the same topic
// (joined once), different topics are distinct, Publish hands the payload to
// the underlying topic unchanged and Peers reports its peer list.
func VerifC20RawTopics() {
	self := peer.ID("self")
	ps := NewPubSub(new(p2ppubsub.PubSub), self, nil, nil)
	ctx := context.Background()
	name := "t" + vstub.NdString("topic", 1)
	other := "t" + vstub.NdString("other", 1)
	t1, err1 := ps.TopicSubscribe(ctx, name)
	t2, err2 := ps.TopicSubscribe(ctx, name)
	t3, err3 := ps.TopicSubscribe(ctx, other)
	if err1 != nil || err2 != nil || err3 != nil {
		vstub.Fail("C20 TopicSubscribe failed")
		return
	}
	vstub.Cover("subscribed")
	vstub.Assert(t1 == t2, "C20 subscribing twice to a topic yields the same topic")
	vstub.Assert(verifRawJoins[name] == 1 || name == other, "C20 a topic is joined once")
	vstub.Assert(t1.Topic() == name && t3.Topic() == other, "C20 a topic knows its name")
	if name != other {
		vstub.Assert(t1 != t3, "C20 different topics are distinct")
	}
	body := vstub.NdBytes("body", 2)
	if err := t1.Publish(ctx, body); err != nil {
		vstub.Fail("C20 Publish failed")
		return
	}
	s := verifRawScripts[name]
	vstub.Assert(len(s.published) == 1, "C20 a publication reaches the underlying topic exactly once")
	if len(s.published) == 1 {
		vstub.Assert(len(s.published[0]) == 2 && s.published[0][0] == body[0] && s.published[0][1] == body[1], "C20 a publication reaches the underlying topic unchanged")
	}
	if name != other {
		vstub.Assert(len(verifRawScripts[other].published) == 0, "C20 a publication goes to its own topic only")
	}
	s.peers = []peer.ID{rawPeer(0), rawPeer(1)}
	got, err := t1.Peers(ctx)
	vstub.Assert(err == nil && len(got) == 2 && got[0] == rawPeer(0) && got[1] == rawPeer(1), "C20 Peers reports the underlying topic's peers")
}

package oneonone

import (
	"context"
	"sync"
	"time"

	"berty.tech/go-orbit-db/iface"
	"berty.tech/go-orbit-db/internal/vstub"
	"github.com/libp2p/go-libp2p/core/peer"
	"go.uber.org/zap"
)

var verifHarnesses = map[string]func(){
	"VerifC20ChannelID":   VerifC20ChannelID,
	"VerifC20Monitor":     VerifC20Monitor,
	"VerifC20ConnectRace": VerifC20ConnectRace,
	"VerifC20Reconnect":   VerifC20Reconnect,
}

type recEmitter struct {
	got []*iface.EventPubSubPayload
}

func (e *recEmitter) Emit(p *iface.EventPubSubPayload) error { e.got = append(e.got, p); return nil }
func (e *recEmitter) Close() error                           { return nil }

// VerifC20ChannelID: both ends of a pairwise channel derive the same channel
// name, and different pairs derive different names (peer ids: symbolic strings).
func VerifC20ChannelID() {
	l := vstub.Param("L", 2)
	a := peer.ID(vstub.NdString("a", l))
	b := peer.ID(vstub.NdString("b", l))
	c := peer.ID(vstub.NdString("c", l))
	// ids are made of base58-like characters: no '/' (the separator of the channel name)
	for _, id := range []peer.ID{a, b, c} {
		for i := 0; i < len(id); i++ {
			vstub.Assume(id[i] != '/')
		}
	}
	ca := &channels{selfID: a, logger: zap.NewNop()}
	cb := &channels{selfID: b, logger: zap.NewNop()}
	vstub.Assert(ca.getChannelID(b) == cb.getChannelID(a), "C20 both ends derive the same channel name")
	vstub.Cover("symmetric")
	if b != c {
		vstub.Assert(ca.getChannelID(b) != ca.getChannelID(c), "C20 distinct pairs derive distinct channel names")
		vstub.Cover("distinct")
	}
}

// VerifC20Monitor: on a pairwise channel, own messages are never delivered and
// every message of the other peer is delivered once, in order, intact,
// attributed to that peer; Send publishes on the shared channel name.
func VerifC20Monitor() {
	n := vstub.Param("M", 3)
	self, other := peer.ID("self"), peer.ID("other")
	em := &recEmitter{}
	script := &vstub.ScriptedPubSub{}
	var want [][]byte
	// the channel's remote end is another peer or - a caller may Connect / Send to
	// its own id - the local peer itself: then everything on the topic is the local
	// peer's own traffic echoed back, and none of it may be delivered
	target := other
	if vstub.NdChoice("channel-with-self", 2) == 1 {
		target = self
		vstub.Cover("channel-with-self")
	}
	for k := 0; k < n; k++ {
		from := other
		if target == self || vstub.NdChoice("fromSelf", 2) == 1 {
			from = self
		}
		body := vstub.NdBytes("body", 1)
		script.Messages = append(script.Messages, &vstub.Msg{Sender: from, Body: body})
		if from != self {
			want = append(want, body)
		}
	}
	c := &channels{selfID: self, emitter: em, logger: zap.NewNop(), subs: map[peer.ID]*channel{},
		ipfs: &vstub.PubSubCoreAPI{PS: script}}
	sub, _ := script.Subscribe(context.Background(), "x")
	c.monitorTopic(context.Background(), sub, target)
	vstub.Cover("monitored")
	vstub.Assert(len(em.got) == len(want), "C20 every remote payload delivered exactly once, own payloads never")
	if len(em.got) == len(want) {
		for k := range want {
			vstub.Assert(string(em.got[k].Payload) == string(want[k]), "C20 payloads in order, byte for byte")
			vstub.Assert(em.got[k].Peer == other, "C20 payload attributed to the remote peer")
		}
	}
	payload := vstub.NdBytes("out", 1)
	if err := c.Send(context.Background(), other, payload); err != nil {
		vstub.Fail("C20 Send failed")
		return
	}
	vstub.Assert(len(script.Published) == 1, "C20 Send publishes once")
	if len(script.Published) == 1 {
		vstub.Assert(script.Published[0].Topic == (&channels{selfID: other, logger: zap.NewNop()}).getChannelID(self), "C20 Send uses the channel name the other end listens on")
		vstub.Assert(string(script.Published[0].Data) == string(payload), "C20 Send publishes the payload intact")
	}
}

// VerifC20ConnectRace: two Connect calls for the same peer overlap (every
// schedule with at most P preemptions at visible operations, a subscribe being
// one); afterwards every payload of the remote peer is still delivered exactly once.
func VerifC20ConnectRace() {
	p := vstub.Param("P", 1)
	self, other := peer.ID("self"), peer.ID("other")
	em := &recEmitter{}
	script := &vstub.ScriptedPubSub{LiveSubs: true, Always: []peer.ID{other}}
	ctx, cancel := context.WithCancel(context.Background())
	c := &channels{selfID: self, emitter: em, logger: zap.NewNop(), subs: map[peer.ID]*channel{},
		ipfs: &vstub.PubSubCoreAPI{PS: script}, ctx: ctx, cancel: cancel}
	vstub.ExploreSchedules(p)
	var wg sync.WaitGroup
	for k := 0; k < 2; k++ {
		wg.Add(1)
		go func() {
			defer wg.Done()
			if err := c.Connect(ctx, other); err != nil {
				vstub.Fail("C20 Connect failed")
			}
		}()
	}
	wg.Wait()
	vstub.ExploreSchedules(0)
	vstub.Cover("connected")
	body := vstub.NdBytes("body", 1)
	script.Push(&vstub.Msg{Sender: other, Body: body})
	vstub.WaitIdle()
	vstub.Assert(len(em.got) == 1, "C20 a payload of the remote peer is delivered exactly once after overlapping Connect calls")
	vstub.Assert(script.Subscribes == 1, "C20 one pairwise subscription per peer")
	cancel()
	vstub.WaitIdle()
}

// VerifC20Reconnect: the lifetime of a pairwise subscription.  Connect is called
// with a caller's context (a store's); that context ends (the store closes)
// while the shared channel object lives on; Connect is called again (another
// store, or the same peer joining again): payloads the remote peer sends
// afterwards are still delivered exactly once, attributed to it.  Also: Close
// closes every subscription and ends every monitor.
func VerifC20Reconnect() {
	self, other := peer.ID("self"), peer.ID("other")
	em := &recEmitter{}
	script := &vstub.ScriptedPubSub{LiveSubs: true, Always: []peer.ID{other}}
	root, cancelRoot := context.WithCancel(context.Background())
	c := &channels{selfID: self, emitter: em, logger: zap.NewNop(), subs: map[peer.ID]*channel{},
		ipfs: &vstub.PubSubCoreAPI{PS: script}, ctx: root, cancel: cancelRoot}
	ctx1, cancel1 := context.WithCancel(context.Background())
	if err := c.Connect(ctx1, other); err != nil {
		vstub.Fail("C20 Connect failed")
		return
	}
	first := vstub.NdBytes("first", 1)
	script.Push(&vstub.Msg{Sender: other, Body: first})
	vstub.WaitIdle()
	vstub.Assert(len(em.got) == 1, "C20 a payload of the remote peer is delivered exactly once")
	// the first caller's context ends; possibly the remote sends meanwhile (nobody promised delivery then)
	cancel1()
	vstub.WaitIdle()
	vstub.Cover("first-context-ended")
	em.got = nil
	ctx2, cancel2 := context.WithCancel(context.Background())
	if err := c.Connect(ctx2, other); err != nil {
		vstub.Fail("C20 second Connect failed")
		return
	}
	n := 1 + vstub.NdChoice("later", 2)
	var want [][]byte
	for k := 0; k < n; k++ {
		b := vstub.NdBytes("later-body", 1)
		want = append(want, b)
		script.Push(&vstub.Msg{Sender: other, Body: b})
	}
	vstub.WaitIdle()
	vstub.Cover("reconnected")
	vstub.Assert(len(em.got) == n, "C20 after reconnecting, every payload of the remote peer is delivered exactly once")
	if len(em.got) == n {
		for k := range want {
			vstub.Assert(string(em.got[k].Payload) == string(want[k]), "C20 payloads in order, byte for byte")
			vstub.Assert(em.got[k].Peer == other, "C20 payload attributed to the remote peer")
		}
	}
	_ = c.Close()
	cancel2()
	vstub.WaitIdle()
	vstub.Assert(vstub.LiveThreads("berty.tech/go-orbit-db/pubsub") == 0, "C20/C18 Close ends every monitor of the pairwise channel")
}

func init() {
	verifHarnesses["VerifC20AfterClose"] = VerifC20AfterClose
}

// VerifC20AfterClose: the LIFECYCLE of the pairwise channel object: Connect, one
// payload delivered, Close; then any two further calls out of Connect / Send /
// Close on the same object.  Every call returns (an error is fine), nothing is
// delivered after Close, and no monitor is left behind.
func VerifC20AfterClose() {
	self, other := peer.ID("self"), peer.ID("other")
	em := &recEmitter{}
	script := &vstub.ScriptedPubSub{LiveSubs: true, Always: []peer.ID{other}}
	root, cancelRoot := context.WithCancel(context.Background())
	c := &channels{selfID: self, emitter: em, logger: zap.NewNop(), subs: map[peer.ID]*channel{},
		ipfs: &vstub.PubSubCoreAPI{PS: script}, ctx: root, cancel: cancelRoot}
	ctx := context.Background()
	if err := c.Connect(ctx, other); err != nil {
		vstub.Fail("C20 Connect failed")
		return
	}
	script.Push(&vstub.Msg{Sender: other, Body: []byte("before")})
	vstub.WaitIdle()
	vstub.Assert(len(em.got) == 1, "C20 a payload of the remote peer is delivered exactly once")
	_ = c.Close()
	vstub.WaitIdle()
	delivered := len(em.got)
	for k := 0; k < 2; k++ {
		switch vstub.NdChoice("after-close", 3) {
		case 0:
			cctx, cancel := context.WithCancel(ctx)
			_ = c.Connect(cctx, other) // refused or accepted: it must return
			cancel()
		case 1:
			_ = c.Send(ctx, other, []byte("late"))
		case 2:
			_ = c.Close()
		}
		vstub.WaitIdle()
	}
	vstub.Cover("calls-after-close-returned")
	_ = c.Close()
	cancelRoot()
	vstub.WaitIdle()
	vstub.Assert(len(em.got) == delivered, "C20 nothing is delivered to the emitter after Close")
	vstub.Assert(vstub.LiveThreads("berty.tech/go-orbit-db/pubsub") == 0, "C20/C18 no monitor of the pairwise channel is left after Close and later calls")
}

func init() {
	verifHarnesses["VerifC18ConnectCancelled"] = VerifC18ConnectCancelled
}

// VerifC18ConnectCancelled: a store's head exchange calls Connect with the
// STORE's context and relies on Close cancelling it.  The remote peer never shows
// up on the pairwise topic (it only subscribed to the database topic, or it is
// gone); the caller's context ends: Connect returns, and nothing started on the
// caller's behalf keeps polling for the peer while the channel object lives on.
func VerifC18ConnectCancelled() {
	self, other := peer.ID("self"), peer.ID("other")
	em := &recEmitter{}
	script := &vstub.ScriptedPubSub{LiveSubs: true, StickyLast: true, Snapshots: [][]peer.ID{{}}}
	root, cancelRoot := context.WithCancel(context.Background())
	c := &channels{selfID: self, emitter: em, logger: zap.NewNop(), subs: map[peer.ID]*channel{},
		ipfs: &vstub.PubSubCoreAPI{PS: script}, ctx: root, cancel: cancelRoot}
	storeCtx, closeStore := context.WithCancel(context.Background())
	returned := make(chan struct{})
	go func() {
		defer close(returned)
		_ = c.Connect(storeCtx, other) // waits for a peer that never comes
	}()
	vstub.WaitIdle()
	polls := script.Polls
	vstub.Cover("waiting-for-the-peer")
	closeStore()
	ended := false
	select {
	case <-returned:
		ended = true
	case <-time.After(3 * time.Second): // virtual time: a few polling intervals
	}
	vstub.Cover("caller-context-ended")
	vstub.Assert(ended, "C18 Connect returns when the caller's (the store's) context ends although the peer never showed up")
	if ended {
		vstub.WaitIdle()
		polls = script.Polls
		<-time.After(3 * time.Second)
		vstub.Assert(script.Polls <= polls+1, "C18 after the caller's context ended nothing keeps polling for the peer")
	}
	_ = c.Close()
	cancelRoot()
	vstub.WaitIdle()
	vstub.Assert(vstub.LiveThreads("berty.tech/go-orbit-db/pubsub") == 0, "C18/C20 nothing of the pairwise channel is left after Close")
}

package pubsubcoreapi

import (
	"context"
	"time"

	"berty.tech/go-orbit-db/iface"
	"berty.tech/go-orbit-db/internal/vstub"
	"github.com/libp2p/go-libp2p/core/peer"
	"go.uber.org/zap"
)

func init() {
	verifHarnesses["VerifC20WatchPeers"] = VerifC20WatchPeers
}

// VerifC20WatchPeers: the real WatchPeers polling loop (one poll per interval,
// on virtual time) over every sequence of S duplicate-free membership snapshots
// of P peers: for every peer the reported events are exactly its transitions
// (join when it appears, leave when it disappears), each once, in order, naming
// the topic; Peers() reports the latest snapshot; the channel closes when the
// underlying API fails (end of script) or the context ends; the same topic name
// yields the same topic object and Publish reaches the underlying API unchanged.
func VerifC20WatchPeers() {
	nPeers := vstub.Param("P", 2)
	nSnaps := vstub.Param("S", 3)
	ids := make([]peer.ID, nPeers)
	for i := range ids {
		ids[i] = peer.ID("p" + string(rune('a'+i)))
	}
	script := &vstub.ScriptedPubSub{}
	for s := 0; s < nSnaps; s++ {
		var snap []peer.ID
		for i := range ids {
			if vstub.NdChoice("in", 2) == 1 {
				snap = append(snap, ids[i])
			}
		}
		script.Snapshots = append(script.Snapshots, snap)
	}
	ps := NewPubSub(&vstub.PubSubCoreAPI{PS: script}, peer.ID("self"), time.Second, zap.NewNop(), nil)
	ctx, cancel := context.WithCancel(context.Background())
	defer cancel()
	t1, err := ps.TopicSubscribe(ctx, "topic-x")
	t2, err2 := ps.TopicSubscribe(ctx, "topic-x")
	if err != nil || err2 != nil {
		vstub.Fail("C20 TopicSubscribe failed")
		return
	}
	vstub.Assert(t1 == t2, "C20 subscribing twice to a topic yields the same topic")
	vstub.Assert(t1.Topic() == "topic-x", "C20 a topic knows its name")
	ch, err := t1.WatchPeers(ctx)
	if err != nil {
		vstub.Fail("C20 WatchPeers failed")
		return
	}
	// the script ends with an API error, which ends the watch and closes the channel
	type ev struct {
		join bool
		p    peer.ID
	}
	var got []ev
	for e := range ch {
		switch x := e.(type) {
		case *iface.EventPubSubJoin:
			vstub.Assert(x.Topic == "topic-x", "C20 a join names its topic")
			got = append(got, ev{true, x.Peer})
		case *iface.EventPubSubLeave:
			vstub.Assert(x.Topic == "topic-x", "C20 a leave names its topic")
			got = append(got, ev{false, x.Peer})
		default:
			vstub.Fail("C20 unexpected event type from WatchPeers")
		}
	}
	vstub.Cover("watched")
	for _, id := range ids {
		// expected transitions of this peer over the snapshot sequence
		var want []bool
		in := false
		for _, snap := range script.Snapshots {
			now := false
			for _, m := range snap {
				now = now || m == id
			}
			if now != in {
				want = append(want, now)
				in = now
			}
		}
		var seen []bool
		for _, e := range got {
			if e.p == id {
				seen = append(seen, e.join)
			}
		}
		vstub.Assert(len(seen) == len(want), "C20 each join / leave of a peer is reported exactly once per change")
		if len(seen) == len(want) {
			for k := range want {
				vstub.Assert(seen[k] == want[k], "C20 joins and leaves of a peer are reported in the order they happened")
			}
		}
	}
	last, _ := t1.Peers(ctx)
	vstub.Assert(len(last) == len(script.Snapshots[nSnaps-1]), "C20 Peers reports the latest membership")
	body := vstub.NdBytes("body", 2)
	if err := t1.Publish(ctx, body); err != nil {
		vstub.Fail("C20 Publish failed")
		return
	}
	vstub.Assert(len(script.Published) == 1 && script.Published[0].Topic == "topic-x" && string(script.Published[0].Data) == string(body),
		"C20 a publication reaches the underlying pubsub once, on its topic, unchanged")
	vstub.Assert(vstub.LiveThreads("berty.tech/go-orbit-db/pubsub") == 0, "C20 no watcher goroutine is left behind")
}

func init() {
	verifHarnesses["VerifC20TwoWatchers"] = VerifC20TwoWatchers
}

// VerifC20TwoWatchers: two watchers on the SAME topic of one pubsub instance
// (two stores, or a store reopened on the instance); one of them is cancelled
// (before the first poll's events are read, or after the first event) while the
// other keeps running.  Over the two watchers together every change of the
// membership is still reported exactly once: for every peer the total number of
// joins / leaves equals the number of its transitions in the snapshot sequence.
func VerifC20TwoWatchers() {
	nPeers := vstub.Param("P", 2)
	nSnaps := vstub.Param("S", 3)
	ids := make([]peer.ID, nPeers)
	for i := range ids {
		ids[i] = peer.ID("p" + string(rune('a'+i)))
	}
	script := &vstub.ScriptedPubSub{}
	for s := 0; s < nSnaps; s++ {
		var snap []peer.ID
		for i := range ids {
			if vstub.NdChoice("in", 2) == 1 {
				snap = append(snap, ids[i])
			}
		}
		script.Snapshots = append(script.Snapshots, snap)
	}
	ps := NewPubSub(&vstub.PubSubCoreAPI{PS: script}, peer.ID("self"), time.Second, zap.NewNop(), nil)
	ctx, cancel := context.WithCancel(context.Background())
	defer cancel()
	t1, _ := ps.TopicSubscribe(ctx, "topic-x")
	t2, _ := ps.TopicSubscribe(ctx, "topic-x")
	ch1, err1 := t1.WatchPeers(ctx)
	ctx2, cancel2 := context.WithCancel(ctx)
	ch2, err2 := t2.WatchPeers(ctx2)
	if err1 != nil || err2 != nil {
		vstub.Fail("C20 WatchPeers failed")
		return
	}
	cancelWhen := vstub.NdChoice("cancel-second-watcher", 3) // 0 at once, 1 after the first event, 2 never
	if cancelWhen == 0 {
		cancel2()
	}
	joins, leaves := map[peer.ID]int{}, map[peer.ID]int{}
	count := func(e interface{}) {
		switch x := e.(type) {
		case *iface.EventPubSubJoin:
			joins[x.Peer]++
		case *iface.EventPubSubLeave:
			leaves[x.Peer]++
		}
	}
	seen := 0
	for ch1 != nil || ch2 != nil {
		select {
		case e, ok := <-ch1:
			if !ok {
				ch1 = nil
				continue
			}
			count(e)
			seen++
		case e, ok := <-ch2:
			if !ok {
				ch2 = nil
				continue
			}
			count(e)
			seen++
		}
		if cancelWhen == 1 && seen == 1 {
			cancel2()
		}
	}
	vstub.Cover("watched")
	for _, id := range ids {
		wantJ, wantL := 0, 0
		in := false
		for _, snap := range script.Snapshots {
			now := false
			for _, m := range snap {
				now = now || m == id
			}
			if now && !in {
				wantJ++
			}
			if !now && in {
				wantL++
			}
			in = now
		}
		vstub.Assert(joins[id] == wantJ, "C20 with several watchers on a topic each join is still reported exactly once per change")
		vstub.Assert(leaves[id] == wantL, "C20 with several watchers on a topic each leave is still reported exactly once per change")
	}
}

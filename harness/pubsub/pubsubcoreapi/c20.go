package pubsubcoreapi

import (
	"context"

	"berty.tech/go-orbit-db/iface"
	"berty.tech/go-orbit-db/internal/vstub"
	"github.com/libp2p/go-libp2p/core/peer"
	"go.uber.org/zap"
)

var verifHarnesses = map[string]func(){
	"VerifC20PeersDiff":  VerifC20PeersDiff,
	"VerifC20SelfFilter": VerifC20SelfFilter,
}

func member(set []peer.ID, p peer.ID) bool {
	for _, x := range set {
		if x == p {
			return true
		}
	}
	return false
}

func count(set []peer.ID, p peer.ID) int {
	n := 0
	for _, x := range set {
		if x == p {
			n++
		}
	}
	return n
}

// VerifC20PeersDiff: for every sequence of S duplicate-free membership
// snapshots over P peers (ids symbolic, pairwise distinct), each poll reports
// joins = new\old and leaves = old\new, each exactly once, and Peers() is the
// last snapshot.
func VerifC20PeersDiff() {
	nPeers := vstub.Param("P", 3)
	nSnaps := vstub.Param("S", 3)
	ids := make([]peer.ID, nPeers)
	for i := range ids {
		ids[i] = peer.ID(vstub.NdString("peer", 1))
		for j := 0; j < i; j++ {
			vstub.Assume(ids[i] != ids[j])
		}
	}
	script := &vstub.ScriptedPubSub{}
	for s := 0; s < nSnaps; s++ {
		var snap []peer.ID
		for i := range ids {
			if vstub.NdChoice("in", 2) == 1 {
				snap = append(snap, ids[i])
			}
		}
		script.Snapshots = append(script.Snapshots, snap)
	}
	ps := NewPubSub(&vstub.PubSubCoreAPI{PS: script}, peer.ID("self"), 0, zap.NewNop(), nil)
	ti, err := ps.TopicSubscribe(context.Background(), "t")
	if err != nil {
		vstub.Fail("C20 TopicSubscribe failed")
		return
	}
	topic := ti.(*psTopic)
	var old []peer.ID
	for s := 0; s < nSnaps; s++ {
		joining, leaving, err := topic.peersDiff(context.Background())
		vstub.Assert(err == nil, "C20 peersDiff returns no error")
		cur := script.Snapshots[s]
		for _, p := range ids {
			wantJoin, wantLeave := 0, 0
			if member(cur, p) && !member(old, p) {
				wantJoin = 1
			}
			if !member(cur, p) && member(old, p) {
				wantLeave = 1
			}
			vstub.Assert(count(joining, p) == wantJoin, "C20 each join reported exactly once per change")
			vstub.Assert(count(leaving, p) == wantLeave, "C20 each leave reported exactly once per change")
		}
		vstub.Assert(len(joining)+len(leaving) <= len(ids), "C20 only known peers are reported")
		got, _ := topic.Peers(context.Background())
		vstub.Assert(len(got) == len(cur), "C20 Peers() is the last snapshot (size)")
		for _, p := range cur {
			vstub.Assert(member(got, p), "C20 Peers() is the last snapshot (members)")
		}
		old = cur
	}
	vstub.Cover("diffed")
}

// VerifC20SelfFilter: messages whose sender is the local peer are never
// delivered; every other message is delivered exactly once, in order, byte for byte.
func VerifC20SelfFilter() {
	n := vstub.Param("M", 3)
	self := peer.ID("self")
	script := &vstub.ScriptedPubSub{}
	var want [][]byte
	for k := 0; k < n; k++ {
		from := peer.ID("other")
		if vstub.NdChoice("fromSelf", 2) == 1 {
			from = self
		}
		body := vstub.NdBytes("body", 1)
		script.Messages = append(script.Messages, &vstub.Msg{Sender: from, Body: body})
		if from != self {
			want = append(want, body)
		}
	}
	ps := NewPubSub(&vstub.PubSubCoreAPI{PS: script}, self, 0, zap.NewNop(), nil)
	ti, _ := ps.TopicSubscribe(context.Background(), "t")
	ch, err := ti.WatchMessages(context.Background())
	if err != nil {
		vstub.Fail("C20 WatchMessages failed")
		return
	}
	var got []*iface.EventPubSubMessage
	for m := range ch {
		got = append(got, m)
	}
	vstub.Cover("drained")
	vstub.Assert(len(got) == len(want), "C20 every remote message delivered exactly once, own messages never")
	if len(got) == len(want) {
		for k := range got {
			vstub.Assert(string(got[k].Content) == string(want[k]), "C20 messages delivered in order, byte for byte")
		}
	}
}

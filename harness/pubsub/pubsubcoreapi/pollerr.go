package pubsubcoreapi

import (
	"context"
	"time"

	"berty.tech/go-orbit-db/iface"
	"berty.tech/go-orbit-db/internal/vstub"
	"github.com/libp2p/go-libp2p/core/peer"
	"go.uber.org/zap"
)

func init() {
	verifHarnesses["VerifC20PollError"] = VerifC20PollError
}

// VerifC20PollError: one poll of the underlying Peers() API fails (a transient
// error, at any position of the script), later polls succeed again and the
// membership finally stays put.  Whether the watcher gives up at the error or
// goes on polling, what it reports for every peer must be a PREFIX of that
// peer's real transitions over the snapshot sequence: never a second join for a
// peer that was reported present and never left, never a leave for a peer that
// was not reported present.
func VerifC20PollError() {
	nPeers := vstub.Param("P", 2)
	nSnaps := vstub.Param("S", 3)
	ids := make([]peer.ID, nPeers)
	for i := range ids {
		ids[i] = peer.ID("p" + string(rune('a'+i)))
	}
	script := &vstub.ScriptedPubSub{StickyLast: true}
	for s := 0; s < nSnaps; s++ {
		var snap []peer.ID
		for i := range ids {
			if vstub.NdChoice("in", 2) == 1 {
				snap = append(snap, ids[i])
			}
		}
		script.Snapshots = append(script.Snapshots, snap)
	}
	script.ErrAt = 1 + vstub.NdChoice("error-at-poll", nSnaps+1)
	ctx, cancel := context.WithCancel(context.Background())
	defer cancel()
	// the watch is ended from outside a few polls after the script's last snapshot
	script.OnPoll = func(n int) {
		if n >= nSnaps+4 {
			cancel()
		}
	}
	ps := NewPubSub(&vstub.PubSubCoreAPI{PS: script}, peer.ID("self"), time.Second, zap.NewNop(), nil)
	t1, err := ps.TopicSubscribe(ctx, "topic-x")
	if err != nil {
		vstub.Fail("C20 TopicSubscribe failed")
		return
	}
	ch, err := t1.WatchPeers(ctx)
	if err != nil {
		vstub.Fail("C20 WatchPeers failed")
		return
	}
	type ev struct {
		join bool
		p    peer.ID
	}
	var got []ev
	for e := range ch {
		switch x := e.(type) {
		case *iface.EventPubSubJoin:
			got = append(got, ev{true, x.Peer})
		case *iface.EventPubSubLeave:
			got = append(got, ev{false, x.Peer})
		}
	}
	vstub.Cover("watch-ended")
	for _, id := range ids {
		var want []bool
		in := false
		for _, snap := range script.Snapshots {
			now := false
			for _, m := range snap {
				now = now || m == id
			}
			if now != in {
				want = append(want, now)
				in = now
			}
		}
		var seen []bool
		for _, e := range got {
			if e.p == id {
				seen = append(seen, e.join)
			}
		}
		vstub.Assert(len(seen) <= len(want), "C20 a failed poll never makes a join / leave be reported more than once per change")
		for k := range seen {
			if k < len(want) {
				vstub.Assert(seen[k] == want[k], "C20 after a failed poll the reported joins / leaves are still the peer's real transitions, in order")
			}
		}
	}
	vstub.Assert(vstub.LiveThreads("berty.tech/go-orbit-db/pubsub") == 0, "C20 no watcher goroutine is left behind")
}

package orbitdb

import (
	"encoding/json"

	"berty.tech/go-ipfs-log/entry"
	idp "berty.tech/go-ipfs-log/identityprovider"
	"berty.tech/go-orbit-db/iface"
	"berty.tech/go-orbit-db/internal/vstub"
)

var verifHarnesses = map[string]func(){"VerifC03CanAppend": VerifC03CanAppend}

type stubKV struct {
	iface.KeyValueStore
	m map[string][]byte
}

func (s *stubKV) All() map[string][]byte { return s.m }

func c03Ids(name string) []string {
	var list []string
	n := vstub.NdChoice(name+"Len", 3)
	for k := 0; k < n; k++ {
		id := vstub.NdString(name, 1)
		vstub.Assume(id != "*")
		list = append(list, id)
	}
	if vstub.NdChoice(name+"Wildcard", 2) == 1 {
		list = append(list, "*")
	}
	return list
}

func member(list []string, id string) bool {
	for _, x := range list {
		if x == id || x == "*" {
			return true
		}
	}
	return false
}

// VerifC03CanAppend: the orbitdb controller admits an entry iff its identity id
// is in the write or admin capability (or one of them holds the wildcard).
func VerifC03CanAppend() {
	write := c03Ids("write")
	admin := c03Ids("admin")
	kv := &stubKV{m: map[string][]byte{}}
	if len(write) > 0 {
		kv.m["write"], _ = json.Marshal(write)
	}
	if len(admin) > 0 {
		kv.m["admin"], _ = json.Marshal(admin)
	}
	id := vstub.NdString("author", 1)
	vstub.Assume(id != "*")
	ac := &orbitDBAccessController{kvStore: kv}
	e := &entry.Entry{Identity: &idp.Identity{ID: id, PublicKey: []byte("pk")}}
	err := ac.CanAppend(e, vstub.NewProvider(), nil)
	want := member(write, id) || member(admin, id)
	vstub.Cover("decided")
	vstub.Assert((err == nil) == want, "C03 orbitdb controller admits exactly the ids holding the write or admin capability")
}

package orbitdb

import (
	"encoding/json"

	"berty.tech/go-orbit-db/iface"
	"berty.tech/go-orbit-db/internal/vstub"
)

var verifHarnesses = map[string]func(){"VerifC03CanAppend": VerifC03CanAppend}

type stubKV struct {
	iface.KeyValueStore
	m map[string][]byte
}

func (s *stubKV) All() map[string][]byte { return s.m }

func c03Ids(name string) []string {
	var list []string
	n := vstub.NdChoice(name+"Len", 3)
	for k := 0; k < n; k++ {
		var id string
		switch vstub.NdChoice(name+"Kind", 3) {
		case 0:
			id = vstub.NdString(name, 1)
			vstub.Assume(id != "*")
		case 1:
			id = vstub.IDOf("a")
		case 2:
			id = vstub.IDOf("b")
		}
		list = append(list, id)
	}
	if vstub.NdChoice(name+"Wildcard", 2) == 1 {
		list = append(list, "*")
	}
	return list
}

func member(list []string, id string) bool {
	for _, x := range list {
		if x == id || x == "*" {
			return true
		}
	}
	return false
}

// VerifC03CanAppend: the orbitdb controller admits an entry iff the id its
// identity block claims is in the write or admin capability (or one of them
// holds the wildcard) AND the claim is genuine.
func VerifC03CanAppend() {
	write := c03Ids("write")
	admin := c03Ids("admin")
	kv := &stubKV{m: map[string][]byte{}}
	if len(write) > 0 {
		kv.m["write"], _ = json.Marshal(write)
	}
	if len(admin) > 0 {
		kv.m["admin"], _ = json.Marshal(admin)
	}
	e, id, genuine := vstub.AuthorEntry(vstub.NdChoice("author", vstub.AuthorKinds))
	ac := &orbitDBAccessController{kvStore: kv}
	if vstub.NdChoice("after-genuine", 2) == 1 {
		// the controller has already decided a genuine entry of "a" (what it learnt
		// from it must not make a later forgery acceptable)
		g, _, _ := vstub.AuthorEntry(0)
		_ = ac.CanAppend(g, vstub.NewProvider(), nil)
		vstub.Cover("after-genuine")
	}
	err := ac.CanAppend(e, vstub.NewProvider(), nil)
	want := (member(write, id) || member(admin, id)) && genuine
	vstub.Cover("decided")
	vstub.Assert((err == nil) == want, "C03 orbitdb controller admits exactly the genuine authors whose id holds the write or admin capability")
}

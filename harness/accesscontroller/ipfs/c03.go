package ipfs

import (
	"berty.tech/go-ipfs-log/entry"
	idp "berty.tech/go-ipfs-log/identityprovider"
	"berty.tech/go-orbit-db/internal/vstub"
)

var verifHarnesses = map[string]func(){"VerifC03CanAppend": VerifC03CanAppend}

// c03List builds a symbolic write list: up to two ids (1 symbolic byte each, never "*")
// and optionally the wildcard.
func c03List() (list []string, wildcard bool) {
	n := vstub.NdChoice("listLen", 3)
	for k := 0; k < n; k++ {
		id := vstub.NdString("listed", 1)
		vstub.Assume(id != "*")
		list = append(list, id)
	}
	if vstub.NdChoice("wildcard", 2) == 1 {
		wildcard = true
		pos := vstub.NdChoice("wildcardPos", len(list)+1)
		list = append(append(append([]string{}, list[:pos]...), "*"), list[pos:]...)
	}
	return
}

func c03Member(list []string, id string) bool {
	for _, x := range list {
		if x == id {
			return true
		}
	}
	return false
}

// VerifC03CanAppend: the controller admits an entry iff its identity id is in
// the write list or the list contains the wildcard, for EVERY list and id.
func VerifC03CanAppend() {
	list, wildcard := c03List()
	id := vstub.NdString("author", 1)
	vstub.Assume(id != "*")
	ac := &ipfsAccessController{writeAccess: list}
	e := &entry.Entry{Identity: &idp.Identity{ID: id, PublicKey: []byte("pk")}}
	err := ac.CanAppend(e, vstub.NewProvider(), nil)
	want := wildcard || c03Member(list, id)
	vstub.Cover("decided")
	vstub.Assert((err == nil) == want, "C03 ipfs controller admits exactly the listed ids (or everybody under the wildcard)")
	got, _ := ac.GetAuthorizedByRole("write")
	vstub.Assert(len(got) == len(list), "C14 the controller reports the write list it was given")
}

package ipfs

import (
	"berty.tech/go-orbit-db/internal/vstub"
)

var verifHarnesses = map[string]func(){"VerifC03CanAppend": VerifC03CanAppend}

// c03List builds a symbolic write list: up to two ids (1 symbolic byte each, never "*")
// and optionally the wildcard.
func c03List() (list []string, wildcard bool) {
	n := vstub.NdChoice("listLen", 3)
	for k := 0; k < n; k++ {
		// a listed id is any 1-byte string (nobody's identity) or the id of identity "a" / "b"
		var id string
		switch vstub.NdChoice("listedKind", 6) {
		case 3:
			// an EMPTY entry (a list built by splitting "id,"): it names nobody
			id = ""
		case 4:
			// a truncated id: it names nobody either
			full := vstub.IDOf("a")
			id = full[:len(full)/2]
		case 5:
			// an id with something appended
			id = vstub.IDOf("a") + "0"
		case 0:
			id = vstub.NdString("listed", 1)
			vstub.Assume(id != "*")
			// (not a prefix of a real id either: truncated ids are the concrete case 4, which
			// replays natively, where ids have another spelling)
			vstub.Assume(id != vstub.IDOf("a")[:1] && id != vstub.IDOf("b")[:1])
		case 1:
			id = vstub.IDOf("a")
		case 2:
			id = vstub.IDOf("b")
		}
		list = append(list, id)
	}
	if vstub.NdChoice("wildcard", 2) == 1 {
		wildcard = true
		pos := vstub.NdChoice("wildcardPos", len(list)+1)
		list = append(append(append([]string{}, list[:pos]...), "*"), list[pos:]...)
	}
	return
}

func c03Member(list []string, id string) bool {
	for _, x := range list {
		if x == id {
			return true
		}
	}
	return false
}

// VerifC03CanAppend: the controller admits an entry iff the id its identity
// block claims is in the write list (or the list holds the wildcard) AND the
// claim is genuine (the block's signature chain holds and the entry is signed
// with the block's key), for EVERY list and every genuine / forged author.
func VerifC03CanAppend() {
	list, wildcard := c03List()
	e, id, genuine := vstub.AuthorEntry(vstub.NdChoice("author", vstub.AuthorKinds))
	ac := &ipfsAccessController{writeAccess: list}
	if vstub.NdChoice("after-genuine", 2) == 1 {
		// the controller has already decided a genuine entry of "a" (what it learnt
		// from it must not make a later forgery acceptable)
		g, _, _ := vstub.AuthorEntry(0)
		_ = ac.CanAppend(g, vstub.NewProvider(), nil)
		vstub.Cover("after-genuine")
	}
	err := ac.CanAppend(e, vstub.NewProvider(), nil)
	want := (wildcard || c03Member(list, id)) && genuine
	vstub.Cover("decided")
	vstub.Assert((err == nil) == want, "C03 ipfs controller admits exactly the genuine authors whose id is listed (or everybody genuine under the wildcard)")
	got, _ := ac.GetAuthorizedByRole("write")
	vstub.Assert(len(got) == len(list), "C14 the controller reports the write list it was given")
}

# Per-property check configuration: which harness functions (in which real
# package of /repo) decide the property, with the bounds per tier.
BS = "berty.tech/go-orbit-db/stores/basestore"

KV = "berty.tech/go-orbit-db/stores/kvstore"
DOC = "berty.tech/go-orbit-db/stores/documentstore"
EL = "berty.tech/go-orbit-db/stores/eventlogstore"

DC = "berty.tech/go-orbit-db/pubsub/directchannel"
EV = "berty.tech/go-orbit-db/events"

PSC = "berty.tech/go-orbit-db/pubsub/pubsubcoreapi"
OOO = "berty.tech/go-orbit-db/pubsub/oneonone"
RAW = "berty.tech/go-orbit-db/pubsub/pubsubraw"

ACI = "berty.tech/go-orbit-db/accesscontroller/ipfs"
ACS = "berty.tech/go-orbit-db/accesscontroller/simple"
ACO = "berty.tech/go-orbit-db/accesscontroller/orbitdb"

ODB = "berty.tech/go-orbit-db/baseorbitdb"
ADDR = "berty.tech/go-orbit-db/address"
ROOT = "berty.tech/go-orbit-db"

CHECKS = {
    "C13": {
        "groups": [{
            "pkg": BS, "funcs": ["VerifC13Snapshot"],
            "params": {"quick": {"T": 3, "SIZES": 0}, "thorough": {"T": 4, "SIZES": 0}},
            "covers": {"VerifC13Snapshot": ["empty", "chain", "replicated", "merged", "saved", "loaded", "partly-held"]},
        }, {
            "pkg": BS, "funcs": ["VerifC13Snapshot"],
            "cross_solvers": ["cvc5", "z3-new"], "params": {"quick": {"T": 2, "SIZES": 1048576}, "thorough": {"T": 3, "SIZES": 1048576}},
            "covers": {"VerifC13Snapshot": ["saved", "loaded", "save-refused"]},
        }, {
            "pkg": BS, "funcs": ["VerifC13Concurrent"],
            "params": {"quick": {"T": 2}, "thorough": {"T": 4}},
            "covers": {"VerifC13Concurrent": ["saved", "loaded", "grew-during-save"]},
        }, {
            "pkg": BS, "funcs": ["VerifC13PendingQueue"],
            "covers": {"VerifC13PendingQueue": ["replication-in-progress", "saved", "loaded"]},
        }, {
            "pkg": BS, "funcs": ["VerifC13ForeignRef"],
            "covers": {"VerifC13ForeignRef": ["via-refs", "via-next", "saved", "loaded"]},
        }, {
            "pkg": BS, "funcs": ["VerifC13SaveFault"],
            "covers": {"VerifC13SaveFault": ["no-fault", "snapshot-key-write-fails", "queue-key-write-fails", "save-refused", "saved"]},
        }],
        "assumptions": [
            "links into another database (VerifC13ForeignRef): the saved log holds a replicated entry whose refs / next name entries validly written for another database (own chain 1..2, foreign chain 1..2, optional own write afterwards); a fresh instance loading the snapshot reconstructs exactly the saved log and heads",
            "error paths (VerifC13SaveFault): a first snapshot is saved, the log grows, a second save runs while the cache write of the snapshot path or of the queue fails: the save reports the error, or - if it reports success - a fresh instance reloads the database held at that save",
            "the loading instance is fresh, or already holds the complete branch under ONE of the saved heads (received from a peer before the snapshot is loaded)",
            "log shapes: empty, single-writer chain of T entries, two writers with concurrent chains of any lengths nb + na = T, replicated (so the replicator's task table is non-empty and the heads have equal or different clock times), optionally merged by a later local write; the real SaveSnapshot, GetQueue, LoadFromSnapshot, NewFromJSON, Join run over an in-memory Unixfs and cache",
            "size clause: every encoded header / entry / queue document has a SYMBOLIC byte length in [2, 2^20]; the snapshot file is a rope of segments with symbolic lengths, length prefixes are computed by the real uint16 conversions and PutUint16/Uint16 on symbolic values; a read at a symbolic offset asks the solver whether offset and length are forced to coincide with a written segment, otherwise the bytes read are unconstrained",
            "a counterexample of the size clause is replayed natively with payloads that are really that large",
            "replication in progress with a non-empty stored queue (VerifC13PendingQueue): the replicator is stuck on a block of a remote chain when the snapshot is saved; a fresh instance loads it while the pending block (optionally every block of that chain) is unavailable; loading must return without error and hold the saved log in order, plus at most entries of the replication that was in progress",
            "replication / writes in progress (VerifC13Concurrent): a local write, or the Sync whose join ends a replication, is started at ANY visible operation of SaveSnapshot and runs until it blocks; the snapshot must load, and reload to a log between the one held when the save started and the one held when it ended",
        ],
        "outside": ["unixfs chunking", "documents longer than 1 MiB", "JSON byte content", "the size clause on logs of more than 3 entries (with 4 entries the solver answers unknown on the file-offset arithmetic; the symbolic-size group therefore keeps the single-branch shapes of at most T entries, the uneven / merged shapes run with concrete sizes)"],
    },
    "C18": {
        "groups": [{
            "pkg": BS, "funcs": ["VerifC18Close"],
            "max_paths": {"quick": 100000, "thorough": 100000},
            "timeout": {"quick": "15m", "thorough": "30m"},
            "covers": {"VerifC18Close": ["idle", "mid-write", "mid-replication", "mid-load", "pending-fetch", "closed", "later-returned"]},
        }, {
            "pkg": ODB, "funcs": ["VerifC18Drop"],
            "params": {"quick": {"L": 1}, "thorough": {"L": 2}},
            "covers": {"VerifC18Drop": ["created", "dropped", "instance-closed", "sibling-under-same-root"]},
        }, {
            "pkg": BS, "funcs": ["VerifC18CloseBlockedLoad"],
            "covers": {"VerifC18CloseBlockedLoad": ["load-stuck", "closed"]},
        }, {
            "pkg": ODB, "funcs": ["VerifSysClose"],
            "params": {"quick": {"N": 1, "FULL": 0}, "thorough": {"N": 2, "FULL": 1}},
            "max_paths": {"quick": 100000, "thorough": 400000},
            "timeout": {"quick": "15m", "thorough": "90m"},
            "covers": {"VerifSysClose": ["idle", "mid-replication", "mid-write", "parent-cancelled-first", "closed", "later-returned", "reopened"]},
        }, {
            "pkg": BS, "funcs": ["VerifC18DropDuring"],
            "max_paths": {"quick": 60000, "thorough": 400000},
            "covers": {"VerifC18DropDuring": ["drop-mid-write", "drop-mid-replication", "dropped", "later-returned"]},
        }, {
            "pkg": ODB, "funcs": ["VerifC18CloseDuringOpen"],
            "covers": {"VerifC18CloseDuringOpen": ["closed-during-open", "create-returned-a-store"]},
        }, {
            "pkg": ODB, "funcs": ["VerifC18StaleHandle"],
            "covers": {"VerifC18StaleHandle": ["stale-handle-closed-again", "instance-closed", "dropped", "new-instance", "local-only-open-after-drop", "create-after-drop"]},
        }, {
            "pkg": OOO, "funcs": ["VerifC18ConnectCancelled"],
            "covers": {"VerifC18ConnectCancelled": ["waiting-for-the-peer", "caller-context-ended"]},
        }],
        "assumptions": [
            "stale handles and dropped databases (VerifC18StaleHandle, event log / key-value / document store): a handle is closed, the database reopened on the same instance, the stale handle closed again once or twice: no error, its CloseFunc is not run again, the live handle stays registered, writable, and is closed by the Close of the instance with nothing left running; after Drop a local-only open is refused and a new Create is accepted with the same address, on the same instance or a new one over the same directory",
            "pending head exchange (VerifC18ConnectCancelled, package oneonone): the real pairwise Connect waits for a peer that never shows up on the pairwise topic; the caller's (the store's) context ends: Connect returns and nothing keeps polling (virtual time)",
            "instance closed during an open (VerifC18CloseDuringOpen): Close is called while a Create's store constructor is still running (a constructor that waits); once both have returned no store or instance goroutine is left, closing again returns",
            "Drop at any moment (VerifC18DropDuring): Drop is started at ANY visible step of a local write or of a replication; Drop and the interrupted operation return, Close after Drop and a later write / load / second Drop return, no store goroutine is left",
            "a real BaseStore with replication enabled over stubs; Close is issued by a concurrent thread at ANY visible operation (lock, channel operation, goroutine start, block/cache effect) of a local write, of a replication (real Sync/replicator/fetcher/Join) or of a Load, or when idle; then Close is repeated 1..2 times; then one later operation (write, load, sync, close)",
            "leak check: at quiescence (decided from the scheduler state) no interpreter thread whose function belongs to go-orbit-db/stores is alive; a thread blocked for ever counts as alive; a main thread blocked for ever is reported as a deadlock",
            "stub contracts: the pubsub topic's watch channels are closed when their context ends; the event bus delivers under its read lock and Subscription.Close drains concurrently (as libp2p's eventbus)",
            "Drop: a real orbitDB instance with two event logs over the real cache manager (cacheleveldown) on a disk model (one store per directory path, os.RemoveAll removes by prefix); names symbolic; the sibling is either created under its own name or opened by an address with the SAME manifest root and another (non-nested) path",
            "blocked load: a store is closed (once or twice) while a Load of it is stuck on a block no reachable peer provides and the caller's context is still live; Close must return without waiting for the load",
            "instance level (VerifSysClose): two real orbitDB instances with two databases over the simulated network; the whole instance of b (orbitDB.Close: stores, direct channel, caches, emitters) or one of its stores is closed at ANY visible operation of a cross-instance replication (head exchange on join over the direct channel, fetches, joins) or of a local write, or when idle; optionally the context the instance was created with is cancelled BEFORE Close; Close repeated; a later operation (write / load / sync / store close / open + close) returns; with the other instance closed too no thread of go-orbit-db/stores or go-orbit-db/baseorbitdb is left; a new instance on the same directory reopens both databases with every acknowledged entry (after a mid-activity close the post-close choices are explored in full only in the thorough tier)",
        ],
        "outside": ["goroutines, file handles and timers inside leveldb, libp2p, kubo, the real eventbus", "OS-level directory removal", "Close racing with two or more other operations at once"],
    },
    "C14": {
        "groups": [{
            "pkg": ODB, "funcs": ["VerifC14Determinism", "VerifC14Reopen", "VerifC14Escape"],
            "params": {"quick": {"L": 2, "PFX": 3}, "thorough": {"L": 4, "PFX": 3}},
            "max_paths": {"quick": 60000, "thorough": 600000},
            "timeout": {"quick": "10m", "thorough": "60m"},
            "covers": {"VerifC14Determinism": ["determined"], "VerifC14Reopen": ["created", "reopened", "open-failed", "second-create-with-directory-option", "trailing-slash-spelling"], "VerifC14Escape": ["accepted", "refused"]},
        }, {
            "pkg": ODB, "funcs": ["VerifC14Injective"],
            "params": {"quick": {"L": 1}, "thorough": {"L": 2}},
            "max_paths": {"quick": 60000, "thorough": 600000},
            "timeout": {"quick": "10m", "thorough": "60m"},
            "covers": {"VerifC14Injective": ["same-inputs", "different-inputs", "compound-writer-key"]},
        }, {
            "pkg": ODB, "funcs": ["VerifC14Reuse"],
            "covers": {"VerifC14Reuse": ["created-with-reused-values", "opened-with-the-same-options", "opened-another-type-with-reused-options"]},
        }, {
            "pkg": ODB, "funcs": ["VerifC18StaleHandle"],
            "covers": {"VerifC18StaleHandle": ["dropped", "new-instance", "local-only-open-after-drop", "create-after-drop"]},
        }, {
            "pkg": ROOT, "funcs": ["VerifC14Helpers"],
            "covers": {"VerifC14Helpers": ["created", "reopened"]},
        }, {
            "cross_solvers": ["cvc5", "z3-new"], "pkg": ADDR, "funcs": ["VerifC14AddressRoundTrip"],
            "params": {"quick": {"L": 5}, "thorough": {"L": 7}},
            "max_paths": {"quick": 60000, "thorough": 600000},
            "covers": {"VerifC14AddressRoundTrip": ["parsed", "refused"]},
        }],
        "assumptions": [
            "compound writer key (VerifC14Injective): one key of the second write list may consist of two key-shaped segments around a symbolic separator byte, so that a list is compared with lists whose keys joined by any separator spell the same text",
            "stale handles and dropped databases (VerifC18StaleHandle, event log / key-value / document store): a handle is closed, the database reopened on the same instance, the stale handle closed again once or twice: no error, its CloseFunc is not run again, the live handle stays registered, writable, and is closed by the Close of the instance with nothing left running; after Drop a local-only open is refused and a new Create is accepted with the same address, on the same instance or a new one over the same directory",
            "spellings: the printed address with a trailing slash, opened with Create:true as the typed helpers do, opens the SAME database or is refused, and parses to the same root and path",
            "the reused options value is also used to OPEN a database of another type and write list (created with fresh values): the opened store has the recorded type and write list",
            "real orbitDB instances (newOrbitDB, DetermineAddress, Create, Open, createStore, haveLocalData, addManifestToCache), the real manifest code, acutils, the real ipfs access controller Save/Load, address.Parse/IsValid, the real path.Join/Clean and the real cache manager (cacheleveldown) over a disk model",
            "name = symbolic string of length 0..L over ALL byte values; type in {eventlog, keyvalue, docstore}; explicit write list of 1..3 ids (symbolic) or none; two peers with different identities, peer ids and directories; plus names of the shape <3 symbolic bytes> + <root of another database> + '/v'",
            "CIDs are perfect hashes of an idealised CBOR encoding whose field lists are recorded from the atlases registered by the real source; cid.Decode accepts exactly the stand-in tokens",
            "reused values (VerifC14Reuse): ONE access-controller parameter value and (optionally) ONE options value are used for Create of a first database (optionally closed and opened again with it), given another write list, then used for DetermineAddress and Create of a second database: address = the one a fresh peer computes from the inputs alone = the one DetermineAddress predicts; write list = the one given at that creation",
            "public package (VerifC14Helpers, package orbitdb): orbitdb.NewOrbitDB (default store types and controllers registered) and the typed helpers Log / KeyValue / Docs: type of the created store, refusal to open the address through a helper of another type, reopen through the right helper on a new instance with the data",
            "address round trip (VerifC14AddressRoundTrip, package address): name = symbolic string of 0..L bytes over ALL byte values; the address is built as DetermineAddress builds it (Parse of path.Join(\"/orbitdb\", root, name), kept only when rooted at the manifest); its printed form must be valid, parse back to the same root and path, and print again identically",
        ],
        "outside": ["real CID / multibase syntax", "orbitdb-type access controllers in the reopen check", "unicode normalisation (none is performed; bytes are opaque)", "names longer than L"],
    },
    "C02": {
        "groups": [{
            "pkg": BS, "funcs": ["VerifC02Heal"],
            "params": {"quick": {"STEPS": 4}, "thorough": {"STEPS": 6}},
            "max_paths": {"quick": 60000, "thorough": 600000},
            "timeout": {"quick": "10m", "thorough": "60m"},
            "covers": {"VerifC02Heal": ["announcement-delivered", "announcement-lost", "restart", "healed"]},
        }, {
            "pkg": ODB, "funcs": ["VerifSysHeal"],
            "params": {"quick": {"STEPS": 3, "PEERS": 2, "FAULTS": 2}, "thorough": {"STEPS": 3, "PEERS": 3, "FAULTS": 3}},
            "max_paths": {"quick": 60000, "thorough": 800000},
            "timeout": {"quick": "10m", "thorough": "90m"},
            "covers": {"VerifSysHeal": ["write", "cut", "heal", "restart", "restart-wiped", "store-closed", "store-reopened", "healed"]},
        }, {
            "pkg": ODB, "funcs": ["VerifSysOpenRace"],
            "params": {"quick": {"P": 1}, "thorough": {"P": 1}},
            "max_paths": {"quick": 60000, "thorough": 800000},
            "timeout": {"quick": "10m", "thorough": "60m"},
            "covers": {"VerifSysOpenRace": ["opened"]},
        }, {
            "pkg": BS, "funcs": ["VerifC02RestartRace"],
            "params": {"quick": {"T": 2, "B": 1, "P": 1}, "thorough": {"T": 2, "B": 2, "P": 1}},
            "max_paths": {"quick": 60000, "thorough": 600000},
            "timeout": {"quick": "10m", "thorough": "60m"},
            "covers": {"VerifC02RestartRace": ["raced", "healed"]},
        }, {
            "pkg": BS, "funcs": ["VerifC02ThirdBranch"],
            "covers": {"VerifC02ThirdBranch": ["merged-in-two-batches", "fresh-replica-joined"]},
        }, {
            "pkg": ODB, "funcs": ["VerifC02ThreeWay"],
            "covers": {"VerifC02ThreeWay": ["c-reconnected", "all-connected"]},
        }],
        "assumptions": [
            "three concurrent branches (VerifC02ThirdBranch): writers a, b, c write while partitioned; a merges the heads of b and c in two separate batches (either order, optional own write in between); a fresh replica joins a and receives the heads a persisted: it must hold every acknowledged write a holds",
            "three replicas (VerifC02ThreeWay): two writers diverge behind cut links (1..2 writes each); the third replica's two links heal back to back, so both head exchanges are queued on its direct channel at once; it holds every write of both; then the writers' link heals and all three agree",
            "closed system of two replicas inside one interpreter, each a real BaseStore with replication enabled over stub pubsub / direct channel and its own block store (blocks of the connected peer are fetchable)",
            "fault plan (symbolic): STEPS steps, each a write on a or b whose announcement (the payload the real handleEventWrite published on the topic) is delivered to the other side or lost, or a restart of a (Close, fresh store over the same cache and blocks, real Load)",
            "final phase: writes stop; each side observes the other joining its topic (EventPubSubJoin on the watcher channel); the payload each real exchangeHeads sends on the direct channel is decoded and handed to the other store's Sync, as baseorbitdb's handler does; run to quiescence",
            "oracle: both replicas hold every acknowledged write and list identical ordered logs",
            "restart race (VerifC02RestartRace): a replica with T persisted writes restarts while another replica holds B writes it has not seen (written on top of its history or concurrently); Load from its own heads cache runs concurrently with the Sync of the heads the other side sends - every schedule with at most P preemptions - then the same heads are exchanged once more; the restarted replica holds every acknowledged write of both",
            "open race (VerifSysOpenRace): a peer opens the database while a replica holding 1..2 acknowledged writes is connected and idle; the heads that replica sends on seeing the join may arrive before Open has returned: every schedule of the opening thread and the threads it starts with at most P preemptions; the opened replica must hold every acknowledged write at quiescence",
            "system harness (VerifSysHeal): PEERS real orbitDB INSTANCES (newOrbitDB, Create/Open, createStore, monitorDirectChannel, handleEventExchangeHeads, the stores' storeListener / pubSubChanListener / exchangeHeads) wired by the real code over a simulated network (pubsub with join/leave notifications and fan-out, pairwise direct channel emitting on the receiver's bus, link cuts); fault plan of STEPS steps: write on any peer (each publication towards each subscriber delivered / lost / duplicated), cut or heal a link, restart a peer over its directory, restart a peer that has not written with its storage lost (in-memory cache), close a peer's replica of the database (the store only) and reopen it later on the same instance; final phase: closed replicas reopened, every link re-established; blocks of a connected peer are fetchable",
        ],
        "outside": ["two preemptions in the open-race harness (same reason as C08; registered thorough bound P=1)", "more than PEERS replicas", "reordered announcements (delivery is order-insensitive by C01)", "liveness of real pubsub / bitswap: the claim is 'given the join notifications and fetchable blocks, one exchange suffices'", "composition to >2 replicas is a paper argument"],
    },
    "C03": {
        "groups": [{
            "pkg": BS, "funcs": ["VerifC03Forged", "VerifC03LocalWrite"],
            "covers": {"VerifC03Forged": ["as-head", "as-ancestor", "as-foreign-ref", "id-swap", "spoofed-address-first", "restarted-and-loaded"], "VerifC03LocalWrite": ["allowed", "denied", "denied-twice"]},
        }, {"cross_solvers": ["cvc5", "z3-new"], "pkg": ACI, "funcs": ["VerifC03CanAppend"], "covers": {"VerifC03CanAppend": ["decided", "after-genuine"]}},
           {"cross_solvers": ["cvc5", "z3-new"], "pkg": ACS, "funcs": ["VerifC03CanAppend"], "covers": {"VerifC03CanAppend": ["decided", "after-genuine"]}},
           {"pkg": ACO, "funcs": ["VerifC03CanAppend"], "covers": {"VerifC03CanAppend": ["decided", "after-genuine"]}},
           {"pkg": ODB, "funcs": ["VerifC03Instance"],
            "covers": {"VerifC03Instance": ["created", "via-sync", "via-direct-channel", "via-topic", "delivered", "local-write-refused", "opener-passes-own-list", "opener-reuses-parameters", "spoofed-address-first"]}}],
        "assumptions": [
            "restart epilogue (VerifC03Forged): after the delivery the replica is closed, reopened over the same cache and block store with the same write list and loaded; the forged entry (still in the block store, possibly linked from a cached head) is not in log or view",
            "write lists with an EMPTY entry, a truncated id or an id with a suffix (concrete cases, replayable natively): they name nobody",
            "a refused local write is repeated: the second attempt returns an error too (nothing, not even a lock, is left behind) and the replication status is untouched",
            "the non-writer opens the restricted database passing access-controller parameters of its own (an explicit list naming itself, or a value it used before to create its own database): the opened store reports and enforces the list recorded at creation",
            "Dolev-Yao attacker with perfect symbolic cryptography: verify(pub, m, s) <=> s = sign(pub, m); the attacker can sign only with its own key, copy any public field (ids, identity blocks, keys, signatures of honest entries) and re-address entries",
            "forged author fields: identity block (own / own with the writer's id - with the attacker's own identity signatures, the id re-signed with the attacker's key and the writer's or the attacker's voucher, or the writer's id signature COPIED with the attacker's or the writer's voucher - / copy of the writer's) x key (own / writer's) x signature (own over the content / copied from an honest writer entry / garbage) x clock id; delivered as an announced head or as the ancestor of a colluding writer's entry to a replica with an explicit write list, through the real Sync, replicator, Join, Entry.Verify, ToHashable and the REAL OrbitDBIdentityProvider.VerifyIdentity",
            "local write by an identity outside / inside the list, under the wildcard, and with the default (creator-only) list",
            "unit harnesses of the three controllers' CanAppend with a symbolic write list (<= 2 ids, each any 1-byte string or the id of identity a / b, optional wildcard at any position) and an author that is genuine (a or b) or forged by b (a's id with b's key and signatures; id re-signed by b with a's voucher copied; a's block copied with b's entry key; a's block without signatures; a's id and id signature copied under b's key with b's or a's voucher), decided on a fresh controller or after the controller has decided a genuine entry of a (state a controller or a process-wide cache keeps must not make a forgery acceptable): admitted iff listed AND genuine",
            "harness identities are well-formed orbitdb identities over the symbolic signature scheme (id = hex of the id key, Signatures.ID = sign(public key, id), Signatures.PublicKey = sign(id key, hex(public key ++ id signature))), so the real VerifyEntryIdentity accepts them and rejects forgeries",
            "spoofed-address-first (VerifC03Instance, VerifC03Forged): before the forged entry arrives under its own address, a copy of a GENUINE entry that merely claims the forged entry's address is offered (and refused or ignored); a verdict remembered under the claimed address must not admit the forged entry later",
            "instance harness (VerifC03Instance): one real orbitDB instance creates a permissive and a restricted database (ipfs controller with manifest / manifest-less simple controller, either creation order); the write list each store enforces is the one resolved by createStore -> acutils.Resolve from the manifest; a non-writer's entry reaches the instance by manual sync, direct-channel head exchange (monitorDirectChannel) or topic announcement; the non-writer's local write on its own replica must fail",
        ],
        "outside": ["real secp256k1", "identity providers other than orbitdb", "routes load-from-cache and snapshot (they reach the same Join)"],
    },
    "C04": {
        "groups": [{
            "cross_solvers": ["cvc5", "z3-new"], "pkg": BS, "funcs": ["VerifC04Tampered"],
            "covers": {"VerifC04Tampered": ["as-head", "as-ancestor", "codec-alias", "as-refs-ancestor-behind-held-entries", "twin-block-through-link"]},
        }, {
            "pkg": BS, "funcs": ["VerifC04ForeignChain"],
            "params": {"quick": {"F": 3, "H": 3}, "thorough": {"F": 5, "H": 4}},
            "covers": {"VerifC04ForeignChain": ["via-refs", "via-next", "restarted", "relayed", "trimmed-load", "trimmed-load-after-restart", "foreign-entries-by-the-local-identity"]},
        }, {
            "pkg": BS, "funcs": ["VerifC04Snapshot", "VerifC04SnapshotAfterReject"],
            "covers": {"VerifC04Snapshot": ["snapshot-rewritten", "impersonates-an-ancestor", "impersonates-the-head", "loaded"], "VerifC04SnapshotAfterReject": ["rejected-live", "snapshot-loaded-after-restart"]},
        }],
        "assumptions": [
            "twin block (VerifC04Tampered field 8): the block store holds under another well-formed address a block that decodes to the genuine signed entry (as a non-canonical encoding would); a valid head links it through next or refs after the replicator has verified an honestly fetched entry",
            "the foreign chain is written by the remote writer or by the LOCAL replica's own identity (one instance uses one identity for all its databases)",
            "the tampered (re-addressed) entry is also delivered as an ancestor reached through REFS only, behind a next entry the replica already holds",
            "snapshot after a rejection (VerifC04SnapshotAfterReject): a tampered (payload, clock or signature) and re-addressed ancestor linked under a valid head is rejected by live replication but stays in the block store; the replica (with or without an own write) saves a snapshot, restarts and loads it into an empty store: the tampered entry is not merged on that route either",
            "snapshot route (VerifC04Snapshot): the snapshot file of a two-entry log is rewritten (it is referenced from the local cache only): the frame of the ancestor or of the head is replaced by another validly signed entry of the same writer and database that CLAIMS the replaced entry's address; a fresh instance loads it; every merged entry must hash to the address it is listed under",
            "a valid entry of an authorised writer, one field of its wire form replaced (payload by a symbolic byte, clock time by ANY other 64-bit value, clock id, next, refs, key, signature, log id, only the claimed address, or the claimed address replaced by an alias with the same multihash digest and another codec), keeping the claimed address or re-addressed; delivered as an announced head or (re-addressed) as the ancestor of a valid head",
            "content addressing = perfect hash of every wire field except the hash; ancestors are fetched by hash, hence their content is whatever hashes to it; perfect symbolic signatures over the hashable form computed by the real ToHashable/toBuffer",
            "foreign chain: a valid entry of a writer of A (on top of A's own chain of 1..H entries) links (refs / next / both) to the head of a chain of 1..F entries validly written for another database; delivered as an announced head, then either nothing, or restart + Load from the replica's own disk (the whole ancestry is fetched as ONE log and filtered by ownEntriesOnly), or relayed to a fresh replica, or followed by Load(n), n in 1..3, smaller or not than what the store holds (the trimming pass of joinTrimmed), on the live store or after restart + full load; oracle: nothing listed, no head and nothing served carries another log id",
        ],
        "outside": ["hash collisions", "CBOR canonicalisation", "mutations of the identity block only (the entry signature does not cover it; decided under C03)"],
    },
    "C10": {
        "groups": [{
            "pkg": BS, "funcs": ["VerifC10Mixed"],
            "covers": {"VerifC10Mixed": ["non-writer", "foreign-db", "wrong-hash", "bad-ancestor", "bad-signature", "re-announced", "claims-valid-address", "rejected-alone-first", "unfetchable-ancestor", "valid-head-with-history"]},
        }, {
            "pkg": BS, "funcs": ["VerifC10ForgedInBatch"],
            "covers": {"VerifC10ForgedInBatch": ["mixed-batch-processed", "genuine-head-alongside", "re-announced"]},
        }, {
            "pkg": BS, "funcs": ["VerifC10Before"],
            "covers": {"VerifC10Before": ["tampered-readdressed", "non-writer", "bad-ancestor", "rejected-later", "restarted"]},
        }],
        "assumptions": [
            "history below the valid head (VerifC10Mixed): the valid head stands on 0 or 3 older valid entries the replica does not hold; after the re-announcement the whole history is in log and view",
            "a sixth rejected companion: a writer's entry whose ancestor cannot be fetched (the failing fetch completes last of the burst)",
            "BEFORE clause (VerifC10Before): 1..2 valid entries are replicated (optionally a local write too), then an announcement arrives whose fetched log the join refuses (tampered re-addressed copy with the genuine identity block / non-writer / writer on a non-writer's ancestor); the earlier entries stay in log and view and are reloaded after a restart",
            "forged author inside a batch (VerifC10ForgedInBatch): writers w1 and w2; a forged-author entry naming w1's id (made by w2 with its own key), linked by a valid entry of w2 and linking on to w1's genuine head, so that it is judged before w1's 1..2 genuine entries of the same batch; w1's head is announced alongside or only afterwards; the genuine entries are in log and view at the latest after the re-announcement",
            "replica with an explicit write list; a two-head announcement mixing a valid head with a rejected one (non-writer author / other database / wrong claimed address / writer's entry on top of a non-writer's ancestor / writer's id with a signature that does not verify) at either position, or the rejected head alone BEFORE the valid one is announced; the rejected head keeps its own address or CLAIMS the valid entry's address (the claimed address of an announced head is chosen by the sender); through the real Sync -> replicator -> fetcher -> main loop -> replicationLoadComplete -> Join",
            "then an honest re-announcement of the valid head and a newer valid head; quiescence decided from the scheduler state (all threads blocked), not from a timeout",
        ],
        "outside": ["more than two heads per announcement", "fetch-completion orders other than run-to-block FIFO", "the forged-author class is decided under C03"],
    },
    "C11": {
        "groups": [{
            "pkg": BS, "funcs": ["VerifC11Abort"],
            "params": {"quick": {"N": 3}, "thorough": {"N": 4}},
            "covers": {"VerifC11Abort": ["aborted", "control", "retried", "partial-ancestry"]},
        }, {
            "pkg": BS, "funcs": ["VerifC11CancelAnywhere"],
            "params": {"quick": {"N": 2}, "thorough": {"N": 3}},
            "max_paths": {"quick": 60000, "thorough": 400000},
            "covers": {"VerifC11CancelAnywhere": ["aborted", "retried"]},
        }, {
            "pkg": BS, "funcs": ["VerifC11Saturated"],
            "params": {"quick": {"N": 3, "P": 1}, "thorough": {"N": 4, "P": 1}},
            "max_paths": {"quick": 60000, "thorough": 600000},
            "timeout": {"quick": "10m", "thorough": "60m"},
            "covers": {"VerifC11Saturated": ["aborted-while-saturated", "newer-head", "retried"]},
        }, {
            "pkg": BS, "funcs": ["VerifC11LoadAbort"],
            "params": {"quick": {"N": 2}, "thorough": {"N": 3}},
            "covers": {"VerifC11LoadAbort": ["load-cancelled", "load-fetch-failed", "aborted", "reopened", "retried"]},
        }, {
            "pkg": BS, "funcs": ["VerifC11NewerHeadRefs"],
            "params": {"quick": {"N": 6}, "thorough": {"N": 17}},
            "covers": {"VerifC11NewerHeadRefs": ["aborted", "gap-left", "newer-head-has-refs", "newer-head-requested"]},
        }, {
            "pkg": BS, "funcs": ["VerifC11LateProvider"],
            "params": {"quick": {"N": 3}, "thorough": {"N": 4}},
            "covers": {"VerifC11LateProvider": ["slow-provider-answered"]},
            # the provider's delay and the waiting run on the interpreter's VIRTUAL time (ten
            # minutes): there is nothing to replay natively in reasonable time
            "validate": False, "native_replay": False,
        }],
        "assumptions": [
            "inside the region of the listed finding (VerifC11NewerHeadRefs): a chain of N entries with real reference links, the request for its head cancelled at the k-th fetch (every k), one more entry appended, the newer head requested with a live context; every entry in the closure of the newer head over next AND refs links that does not pass through entries already held must be visible (this is what a newer head still repairs; the entries between two held ones remain the listed finding)",
            "slow provider (VerifC11LateProvider): nothing is cancelled; the provider of one non-head block answers after ten minutes of VIRTUAL time (timers fire only when nothing else can run, in deadline order); the request completes on its own, a later request for the same heads changes nothing, every entry is visible and the queue is empty (a fetch that gives up after a timeout of its own turns this into a request that failed part-way); interpreter-only: no native replay",
            "load route (VerifC11LoadAbort): a restarted store with two cached heads (own chain of N + replicated concurrent chain of N); the first Load is cancelled at its k-th block read or one block cannot be read; a later Load on the same store or on a store reopened from the same directory makes every entry visible in log and view (the partial-ancestry finding shows on this route too and is carved out the same way)",
            "remote log = chain of N entries or two branches; replication concurrency 1 or 2; request 1 is cancelled before it starts, at the k-th block fetch (k=1..N, i.e. while another worker waits for a slot or in the middle of a fetch) or after the last, and/or one chosen fetch fails; request 2 for the same heads runs with a live context and all blocks available",
            "quiescence decided from the scheduler state",
            "saturated replicator (VerifC11Saturated): ONE fetch slot, two heads (branches of N-1 and 1 entries) announced in either order; the request is cancelled at its first or second block fetch while other workers wait for the slot, and which waiting worker gets the slot / which queued hash it takes is explored under every schedule with at most P preemptions; the later request names the same heads or a NEWER head written on top of both branches; oracle: everything reachable is in the log and the replicator queue is empty",
            "cancel-anywhere harness: the first request's context is cancelled at ANY visible operation of ANY thread (each lock/unlock, channel operation, goroutine start, block/cache effect is a point where the path may fire the cancellation): one path per point",
        ],
        "outside": ["timeouts of the real bitswap", "cancellation between two visible operations of the same thread", "N beyond the bound"],
    },
    "C09": {
        "groups": [{
            "pkg": BS, "funcs": ["VerifC09Isolation"],
            "params": {"quick": {"STEPS": 2, "P": 1}, "thorough": {"STEPS": 3, "P": 1}},
            "max_paths": {"quick": 60000, "thorough": 800000},
            "timeout": {"quick": "10m", "thorough": "90m"},
            "covers": {"VerifC09Isolation": ["write-on-a", "replicate-on-a", "load-on-a", "foreign-head-on-a", "interleaved-writes"]},
        }, {
            "pkg": ODB, "funcs": ["VerifSysTwoDBs"],
            "params": {"quick": {"N": 2}, "thorough": {"N": 3}},
            "covers": {"VerifSysTwoDBs": ["healed", "both-write", "shared-options"]},
        }, {
            "pkg": ODB, "funcs": ["VerifSysHeal"],
            "params": {"quick": {"STEPS": 2, "PEERS": 2, "FAULTS": 2}, "thorough": {"STEPS": 3, "PEERS": 2, "FAULTS": 3}},
            "max_paths": {"quick": 60000, "thorough": 800000},
            "timeout": {"quick": "10m", "thorough": "60m"},
            "covers": {"VerifSysHeal": ["write", "healed"]},
        }, {
            "pkg": ODB, "funcs": ["VerifC09SlowConnect"],
            "covers": {"VerifC09SlowConnect": ["control", "A-closed-while-connecting", "A-dropped-while-connecting", "connected"]},
        }, {
            "pkg": ODB, "funcs": ["VerifC09CloseTwice"],
            "covers": {"VerifC09CloseTwice": ["closed-twice", "closed-then-dropped", "dropped-then-closed", "B-still-works"]},
        }, {
            "pkg": ODB, "funcs": ["VerifC09LateJoin"],
            "covers": {"VerifC09LateJoin": ["peer-joined-B-after-announcements-of-A"]},
        }, {
            "pkg": BS, "funcs": ["VerifC09Starved"],
            "covers": {"VerifC09Starved": ["databases-stuck", "other-database-replicated"]},
        }, {
            "pkg": ODB, "funcs": ["VerifC09SameName"],
            "covers": {"VerifC09SameName": ["written", "isolated"]},
        }, {
            "pkg": ODB, "funcs": ["VerifC09SameRoot"],
            "covers": {"VerifC09SameRoot": ["exchanged-on-heal", "beta-closed"]},
        }],
        "assumptions": [
            "same name, another manifest (VerifC09SameName): an event log and a key-value store both named users (created in either order) and a control database on one instance, a peer on every topic; the event log is written 1..2 times: only its own topic carries announcements, every message names the database whose heads it carries, the other stores stay empty with an untouched status",
            "starvation (VerifC09Starved): 1..D databases of the process are each handed 1, 33 or K heads whose parents no provider answers for (pending fetches for good); another database is then handed an ordinary head and must replicate it, announce it and show its own status; schedule-free path classes, no symbolic data",
            "shared manifest root (VerifC09SameRoot): /orbitdb/<root>/alpha and /orbitdb/<root>/beta (hand-formed address) open on two instances; alpha written behind a partition and exchanged on heal: alpha's entries reach alpha, beta stays empty with status 0/0; closing beta does not stop alpha's exchanges",
            "messages a store builds (VerifC09LateJoin): a peer opens database A, A is written 1..3 more times (announcements), then the peer opens database B: every publication and direct message carries only heads of the database it names",
            "repeated close (VerifC09CloseTwice): database A is closed twice / closed then dropped / dropped then closed while database B of the same instance stays open: a write to B still emits its write event, reaches the peer, B loads, B's status describes its log",
            "shared network layer (VerifC09SlowConnect): both stores of one instance ask the instance's one direct channel to connect to the same peer while connecting takes time (gate in the network stand-in); database A is closed or dropped meanwhile; database B's heads still reach the peer",
            "two databases opened by one process: two real BaseStores initialised by InitBaseStore on ONE shared event bus, one pubsub (topics per address, each with a peer so that publications are not suppressed) and one direct channel; replication enabled",
            "a sequence of STEPS actions on database A (local write with symbolic payload; replication of a head written by a remote process; load; A being handed a valid entry that was written for database B), run to quiescence after each",
            "oracle: nothing published on B's topic or sent on the direct channel; B's log, progress and maximum unchanged; every store event observed on the bus carries A's address",
            "then a write to B followed by a write to A under every thread schedule with at most P preemptions (switch or stall) at visible operations; every message published on a topic must name that topic's database and carry only its heads",
            "instance level (VerifSysTwoDBs, VerifSysHeal): two real orbitDB instances hold the same two databases (event log + key-value; the second instance opens both with fresh option values or with ONE reused *CreateDBOptions value); both are written behind a partition, the head exchanges of both travel back to back over one direct channel through the real monitorDirectChannel / handleEventExchangeHeads routing and replicate concurrently on the shared bus; each database ends with exactly its own entries, its own replication status and events naming it; every wire message names the database whose heads it carries; an idle database stays untouched under a fault plan on its sibling",
        ],
        "outside": ["more than one preemption in the store-level harness (STEPS=3 with P=2 did not finish within 90 minutes; registered thorough bound STEPS=3, P=1)", "more than two databases / different store types (the listeners are in BaseStore, common to all types)", "schedules other than run-to-block FIFO in the instance-level harnesses"],
    },
    "C05": {
        "groups": [{
            "pkg": BS, "funcs": ["VerifC05Crash"],
            "params": {"quick": {"STEPS": 3}, "thorough": {"STEPS": 4}},
            "max_paths": {"quick": 60000, "thorough": 400000},
            "covers": {"VerifC05Crash": ["local-write", "replicated-event", "recovered"]},
        }, {
            "pkg": ODB, "funcs": ["VerifC05Reopen"],
            "params": {"quick": {"CYCLES": 2}, "thorough": {"CYCLES": 3}},
            "max_paths": {"quick": 60000, "thorough": 400000},
            "covers": {"VerifC05Reopen": ["attempt-failed", "by-address", "by-name", "reopened"]},
        }, {
            "pkg": BS, "funcs": ["VerifC05Burst"],
            "params": {"quick": {"W": 2, "P": 1}, "thorough": {"W": 4, "P": 1}},
            "max_paths": {"quick": 60000, "thorough": 400000},
            "covers": {"VerifC05Burst": ["burst-written", "recovered"]},
        }, {
            "pkg": BS, "funcs": ["VerifC05Sessions"],
            "params": {"quick": {"T": 2, "S": 2}, "thorough": {"T": 3, "S": 3}},
            "max_paths": {"quick": 60000, "thorough": 400000},
            "covers": {"VerifC05Sessions": ["partial-load", "wrote-in-session", "second-handle", "reloaded"]},
        }, {
            "pkg": ODB, "funcs": ["VerifC05Identity"],
            "covers": {"VerifC05Identity": ["created", "restarted-same-identity", "other-directory", "in-memory", "still-open", "restarted-through-another-spelling"]},
        }, {
            "pkg": BS, "funcs": ["VerifC05WriteDuringMerge"],
            "max_paths": {"quick": 60000, "thorough": 400000},
            "covers": {"VerifC05WriteDuringMerge": ["written-during-merge", "recovered"]},
        }, {
            "pkg": ODB, "funcs": ["VerifC05SharedOptions"],
            "covers": {"VerifC05SharedOptions": ["options-value-reused", "restarted"]},
        }, {
            "pkg": ODB, "funcs": ["VerifC05WriteAfterClose"],
            "covers": {"VerifC05WriteAfterClose": ["store-closed", "instance-closed", "reloaded"]},
        }],
        "assumptions": [
            "writes around a close (VerifC05WriteAfterClose, real instance over the disk model): 1..2 writes, the store or the instance is closed, 1..2 more Add calls on the stale handle; each call either fails or is acknowledged, and every acknowledged one is listed after the instance is closed and a new instance reopens and loads the directory (the disk model accepts a put after close where leveldb refuses it: both satisfy the clause)",
            "two databases of one instance (VerifC05SharedOptions): created with fresh option values or with ONE reused value, both written, clean instance close, new instance on the same directory: each database reloads exactly its own acknowledged entries",
            "write during a merge (VerifC05WriteDuringMerge): a local write starts at ANY visible step of the replication of a remote batch of 1..2 entries and runs until it blocks; the disk image at its acknowledgement (crash) and after a clean close both reload to a log holding it (and, after the clean close, the replicated batch)",
            "identity across a restart that designates the SAME directory by another string (a symbolic link natively, an alias in the disk model): same identity, the peer can still write",
            "history of STEPS steps on one store, each a local write (symbolic payload) or a real replication of a batch written by a remote writer (Sync -> replicator -> fetcher -> Join -> cache write -> EventReplicated)",
            "the store's block store and cache append every mutation to ONE ordered effect log; each effect is durable once its call returns (as the property assumes)",
            "acknowledgement instants: return of AddOperation, emission of EventReplicated (observed synchronously in the emitting goroutine); crash index = a symbolic integer over [0, #effects]; recovered disk = that prefix; fresh store + real Load(-1)",
            "crash in a burst (VerifC05Burst): W goroutines write concurrently, every schedule with at most P preemptions; the heads cache is captured at the instant each AddOperation returns success (the disk image a crash at that instant leaves); a store reopened over each image and loaded holds that entry and every entry acknowledged before it",
            "clean sessions (VerifC05Sessions): T local writes and a replicated concurrent entry (local + remote cached heads), then S sessions of reopen + Load with any limit in 1..total or everything + optionally one more write, or a second handle on the same directory that loads, writes and is closed BEFORE the first; every Close is clean; a final reopen + full load must hold exactly the acknowledged writes and the replicated entry",
            "identity across restart (VerifC05Identity): instances are made by the PUBLIC NewOrbitDB with neither keystore nor identity given, so the real code opens the keystore datastore under <directory>/<peer id>/keystore (disk model incl. leveldb's directory lock), builds the real go-ipfs-log Keystore (real LRU cache, base64) and runs the real idp.CreateIdentity / OrbitDBIdentityProvider (GetID, signID, SignIdentity); secp256k1 key generation, (un)marshalling and signatures are symbolic stand-ins (fresh keys pairwise distinct, verify(pub(k),m,s) <=> s = sign(k,m)); same directory => same id and public key and the creator-only database is still writable; other directory / in-memory default => another identity whose write is refused; a second instance cannot open the keystore of one still open; Close releases it",
            "clean close / reopen cycles at instance level (VerifC05Reopen): a real orbitDB instance over the real cache manager (cacheleveldown) on the disk model creates a database by name, writes, closes; CYCLES times a new instance on the same directory reopens it by address or by name with Create (the path of the Log / KeyValue / Docs helpers: Create with Overwrite), optionally after an attempt that failed (DAG unreachable while the manifest is read, cancelled context, unregistered store type) and optionally an instance restart after the failure; Load(-1) must yield exactly the acknowledged entries, and a further write succeeds",
        ],
        "outside": ["a write issued on a reopened store BEFORE its Load has completed (the write is appended to a log that does not hold the cached heads yet and replaces _localHeads, so the earlier history becomes unreachable after the next restart: observed on the unchanged tree; the API contract - as in the JS implementation - is load first, then use; every harness loads before it writes)", "durability of leveldb / flatfs themselves, torn writes", "real secp256k1 key generation / signatures and the on-disk format of the keystore (keys are symbolic tokens, leveldb is the disk model with its directory lock)", "crashes during concurrent writers (C17 decides the write path's atomicity)"],
    },
    "C16": {
        "groups": [{
            "pkg": BS, "funcs": ["VerifC05Crash"],
            "params": {"quick": {"STEPS": 3}, "thorough": {"STEPS": 4}},
            "max_paths": {"quick": 60000, "thorough": 400000},
            "covers": {"VerifC05Crash": ["local-write", "replicated-event"]},
        }, {
            "pkg": EV, "funcs": ["VerifC16LegacyStall", "VerifC16LegacyRace"],
            "params": {"quick": {"N": 18, "P": 2}, "thorough": {"N": 19, "P": 2}},
            "max_paths": {"quick": 400000, "thorough": 1500000},
            "timeout": {"quick": "15m", "thorough": "90m"},
            "covers": {"VerifC16LegacyStall": ["drained"], "VerifC16LegacyRace": ["drained"]},
        }, {
            "pkg": EV, "funcs": ["VerifC16LegacyStall"],
            "params": {"quick": {"N": 200}, "thorough": {"N": 600}},
            "covers": {"VerifC16LegacyStall": ["drained"]},
            "validate": False,
        }, {
            "pkg": EV, "funcs": ["VerifC16LegacyCancel"],
            "params": {"quick": {"N": 18, "P": 0, "KS": 3}, "thorough": {"N": 18, "P": 1, "KS": 3}},
            "max_paths": {"quick": 60000, "thorough": 600000},
            "covers": {"VerifC16LegacyCancel": ["drained"]},
        }, {
            "pkg": EV, "funcs": ["VerifC16LegacyMulti"],
            "params": {"quick": {"N": 20}, "thorough": {"N": 60}},
            "covers": {"VerifC16LegacyMulti": ["drained", "unsubscribed"]},
        }, {
            "pkg": BS, "funcs": ["VerifC16Backfill"],
            "params": {"quick": {"T": 4}, "thorough": {"T": 6}},
            "covers": {"VerifC16Backfill": ["backfilled"]},
        }, {
            "pkg": KV, "funcs": ["VerifC16WriteDuringMerge"],
            "params": {"quick": {"N": 2}, "thorough": {"N": 4}},
            "max_paths": {"quick": 60000, "thorough": 400000},
            "covers": {"VerifC16WriteDuringMerge": ["write-event", "replicated-event", "write-during-merge"]},
        }, {
            "pkg": DOC, "funcs": ["VerifC16ReadRace"],
            "params": {"quick": {"P": 1}, "thorough": {"P": 1}},
            "max_paths": {"quick": 60000, "thorough": 60000},
            "covers": {"VerifC16ReadRace": ["raced"]},
        }, {
            "pkg": DOC, "funcs": ["VerifC16BatchFailure"],
            "covers": {"VerifC16BatchFailure": ["batch-failed", "batch-succeeded", "checked"]},
        }, {
            "pkg": BS, "funcs": ["VerifC10Mixed"],
            "covers": {"VerifC10Mixed": ["bad-ancestor", "re-announced", "valid-head-with-history"]},
        }],
        "assumptions": [
            "document values in the document-store harnesses are single symbolic bytes below 0x80 (vstub.NdASCII): encoding/json replaces invalid UTF-8 inside strings by U+FFFD, which the idealised JSON model does not do; values with the high bit set are outside the claim (found when a passing path with such a value disagreed in the native translator validation)",
            "reader overlapping a write (VerifC16ReadRace, document store): a reader thread (Get and Query of one document) and a writer that overwrites or deletes it, every schedule with at most P preemptions (the reader may be suspended inside its read and finish after the write); when the write event is received and once both finished, Get and Query show the new revision (or nothing after a delete)",
            "content of replicated events (hook in VerifC10Mixed, also run under C10): every EventReplicated lists only entries the log holds at that instant - also when a fetched log of the batch was rejected by the join - and no entry is announced by two replicated events",
            "batch paths (VerifC16BatchFailure): PutBatch / PutAll of three documents while the k-th entry block write from now fails once (k in 0..3), the same call retried, then a Delete: every entry the log holds was carried by exactly one write event, emitted when the log holds it, and no event exists without an entry",
            "clause (c) legacy channel API: the real events.EventEmitter (Emit, Subscribe, handleSubscriber with its two buffering goroutines, real container/list, sync.Cond) over the stub bus; N events (N > channel capacity 16); every interleaving of emitter, the two goroutines and the subscriber with at most P preemptions (switch or stall) at visible operations; plus a subscriber that stalls until everything else is blocked and then drains N events",
            "clause (c) a subscriber that goes away (VerifC16LegacyCancel): two subscribers, one never reads and its context ends before the first / half-way / after the last of N=18 emissions while the other keeps reading; quick tier: default schedule with EVERY choice among ready select cases explored (Go picks at random); thorough: every schedule with one preemption; the stub bus mirrors libp2p's wildcard subscriptions (Close unlinks under the bus write lock, does not drain)",
            "clause (c) several subscribers (VerifC16LegacyMulti): two Subscribe channels, a third cancelled half-way and the shared GlobalChannel, with prompt / stalled / quitting readers; each reader that keeps reading receives the N events in order exactly once; cancelled and unsubscribed channels close and no buffering goroutine is left",
            "clause (a) under concurrency: a key-value store (its view is a separate map, not an alias of the log) replicates a batch of N remote entries through the real Sync path while a local Put starts at ANY visible operation (lock, unlock, channel operation, go, cache/block write) of any goroutine involved and runs until it blocks; the bus hook queries the store with Get on every EventWrite / EventReplicated",
            "clause (a) state-before-event: every emission on the store's bus is observed synchronously in the emitting goroutine (a wrapper around the bus); on EventWrite the log and the view already hold the entry and there is exactly one write event per successful write; on EventReplicated all announced entries are in the log and the merged heads are already persisted",
            "batches that do not move the heads (VerifC16Backfill): a store loaded with a limit receives, by Sync or LoadMoreFrom, the newest entry below its window; the merged older history must be announced by replicated events, each entry exactly once, with the entries already in the log when the event is emitted",
            "slow reader of replicated events: every emitted EventReplicated is retained and read only at the end of the history; it must still announce exactly the batch it announced when emitted, and every merged remote entry is announced by exactly one event",
        ],
        "outside": ["clause (b): ordering/losslessness of the real libp2p eventbus (the stub bus mirrors its blocking per-sink FIFO)", "clause (c) beyond P preemptions / N events; data races below visible-operation granularity"],
    },
    "C01": {
        "groups": [{
            "pkg": KV, "funcs": ["VerifC06SeenThenPut"],
            "params": {"quick": {"B": 2, "P": 1}, "thorough": {"B": 2, "P": 1}},
            "max_paths": {"quick": 60000, "thorough": 60000},
            "covers": {"VerifC06SeenThenPut": ["merged-while-loading", "seen"]},
        }, {
            "pkg": KV, "funcs": ["VerifC01KV"],
            "params": {"quick": {"STEPS": 3}, "thorough": {"STEPS": 4}},
            "max_paths": {"quick": 60000, "thorough": 600000},
            "timeout": {"quick": "10m", "thorough": "60m"},
            "covers": {"VerifC01KV": ["converged", "partial-load"]},
        }, {
            "pkg": EL, "funcs": ["VerifC01Log"],
            "params": {"quick": {"STEPS": 3}, "thorough": {"STEPS": 5}},
            "max_paths": {"quick": 60000, "thorough": 600000},
            "timeout": {"quick": "10m", "thorough": "60m"},
            "covers": {"VerifC01Log": ["converged", "partial-load", "load-more-from"]},
        }, {
            "pkg": EL, "funcs": ["VerifC01Overlap"],
            "params": {"quick": {"T": 2, "P": 1}, "thorough": {"T": 3, "P": 1}},
            "max_paths": {"quick": 60000, "thorough": 400000},
            "covers": {"VerifC01Overlap": ["overlapped", "announced-head-is-cached", "announced-head-is-newer"]},
        }, {
            "pkg": DOC, "funcs": ["VerifC01Docs"],
            "params": {"quick": {"STEPS": 2}, "thorough": {"STEPS": 2}},
            "max_paths": {"quick": 60000, "thorough": 600000},
            "timeout": {"quick": "10m", "thorough": "60m"},
            "covers": {"VerifC01Docs": ["converged", "partial-load", "put-batch", "put-all"]},
        }, {
            "pkg": EL, "funcs": ["VerifC01Grouping"],
            "covers": {"VerifC01Grouping": ["grouped-and-separate"]},
        }],
        "assumptions": [
            "document values in the document-store harnesses are single symbolic bytes below 0x80 (vstub.NdASCII): encoding/json replaces invalid UTF-8 inside strings by U+FFFD, which the idealised JSON model does not do; values with the high bit set are outside the claim (found when a passing path with such a value disagreed in the native translator validation)",
            "overlapping view rebuilds (VerifC06SeenThenPut, key-value store, also part of the C06 check): a local put overlaps the rebuild that ends a replication merge or a load, every schedule with at most P preemptions; afterwards the view equals the replay of the log the replica holds (the view is recomputed from the log on EVERY change)",
            "grouping of manual syncs (VerifC01Grouping): one identity writes from two devices that have not seen each other (two concurrent heads signed with the same key; distinct (time, key) pairs), another writer's chain is known to the second device; the heads (optionally with the other writer's, in either order) are given to a fresh replica in ONE Sync call and to another one call per head: same ordered entries, everything reachable listed",
            "two writers (real stores built by InitBaseStore over a shared block store) produce a history of STEPS steps, each a local write with symbolic key/value or a real head exchange (Sync -> replicator -> ipfs-log fetcher -> Join) in either direction, in any order; then both exchange heads and a fresh replica receives everything by one of five routes: manual sync in one batch, load from the writer's disk (cache heads + blocks, real Load), a snapshot saved by the writer (real SaveSnapshot / LoadFromSnapshot), the two writers' branches in separate batches followed by a restart from its own disk, or a PARTIAL load from disk (Load with a limit k, k any value below the log length) completed by the heads a lagging peer would announce, handed over by Sync or by LoadMoreFrom (entries below the loaded window, so the log's heads do not move)",
            "the real ipfs-log Append/Join/traverse/sorting run in the interpreter; IPFS is a content-addressed block store stub with perfect hashing; identities use perfect symbolic signatures",
            "overlapping delivery (VerifC01Overlap): a restarted event-log replica whose cache holds T entries loads from disk WHILE the very head it has cached (or a newer one on top of it) is replicated into it by Sync, every schedule with at most P preemptions; it lists every entry exactly once, in the writer's order",
            "oracle: identical ordered hash lists and identical views on all three replicas; the view equals the replay of the replica's own log",
            "distinct entries never share (Lamport time, writer key): holds by construction (each identity writes through one live store)",
            "document store: the same shape with Put / PutAll (two documents) / PutBatch (two documents) / Delete over symbolic keys drawn from a two-key alphabet, so overwrites, deletes of present and absent keys and PUTALL batches that contain a key twice all occur; the view must equal the replay of the replica's own log after every step",
        ],
        "outside": ["document store histories of 3 steps (did not finish within 60 minutes: the registered thorough bound is STEPS=2, as quick)", "more than two writers / longer histories", "Go map iteration orders other than insertion order", "byte-level JSON/CBOR"],
    },
    "C15": {
        "groups": [{
            "pkg": BS, "funcs": ["VerifC15Load"],
            "params": {"quick": {"T": 3, "P": 1}, "thorough": {"T": 5, "P": 1}},
            "max_paths": {"quick": 60000, "thorough": 600000},
            "timeout": {"quick": "10m", "thorough": "60m"},
            "covers": {"VerifC15Load": ["loaded", "stale-remote-heads", "schedules-explored", "merged-branches-one-head"]},
        }, {
            "pkg": BS, "funcs": ["VerifC15Sequence"],
            "params": {"quick": {"T": 4}, "thorough": {"T": 6}},
            "covers": {"VerifC15Sequence": ["grew-by-writes", "grew-by-load-more", "loaded-again"]},
        }, {
            "pkg": KV, "funcs": ["VerifC15View"],
            "params": {"quick": {"T": 2}, "thorough": {"T": 3}},
            "covers": {"VerifC15View": ["loaded-with-limit"]},
        }],
        "assumptions": [
            "merged branches (VerifC15Load shape 3): two writers' concurrent branches merged by a later entry; a reader-only replica whose cache holds that single head (history longer than the head's Lamport time) is reloaded with every limit",
            "view after a limited load (VerifC15View, key-value store): two writers with T distinct keys each, local + remote cached heads, restart, Load(n) for n in 1..2T: min(n,total) entries in the log and All / Get equal the replay of exactly those",
            "load sequences on one open store (VerifC15Sequence): persisted single-writer log of T entries; Load(n), n in 1..T; then nothing, 1..2 local writes, or LoadMoreFrom of the older history; then Load(m), m in 1..held; exactly the m most recent held entries are visible in order (a later load with a limit LARGER than what the store holds is outside: the unchanged code fetches nothing below entries it already holds - observed, documented in DESIGN)",
            "persisted log built by real AddOperation calls (single-writer chain of T entries), by two writers with a real Sync (local + remote cached heads), or by replicating another writer's chain and then writing again (stale cached remote heads below a newer local head); then Close and a fresh store over the same cache and block store",
            "Load's per-head goroutines run under every schedule with at most P preemptions (switch or stall) at visible operations",
            "limit = ANY 64-bit integer (symbolic), passed per call or through MaxHistory (then the call argument is -1 or 0)",
            "the real ipfs-log fetcher, NewFromEntryHash, Join (incl. its size trimming) and Values are interpreted; IPFS is a block-store stub",
        ],
        "outside": ["T beyond the bound", "more than P preemptions (P=2 was tried for the thorough tier: T=2..4 did not finish within 40 minutes - more than 230000 schedules - so the registered bound is P=1)"],
    },
    "C17": {
        "groups": [{
            "pkg": BS, "funcs": ["VerifC17Concurrent"],
            "params": {"quick": {"W": 2, "P": 1}, "thorough": {"W": 4, "P": 1}},
            "max_paths": {"quick": 60000, "thorough": 600000},
            "timeout": {"quick": "10m", "thorough": "60m"},
            "covers": {"VerifC17Concurrent": ["written", "reloaded"]},
        }, {
            "pkg": BS, "funcs": ["VerifC17WritersAndReplication"],
            "params": {"quick": {"W": 2, "P": 1}, "thorough": {"W": 4, "P": 1}},
            "max_paths": {"quick": 60000, "thorough": 600000},
            "timeout": {"quick": "10m", "thorough": "60m"},
            "covers": {"VerifC17WritersAndReplication": ["written", "reloaded"]},
        }, {
            "pkg": DOC, "funcs": ["VerifC17DocsConcurrent"],
            "params": {"quick": {"P": 1}, "thorough": {"P": 1}},
            "max_paths": {"quick": 60000, "thorough": 600000},
            "covers": {"VerifC17DocsConcurrent": ["concurrent-calls"]},
        }, {
            "pkg": BS, "funcs": ["VerifC17Callbacks"],
            "params": {"quick": {"W": 2, "P": 1}, "thorough": {"W": 3, "P": 1}},
            "max_paths": {"quick": 60000, "thorough": 400000},
            "covers": {"VerifC17Callbacks": ["callbacks-delivered"]},
        }, {
            "pkg": BS, "funcs": ["VerifC17CancelledWriter"],
            "params": {"quick": {"W": 2, "P": 1}, "thorough": {"W": 3, "P": 1}},
            "max_paths": {"quick": 60000, "thorough": 400000},
            "covers": {"VerifC17CancelledWriter": ["written", "reloaded"]},
        }],
        "assumptions": [
            "a cancelled writer (VerifC17CancelledWriter): W writers with live contexts, one writer whose context is cancelled by one more thread (while it is queued, while it appends, after it returned), every schedule of these W+2 threads with at most P preemptions: every call that returned success appended one distinct entry, in log and view, and after restart and load all of them are still there",
            "progress channels (VerifC17Callbacks): W concurrent writers each pass an unbuffered progress channel to AddOperation, one collector drains them in a fixed order, every schedule with at most P preemptions: every call returns, each channel gets its own call's entry, one distinct entry per call in log and view",
            "public API of the document store (VerifC17DocsConcurrent): a PutAll of two documents concurrent with another PutAll sharing one key, a Put or a Delete, every schedule with at most P preemptions: each call appended one distinct entry carrying exactly ITS documents, all are in the log, the documents equal the replay of the log",
            "W writer goroutines on one real BaseStore (InitBaseStore over stubs) calling the real AddOperation with the real ipfs-log Append; payloads symbolic",
            "schedule: run-to-block with FIFO hand-over; at every visible operation (mutex/rwmutex lock+unlock, channel send/receive/select/close, go, waitgroup wait, cache write, block write) the path may preempt the running thread, at most P times per path (CHESS-style preemption bounding); every such schedule is explored",
            "then Close, a fresh store over the same cache and block store, real Load(-1) with the real ipfs-log fetcher",
            "writers racing a replication (VerifC17WritersAndReplication): W writers and the real Sync -> replicator -> replicationLoadComplete of a remote writer's entry on the same store under every schedule with at most P preemptions; live log = one entry per call + the replicated one; after restart every acknowledged local entry and the replicated entry are still there",
            "schedule-dependent counterexamples are replayed natively by forcing the recorded order of stub effects (block writes, cache writes) with a turnstile",
        ],
        "outside": ["two preemptions (W=3, P=2 did not finish within 60 minutes once the replication-status mutex added visible operations: the registered thorough bound is W=4 writers, P=1)", "data races below visible-operation granularity (no memory-model exploration)", "more than P preemptions, more than W writers"],
    },
    "C20": {
        "groups": [{
            "cross_solvers": ["cvc5", "z3-new"], "pkg": PSC, "funcs": ["VerifC20PeersDiff", "VerifC20SelfFilter", "VerifC20WatchPeers", "VerifC20TwoWatchers", "VerifC20PollError"],
            "params": {"quick": {"P": 3, "S": 3, "M": 3}, "thorough": {"P": 3, "S": 4, "M": 5}},
            "max_paths": {"quick": 60000, "thorough": 400000},
            "covers": {"VerifC20PeersDiff": ["diffed"], "VerifC20SelfFilter": ["drained"], "VerifC20WatchPeers": ["watched"], "VerifC20TwoWatchers": ["watched"], "VerifC20PollError": ["watch-ended"]},
        }, {
            "pkg": OOO, "funcs": ["VerifC20ChannelID", "VerifC20Monitor", "VerifC20ConnectRace", "VerifC20Reconnect"],
            "params": {"quick": {"L": 2, "M": 3, "P": 1}, "thorough": {"L": 3, "M": 5, "P": 2}},
            "covers": {"VerifC20ChannelID": ["symmetric", "distinct"], "VerifC20Monitor": ["monitored", "channel-with-self"], "VerifC20ConnectRace": ["connected"], "VerifC20Reconnect": ["first-context-ended", "reconnected"]},
        }, {
            "cross_solvers": ["cvc5", "z3-new"], "pkg": DC, "funcs": ["VerifC20FrameRoundTrip", "VerifC12RawFrame", "VerifC20Factory"],
            "params": {"quick": {"L": 3, "B": 11}, "thorough": {"L": 6, "B": 12}},
            "flags": {"alloc-bound": 16},
            "covers": {"VerifC20FrameRoundTrip": ["received"], "VerifC12RawFrame": ["handled", "complete-frame", "incomplete-frame"], "VerifC20Factory": ["delivered", "closed"]},
        }, {
            "cross_solvers": ["cvc5", "z3-new"], "pkg": RAW, "funcs": ["VerifC20RawPeers", "VerifC20RawMessages", "VerifC20RawTopics"],
            "params": {"quick": {"E": 3, "P": 2, "M": 3}, "thorough": {"E": 5, "P": 3, "M": 5}},
            "max_paths": {"quick": 60000, "thorough": 400000},
            "covers": {"VerifC20RawPeers": ["watched"], "VerifC20RawMessages": ["drained"], "VerifC20RawTopics": ["subscribed"]},
            # libp2p-pubsub's Topic / Subscription / TopicEventHandler are concrete types: under the
            # interpreter their methods are replaced by scripted stand-ins; natively there is nothing to
            # script, so paths of this group are neither validated nor replayed natively
            "validate": False, "native_replay": False,
        }, {
            "pkg": OOO, "funcs": ["VerifC20AfterClose"],
            "covers": {"VerifC20AfterClose": ["calls-after-close-returned"]},
        }],
        "assumptions": [
            "frame reference (VerifC12RawFrame): for every byte stream of up to B bytes, a payload is delivered if and only if the uvarint length prefix is well formed, within the limit and all announced bytes arrived before the stream ended; the payload is then exactly those bytes, attributed to the remote peer of the stream",
            "lifecycle of the pairwise channel object (VerifC20AfterClose): Connect, a payload delivered, Close, then any two of Connect / Send / Close: every call returns, nothing is delivered after Close, no monitor is left (the scripted subscription's Close makes a pending Next return, as the real one)",
            "membership: every sequence of S duplicate-free snapshots over P peers whose ids are symbolic pairwise-distinct strings, returned by a scripted coreiface PubSub().Peers()",
            "messages: M scripted messages, each from the local peer or a remote one, 1 symbolic byte body; the real WatchMessages / monitorTopic goroutines run in the interpreter",
            "pairwise channel registration: two overlapping Connect calls for the same peer under every schedule with at most P preemptions (the subscribe call is a preemption point); timers run on virtual time (they fire only when nothing else can run)",
            "channel names: peer ids are symbolic strings of length L without '/'; sort.Slice is a stable insertion sort over the real less closure",
            "polling loop: the real WatchPeers goroutine (one poll per interval on VIRTUAL time) over every sequence of S snapshots of P peers, per-peer transition sequences compared; two watchers on one topic of which one is cancelled at once / after the first event / never (every change still reported exactly once over both); a TRANSIENT error of the underlying Peers() at any poll, after which the membership keeps changing and finally stays put, the watch being ended from outside (whether the watcher gives up at the error or goes on, what it reports per peer is a prefix of that peer's real transitions); topic reuse, Publish, Peers; public construction path of the direct channel (InitDirectChannelFactory / NewChannel: stream handler registered under the protocol id, frame through that handler, Close removes the handler and closes the emitter)",
            "subscription lifetime: Connect with a caller's context, that context ends while the channel object lives on, Connect again: 1..2 later payloads of the remote peer are delivered exactly once; Close ends every monitor",
            "frames: payloads of 0..L symbolic bytes through the real Send -> varint -> handleNewPeer path over a byte-pipe stream stub; plus ANY raw stream of 0..B bytes",
            "pubsubraw adapter: the real NewPubSub / TopicSubscribe / WatchPeers / WatchMessages / Publish / Peers over scripted stand-ins for libp2p-pubsub's concrete Topic, TopicEventHandler and Subscription (methods replaced by name; NextPeerEvent / Next return the next scripted item or block until the context ends): every sequence of up to E join/leave events over P peers, every sequence of up to M messages each from the local peer or a remote one with 0..2 symbolic bytes; a violation in this group is reported on the interpreter's execution alone (confirmation: interpreter-only)",
        ],
        "outside": ["snapshots containing duplicates (assumed sets, as libp2p returns)", "third-party senders on a pairwise topic", "real stream I/O errors", "libp2p-pubsub internals behind the pubsubraw adapter (gossip, validation, real subscription buffers)", "payloads longer than the bound / up to the 4 MiB limit (the limit comparison itself is covered symbolically by VerifC12RawFrame)"],
    },
    "C12": {
        "groups": [{
            "cross_solvers": ["cvc5", "z3-new"], "pkg": DC, "funcs": ["VerifC12RawFrame"],
            "params": {"quick": {"B": 11}, "thorough": {"B": 12}},
            "flags": {"alloc-bound": 16},
            "covers": {"VerifC12RawFrame": ["handled", "complete-frame", "incomplete-frame"]},
        }, {
            "pkg": BS, "funcs": ["VerifC12Heads"],
            "params": {"quick": {"H": 1}, "thorough": {"H": 2}},
            "max_paths": {"quick": 60000, "thorough": 400000},
            "covers": {"VerifC12Heads": ["malformed-handled", "burst", "valid-sent"]},
        }, {
            "pkg": ODB, "funcs": ["VerifSysMalformed"],
            "params": {"quick": {"H": 1}, "thorough": {"H": 1}},
            "max_paths": {"quick": 60000, "thorough": 400000},
            "timeout": {"quick": "10m", "thorough": "60m"},
            "covers": {"VerifSysMalformed": ["raw-bytes", "ill-typed", "malformed-heads", "misrouted-valid-head", "foreign-head-for-A", "via-direct-channel", "via-topic-A", "via-topic-B", "burst", "valid-after", "address-of-a-failed-open", "ill-typed-with-heads"]},
        }, {
            "pkg": BS, "funcs": ["VerifC12RepeatedHeads"],
            "params": {"quick": {"R": 20}, "thorough": {"R": 40}},
            "covers": {"VerifC12RepeatedHeads": ["one-head-repeated", "many-distinct-heads", "abusive-message-handled", "with-tampered-heads"]},
        }],
        "assumptions": [
            "raw payload length (VerifSysMalformed): the raw-bytes message has every length 0..3 (a decision) and symbolic bytes",
            "an ILL-TYPED message that still carries well-formed head objects (a number where the address belongs, a head with next / refs links), followed by the honest relay whose head has no links: nothing of the first may stick to the decoding of the second",
            "the abusive message may also hold tampered copies (first / last / all of its heads): Sync still returns, nothing tampered is merged, later valid traffic is handled",
            "well-formed abusive heads messages (VerifC12RepeatedHeads): one genuine head listed R times, or R distinct genuine heads of one chain, in ONE message; Sync returns, each entry is merged once, a later valid message is handled",
            "raw direct-channel stream = ANY byte string of length 0..B (every byte symbolic): every varint incl. 10-byte overflowing ones and every declared length; real bufio.Reader, binary.ReadUvarint, io.ReadFull are interpreted",
            "declared lengths above 16 are explored up to the size check and the allocation only (recorded cut); every allocation sized by the declared length is an assertion `size <= DelimitedReadMaxSize` decided by the solver over all prefixes (vstub.AllocLimit), replayed natively by measuring the bytes allocated",
            "head-exchange message: json.Unmarshal over-approximated by ANY value of the message type: 1..H heads, each null or an entry with identity (absent / without signatures / complete, naming a writer), clock (absent / any 64-bit time), hash, next, key+sig independently absent or present; delivered on the store's topic of a replica built by the real InitBaseStore; afterwards a valid head (real ipfs-log Append by a second device of the writer) must still replicate through the real replicator, fetcher, Join",
            "stub IO mirrors the nil-dereferences of the real CBOR IO (ToJsonableLamportClock / ToJsonableIdentitySignature), confirmed natively against the real IO",
            "pacing: the valid message arrives after the malformed one was handled, or in the same burst right behind / right before it (both waiting in the channel buffer)",
            "a heads message may also name the address of a database whose OPEN FAILED on the receiving instance (store constructor error): it is not open, the message is to be dropped and later traffic handled",
            "instance level (VerifSysMalformed): a real orbitDB instance with two databases receives on its direct channel (real monitorDirectChannel -> getStore -> handleEventExchangeHeads) or on either database's topic a payload that is raw bytes, ill-typed JSON, a message addressed to database A / B / the empty address / an unknown address / 2 symbolic bytes with malformed heads, or a VALID head of A in a message naming B; alone or in one burst with an honest message; afterwards a head exchange on join and an announcement must still be handled",
        ],
        "outside": ["panics inside encoding/json, libp2p or cbor themselves", "byte-level JSON mutations (covered through their decode result only)"],
    },
    "C06": {
        "groups": [{
            "cross_solvers": ["cvc5", "z3-new"], "pkg": KV, "funcs": ["VerifC06Replay"],
            "params": {"quick": {"N": 3}, "thorough": {"N": 4}},
            "max_paths": {"quick": 60000, "thorough": 400000},
            "timeout": {"quick": "10m", "thorough": "40m"},
            "covers": {"VerifC06Replay": ["replayed", "caller-edited-the-map"]},
        }, {
            "cross_solvers": ["cvc5", "z3-new"], "pkg": KV, "funcs": ["VerifC06ClockOrder"],
            "covers": {"VerifC06ClockOrder": ["two-writers", "causal-successor"]},
        }, {
            "pkg": KV, "funcs": ["VerifC06SeenThenPut"],
            "params": {"quick": {"B": 2, "P": 1}, "thorough": {"B": 3, "P": 1}},
            "max_paths": {"quick": 60000, "thorough": 400000},
            "covers": {"VerifC06SeenThenPut": ["merged-while-loading", "seen"]},
        }, {
            "pkg": KV, "funcs": ["VerifC06ReadDuringWrite"],
            "max_paths": {"quick": 60000, "thorough": 400000},
            "covers": {"VerifC06ReadDuringWrite": ["put", "delete", "merge", "read-during-write"]},
        }, {
            "pkg": KV, "funcs": ["VerifC01KV"],
            "params": {"quick": {"STEPS": 3}, "thorough": {"STEPS": 4}},
            "max_paths": {"quick": 60000, "thorough": 600000},
            "timeout": {"quick": "10m", "thorough": "60m"},
            "covers": {"VerifC01KV": ["converged", "partial-load"]},
        }, {
            "pkg": KV, "funcs": ["VerifC06EdgeKeys"],
            "params": {"quick": {"N": 2}, "thorough": {"N": 3}},
            "covers": {"VerifC06EdgeKeys": ["edge-keys", "caller-reused-its-buffer"]},
        }],
        "assumptions": [
            "value ownership: the caller reuses the buffer it passed to Put; after later index updates Get still shows what was written",
            "edge keys and values through the public API (VerifC06EdgeKeys): N operations, each a Put (value non-empty / empty / nil) or a Delete of a key from {\"\", \"a\", \"a/b\", \"/\"}; after each, Get of every such key, Get of a key never written and All equal the replay of the held operations",
            "listing of N operations in log order with symbolic 1-byte keys (any collision pattern), op kind PUT/DEL, value nil / empty / 1 symbolic byte",
            "earlier index state = replay of an arbitrary sub-listing (models earlier merges of any subset)",
            "store built by the real NewOrbitDBKeyValue/InitBaseStore over stub IPFS/bus/cache; the log handed to the index is a stub exposing Values()",
            "encoding/json replaced by an idealised injective codec driven by the struct tags (omitempty honoured)",
            "clock order (VerifC06ClockOrder): two writers put the same key in entries whose Lamport times are ANY values in [1, 2^40] (symbolic; far beyond what a bounded history reaches), merged through the real Sync; the later one in the (time, writer) order wins, the listing ends with it, and a causal successor (next link, time + 1) overrides both",
            "happens-before on overlapping routes (VerifC06SeenThenPut): a restarted replica (own earlier put on the same or another key in its cache) loads from disk while the head of a replica that put key k B times later is replicated into it, every schedule with at most P preemptions; its view equals the replay of its log afterwards; whenever it then SHOWS the other replica's value and puts k again, that put wins locally and, after a head exchange, on the other replica (this harness found the index snapshot race fixed in a87e428)",
            "caller-owned results: the map returned by All() is emptied and given a foreign key by the caller; a later All() and Get must still equal the replay (mutating the BYTES of a returned value is outside: values are shared with the index on the unchanged tree, by Go convention read-only)",
            "reads during writes (VerifC06ReadDuringWrite): All and Get started at ANY visible operation of a Put / Delete / merge of a remote batch; afterwards All (twice) and Get equal the replay of the log",
        ],
        "outside": ["N beyond the bound", "keys longer than 1 byte / non-UTF-8 keys rewritten by real JSON", "histories longer than STEPS with the real ipfs-log (VerifC01KV checks view == replay of the held log after every step of a two-writer history, which includes the happens-before clause because the log order comes from the real Append/Join clocks)"],
    },
    "C07": {
        "groups": [{
            "cross_solvers": ["cvc5", "z3-new"], "pkg": DOC, "funcs": ["VerifC07Replay", "VerifC07Get", "VerifC07Query", "VerifC07Delete"],
            "params": {"quick": {"N": 2, "M": 2, "K": 1}, "thorough": {"N": 3, "M": 3, "K": 2}},
            "max_paths": {"quick": 60000, "thorough": 400000},
            "timeout": {"quick": "10m", "thorough": "40m"},
            "covers": {"VerifC07Replay": ["built"], "VerifC07Get": ["get"], "VerifC07Query": ["query"],
                       "VerifC07Delete": ["delete-live", "delete-absent"]},
        }, {
            "pkg": DOC, "funcs": ["VerifC07ReadDuringWrite"],
            "max_paths": {"quick": 60000, "thorough": 400000},
            "covers": {"VerifC07ReadDuringWrite": ["put", "put-all", "delete", "merge", "read-during-write"]},
        }, {
            "pkg": DOC, "funcs": ["VerifC07Overlap"],
            "params": {"quick": {"P": 1}, "thorough": {"P": 1}},
            "max_paths": {"quick": 60000, "thorough": 600000},
            "covers": {"VerifC07Overlap": ["load-overlaps-merge", "write-overlaps-merge", "overlapped"]},
        }, {
            "pkg": DOC, "funcs": ["VerifC01Docs"],
            "params": {"quick": {"STEPS": 2}, "thorough": {"STEPS": 2}},
            "max_paths": {"quick": 60000, "thorough": 600000},
            "covers": {"VerifC01Docs": ["put-all", "put-batch", "converged"]},
        }, {
            "pkg": DOC, "funcs": ["VerifC16ReadRace"],
            "params": {"quick": {"P": 1}, "thorough": {"P": 1}},
            "max_paths": {"quick": 60000, "thorough": 60000},
            "covers": {"VerifC16ReadRace": ["raced"]},
        }, {
            "pkg": DOC, "funcs": ["VerifC07QueryMany"],
            "covers": {"VerifC07QueryMany": ["many-documents"]},
        }],
        "assumptions": [
            "document values in the document-store harnesses are single symbolic bytes below 0x80 (vstub.NdASCII): encoding/json replaces invalid UTF-8 inside strings by U+FFFD, which the idealised JSON model does not do; values with the high bit set are outside the claim (found when a passing path with such a value disagreed in the native translator validation)",
            "reader overlapping a write (VerifC16ReadRace, document store): a reader thread (Get and Query of one document) and a writer that overwrites or deletes it, every schedule with at most P preemptions (the reader may be suspended inside its read and finish after the write); when the write event is received and once both finished, Get and Query show the new revision (or nothing after a delete)",
            "larger states (VerifC07QueryMany): a store holding M live documents, M in {3, 16, 17, 19, 23} (one more was put and deleted again); Query of everything, Query of a predicate and a partial Get return exactly the matching live documents, each once",
            "listing of N operations (PUT / DEL / PUTALL of two documents) with symbolic printable-ASCII keys without spaces, symbolic 1-byte document bodies; earlier index state from an arbitrary sub-listing",
            "Get/Query explored over index states made of M single PUTs (they are functions of the index state only)",
            "two index updates at once (VerifC07Overlap): the merge of a remote put / delete of document k overlaps the Load of the restarted replica or a local put, every schedule with at most P preemptions; at quiescence the documents equal the replay of the held log (detects the index snapshot race fixed in a87e428: 40 of 4562 schedules on the tree before the fix)",
            "public API histories (VerifC01Docs, also run under C01): two writers, STEPS steps of Put / PutAll (two documents, keys from a two-key alphabet so one key may occur twice, symbolic bodies) / PutBatch / Delete / head exchange; after every step the documents equal the replay of the held log, and the operation a PutAll wrote has one member per distinct key of the batch carrying the LAST document given for it, whatever the store held before",
            "reads during writes (VerifC07ReadDuringWrite): a reader (Query of everything, then Get) is started at ANY visible operation of a Put / PutAll / Delete or of the merge of a remote batch on a real store; after the write returned and the store is quiet, Query (asked twice) and Get return exactly the documents of the replayed log",
            "strings.ToLower/Contains/ReplaceAll replaced by byte-loop equivalents (ASCII-exact)",
            "idealised injective JSON codec",
        ],
        "outside": ["search keys containing spaces (excluded by the property)", "non-ASCII keys", "N, M, key length beyond the bounds"],
    },
    "C08": {
        "groups": [{
            "cross_solvers": ["cvc5", "z3-new"], "pkg": EL, "funcs": ["VerifC08Window"],
            "params": {"quick": {"N": 4}, "thorough": {"N": 6}},
            "covers": {"VerifC08Window": ["window-computed"]},
        }, {
            "pkg": EL, "funcs": ["VerifC01Log", "VerifC08Concurrent"],
            "params": {"quick": {"STEPS": 3, "P": 1}, "thorough": {"STEPS": 5, "P": 1}},
            "max_paths": {"quick": 60000, "thorough": 800000},
            "timeout": {"quick": "10m", "thorough": "90m"},
            "covers": {"VerifC01Log": ["converged"], "VerifC08Concurrent": ["raced"]},
        }, {
            "pkg": EL, "funcs": ["VerifC08Writers"],
            "params": {"quick": {"W": 3, "STEPS": 3}, "thorough": {"W": 3, "STEPS": 5}},
            "max_paths": {"quick": 60000, "thorough": 800000},
            "timeout": {"quick": "10m", "thorough": "90m"},
            "covers": {"VerifC08Writers": ["exchanged", "converged", "latest-with-several-heads", "bound-in-the-middle"]},
        }, {
            "pkg": EL, "funcs": ["VerifC08SortFn"],
            "covers": {"VerifC08SortFn": ["restart-load", "restart-snapshot"]},
        }],
        "assumptions": [
            "repeated bounded queries (VerifC08Writers): on every replica the same bound (the first entry it ever listed) is queried with gt / gte / lt / lte and amount 2 after every step of the history; each answer is the window of the CURRENT full listing, whatever was asked before",
            "latest-entry queries (VerifC08Writers): after every step, on every replica, the unbounded queries with amount unset, 0 or 1 (and nil options) return exactly the last entry of the full listing, also while the log has several heads",
            "sort function as an option (VerifC08SortFn): two writers opened with a SortFn whose tie-break is the opposite of the default, two concurrent pairs, head exchanges; restart + Load or restart + snapshot; the listing follows that function on every route, a restart does not change the order of listed entries, later merges keep it",
            "listing of N entries with distinct hashes; one bound kind (none/GT/GTE/LT/LTE) at every position; Amount unset or ANY 64-bit integer (symbolic)",
            "store built by the real NewOrbitDBEventLogStore/InitBaseStore over stubs; index fed through the real eventIndex.UpdateIndex",
            "order stability: two writers, STEPS steps of local Add / real head exchange in any order; after every step the previous listing is a subsequence of the new one, own entries are in write order and a new entry follows everything its writer had seen; Get by address returns the entry",
            "three writers (VerifC08Writers): STEPS steps, each a local Add on one of W=3 replicas or a real head exchange between any ordered pair; concurrent entries of three writers share Lamport times, so the writer-key tie break decides the order in several places; same per-step oracle on every replica, and identical listings after two all-to-all exchange rounds (C01)",
            "a local Add racing with the merge of a remote batch on the same replica: every schedule with at most P preemptions (switch to another runnable thread, or set the running thread aside until nothing else can run) at visible operations",
        ],
        "outside": ["two preemptions in the write-racing-a-merge harness (P=2 did not finish within 10 minutes per harness once the replication-status mutex added visible operations; registered thorough bound P=1)", "bound hashes not in the log (excluded by the property)", "two bounds at once", "N beyond the bound"],
    },
    "C19": {
        "groups": [{
            "cross_solvers": ["cvc5", "z3-new"], "pkg": BS,
            "funcs": ["VerifC19Step", "VerifC19Rest", "VerifC19History"],
            "params": {"quick": {"STEPS": 3}, "thorough": {"STEPS": 5}},
            "max_paths": {"quick": 20000, "thorough": 400000},
            "covers": {"VerifC19Step": ["max", "status"], "VerifC19Rest": ["update", "no-update"], "VerifC19History": ["history", "reloaded", "snapshot-saved", "snapshot-loaded", "fresh-from-snapshot", "loaded-while-open"]},
        }, {
            "pkg": BS, "funcs": ["VerifC19Concurrent"],
            "params": {"quick": {"W": 1, "P": 1}, "thorough": {"W": 2, "P": 1}},
            "max_paths": {"quick": 60000, "thorough": 400000},
            "covers": {"VerifC19Concurrent": ["concurrent"]},
        }, {
            "pkg": BS, "funcs": ["VerifC19Refused"],
            "covers": {"VerifC19Refused": ["announcement-refused", "nothing-fetched", "genuine-replicated"]},
        }, {
            "pkg": ODB, "funcs": ["VerifSysTwoDBs"],
            "params": {"quick": {"N": 2}, "thorough": {"N": 3}},
            "covers": {"VerifSysTwoDBs": ["healed"]},
        }, {
            # translator validation of the engine's library models (not a property of the
            # repository): the same function runs natively and the observable traces must agree
            "cross_solvers": ["cvc5", "z3-new"], "pkg": EV, "funcs": ["VerifEngineSelfTest", "VerifEngineSelfTest2"],
            "covers": {"VerifEngineSelfTest": ["self-tested"], "VerifEngineSelfTest2": ["self-tested"]},
        }],
        "assumptions": [
            "refused announcement (VerifC19Refused): a genuine newer head and a copy whose content does not hash to its address in one Sync call, either order, after 0..2 replicated entries and an optional own write: nothing is fetched, the at-rest status clause still holds; the genuine head alone then replicates",
            "concurrent updates (VerifC19Concurrent): W local writes and the replication of a remote writer's two-entry chain (concurrent to, or continuing, the local history) run at the same time on one store, every schedule with at most P preemptions; progress and maximum are sampled when all calls have returned and at quiescence (never lower than before), and the at-rest clause is checked at quiescence (this harness found the lost-update race fixed in 011957e: 8 of 2091 schedules on the tree before the fix)",
            "history steps also include a Load on the OPEN store from its own disk (everything, or the 1..2 most recent entries); after a load that trimmed the log only the never-decrease clause is checked on that store (its log is no longer complete)",
            "inductive step: pre-state is ANY (progress, max, log length) with 0 <= progress <= max < 2^62, 0 <= length < 2^62; argument 0 <= x < 2^62",
            "entry points encoded: recalculateReplicationMax (main loop EventLoadAdded, LoadFromSnapshot) and recalculateReplicationStatus (AddOperation, Load, replicationLoadComplete, EventLoadProgress); recalculateReplicationProgress is only ever called from recalculateReplicationStatus",
            "oplog is a stub exposing only Len() (symbolic); replicationInfo is the real type",
            "history harness: two writers with concurrent branches, STEPS steps of local write / real Sync in any order / SaveSnapshot / LoadFromSnapshot into the open store (which may be ahead of the snapshot by then); the real main loop, replicator and replicationLoadComplete update the status; checked at quiescence after every step, after reopen + Load, and on a fresh store that loads the snapshot",
        ],
        "outside": ["values >= 2^62", "Reset() on Close (the property says 'while open')",
                    "that every update site passes a Lamport time / entry count (covered by reading; each site calls one of the encoded entry points)"],
    },
}

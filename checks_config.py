# Per-property check configuration: which harness functions (in which real
# package of /repo) decide the property, with the bounds per tier.
BS = "berty.tech/go-orbit-db/stores/basestore"

CHECKS = {
    "C19": {
        "groups": [{
            "pkg": BS,
            "funcs": ["VerifC19Step", "VerifC19Rest"],
            "covers": {"VerifC19Step": ["max", "status"], "VerifC19Rest": ["update", "no-update"]},
        }],
        "assumptions": [
            "inductive step: pre-state is ANY (progress, max, log length) with 0 <= progress <= max < 2^62, 0 <= length < 2^62; argument 0 <= x < 2^62",
            "entry points encoded: recalculateReplicationMax (main loop EventLoadAdded, LoadFromSnapshot) and recalculateReplicationStatus (AddOperation, Load, replicationLoadComplete, EventLoadProgress); recalculateReplicationProgress is only ever called from recalculateReplicationStatus",
            "oplog is a stub exposing only Len() (symbolic); replicationInfo is the real type",
        ],
        "outside": ["values >= 2^62", "Reset() on Close (the property says 'while open')",
                    "that every update site passes a Lamport time / entry count (covered by reading; each site calls one of the encoded entry points)"],
    },
}

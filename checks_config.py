# Per-property check configuration: which harness functions (in which real
# package of /repo) decide the property, with the bounds per tier.
BS = "berty.tech/go-orbit-db/stores/basestore"

KV = "berty.tech/go-orbit-db/stores/kvstore"
DOC = "berty.tech/go-orbit-db/stores/documentstore"
EL = "berty.tech/go-orbit-db/stores/eventlogstore"

CHECKS = {
    "C06": {
        "groups": [{
            "pkg": KV, "funcs": ["VerifC06Replay"],
            "params": {"quick": {"N": 3}, "thorough": {"N": 4}},
            "max_paths": {"quick": 60000, "thorough": 400000},
            "timeout": {"quick": "10m", "thorough": "40m"},
            "covers": {"VerifC06Replay": ["replayed"]},
        }],
        "assumptions": [
            "listing of N operations in log order with symbolic 1-byte keys (any collision pattern), op kind PUT/DEL, value nil / empty / 1 symbolic byte",
            "earlier index state = replay of an arbitrary sub-listing (models earlier merges of any subset)",
            "store built by the real NewOrbitDBKeyValue/InitBaseStore over stub IPFS/bus/cache; the log handed to the index is a stub exposing Values()",
            "encoding/json replaced by an idealised injective codec driven by the struct tags (omitempty honoured)",
        ],
        "outside": ["N beyond the bound", "keys longer than 1 byte / non-UTF-8 keys rewritten by real JSON", "the happens-before part is decided with the real ipfs-log in the C01 harnesses"],
    },
    "C07": {
        "groups": [{
            "pkg": DOC, "funcs": ["VerifC07Replay", "VerifC07Get", "VerifC07Query", "VerifC07Delete"],
            "params": {"quick": {"N": 2, "M": 2, "K": 1}, "thorough": {"N": 3, "M": 3, "K": 2}},
            "max_paths": {"quick": 60000, "thorough": 400000},
            "timeout": {"quick": "10m", "thorough": "40m"},
            "covers": {"VerifC07Replay": ["built"], "VerifC07Get": ["get"], "VerifC07Query": ["query"],
                       "VerifC07Delete": ["delete-live", "delete-absent"]},
        }],
        "assumptions": [
            "listing of N operations (PUT / DEL / PUTALL of two documents) with symbolic printable-ASCII keys without spaces, symbolic 1-byte document bodies; earlier index state from an arbitrary sub-listing",
            "Get/Query explored over index states made of M single PUTs (they are functions of the index state only)",
            "strings.ToLower/Contains/ReplaceAll replaced by byte-loop equivalents (ASCII-exact)",
            "idealised injective JSON codec",
        ],
        "outside": ["search keys containing spaces (excluded by the property)", "non-ASCII keys", "N, M, key length beyond the bounds"],
    },
    "C08": {
        "groups": [{
            "pkg": EL, "funcs": ["VerifC08Window"],
            "params": {"quick": {"N": 4}, "thorough": {"N": 6}},
            "covers": {"VerifC08Window": ["window-computed"]},
        }],
        "assumptions": [
            "listing of N entries with distinct hashes; one bound kind (none/GT/GTE/LT/LTE) at every position; Amount unset or ANY 64-bit integer (symbolic)",
            "store built by the real NewOrbitDBEventLogStore/InitBaseStore over stubs; index fed through the real eventIndex.UpdateIndex",
        ],
        "outside": ["bound hashes not in the log (excluded by the property)", "two bounds at once", "N beyond the bound"],
    },
    "C19": {
        "groups": [{
            "pkg": BS,
            "funcs": ["VerifC19Step", "VerifC19Rest"],
            "covers": {"VerifC19Step": ["max", "status"], "VerifC19Rest": ["update", "no-update"]},
        }],
        "assumptions": [
            "inductive step: pre-state is ANY (progress, max, log length) with 0 <= progress <= max < 2^62, 0 <= length < 2^62; argument 0 <= x < 2^62",
            "entry points encoded: recalculateReplicationMax (main loop EventLoadAdded, LoadFromSnapshot) and recalculateReplicationStatus (AddOperation, Load, replicationLoadComplete, EventLoadProgress); recalculateReplicationProgress is only ever called from recalculateReplicationStatus",
            "oplog is a stub exposing only Len() (symbolic); replicationInfo is the real type",
        ],
        "outside": ["values >= 2^62", "Reset() on Close (the property says 'while open')",
                    "that every update site passes a Lamport time / entry count (covered by reading; each site calls one of the encoded entry points)"],
    },
}

#!/bin/bash
# Re-confirms seeded changes (tools/confirm_seed.sh) one after the other; usage: confirm_pending.sh [seed ...]
# table: seed base demo-src demo-dst pkg run-regex
T=$(cat <<'EOF'
C01-2 809b9c4 demo/seeded_c01b_test.go.txt tests/zz_seeded_test.go ./tests/ TestSeededC01b
C02-1 b039329 demo/c02_partition_heal_test.go.txt tests/zz_seeded_test.go ./tests/ TestC02PartitionHeal
C03-1 bc0da83 demo/seeded_c03_test.go.txt tests/zz_seeded_test.go ./tests/ TestSeededC03
C04-2 bc0da83 demo/seeded_c04_test.go.txt tests/zz_seeded_test.go ./tests/ TestSeededC04
C05-2 809b9c4 demo/seeded_c05b_test.go.txt tests/zz_seeded_test.go ./tests/ TestSeededC05b
C06-1 b86d319 kv_concurrent_writers_c06_test.go tests/zz_seeded_test.go ./tests/ TestKeyValueConcurrentWritersEqualsLogReplay
C06-2 809b9c4 demo/kv_concurrent_order_test.go.txt tests/zz_seeded_test.go ./tests/ TestKeyValueConcurrentWritersSameKey
C08-2 809b9c4 demo/eventlog_window_concurrent_test.go.txt tests/zz_seeded_test.go ./tests/ TestSeededC08
C09-2 bc0da83 demo/seeded_c09_test.go.txt tests/zz_seeded_test.go ./tests/ TestSeededC09
C10-2 bc0da83 demo/seeded_c10_test.go.txt tests/zz_seeded_test.go ./tests/ TestSeededC10
C11-2 bc0da83 demo/seeded_c11_cancel_test.go.txt tests/zz_seeded_test.go ./tests/ TestSeededC11
C13-2 809b9c4 demo/seeded_c13_snapshot_test.go.txt tests/zz_seeded_test.go ./tests/ TestSeededC13
C14-2 809b9c4 demo/c14_name_collision_test.go.txt tests/zz_seeded_test.go ./tests/ TestC14DistinctNames
C15-1 bc0da83 demo/c15_load_limit_multihead_test.go.txt tests/zz_seeded_test.go ./tests/ TestC15LoadLimit
C16-1 b039329 demo/events/events_stalled_order_test.go events/zz_seeded_test.go ./events/ TestStalledSubscriberKeepsEmissionOrder
C16-2 809b9c4 demo/seeded_c16b_test.go.txt tests/zz_seeded_test.go ./tests/ TestSeededC16b
C17-1 bc0da83 demo/seeded_c17_test.go.txt tests/zz_seeded_test.go ./tests/ TestSeededC17
C20-2 809b9c4 demo/seeded_c20b_oneonone_test.go.txt tests/zz_seeded_test.go ./tests/ TestSeededC20b
EOF
)
echo "$T" | while read seed base src dst pkg run; do
  if [ $# -gt 0 ]; then case " $* " in *" $seed "*) ;; *) continue;; esac; fi
  /verif/tools/confirm_seed.sh $seed $base $src $dst $pkg $run
done

#!/usr/bin/env python3
"""Regenerates MANIFEST.json from checks_config.CHECKS + manifest_meta.py."""
import json, os, sys
V = os.path.dirname(os.path.dirname(os.path.abspath(__file__)))
sys.path.insert(0, V)
from checks_config import CHECKS
from manifest_meta import META, NOT_APPLICABLE, HOOK_COMMITS
props = [json.loads(l) for l in open(os.path.join(V, "properties.jsonl"))]
checks = []
for p in props:
    pid = p["id"]
    if pid not in CHECKS:
        continue
    m = META[pid]
    checks.append({
        "property_id": pid,
        "quick_cmd": "./check %s --tier quick" % pid,
        "thorough_cmd": "./check %s --tier thorough" % pid,
        "evidence_file": "/verif/evidence/%s.json" % pid,
        "replay_cmd_template": "./check %s --replay {path}" % pid,
        "engine": "gosym",
        "level_claimed": {"category": "model_checking", "text": m["text"], "design_ref": m["design_ref"]},
        "level_note": m["note"],
        "technique": m.get("technique", "bounded symbolic execution of the real go/ssa code, SMT (z3) decides every assertion; counterexamples replayed natively"),
    })
na = [{"property_id": p["id"], "reason": NOT_APPLICABLE.get(p["id"], "check not built yet in this session; no claim is made")}
      for p in props if p["id"] not in CHECKS]
man = {
    "version": 1,
    "setup_cmd": "cd /verif/gosym && GOFLAGS=-mod=mod GOPROXY=off GOSUMDB=off GOTOOLCHAIN=local go build -o /verif/bin/gosym . && cd /repo && GOFLAGS=-mod=mod GOPROXY=off GOSUMDB=off GOTOOLCHAIN=local go build ./... ",
    "hooks": {"guard": "verif", "enable": "none needed: harnesses are injected with go/packages and `go test -overlay` (files live in /verif/harness); no source in /repo is tagged",
              "baseline_off_cmd": "/verif/tools/run_baseline.sh /repo", "source_commits": HOOK_COMMITS, "add_only": True},
    "engines": [{"name": "gosym", "path": "/verif/gosym", "serves_properties": sorted(CHECKS.keys()),
                 "kind_free_text": "symbolic interpreter for go/ssa (x/tools v0.29.0) with fork-by-re-execution; z3 -in per worker; native replay via go test -overlay"}],
    "checks": checks,
    "notes": "Exit 2 + INCONCLUSIVE is used for anything undecided (solver unknown, unwind failure, unmodelled call, harness no longer type-checks). See DESIGN.md.",
    "not_applicable": na,
}
json.dump(man, open(os.path.join(V, "MANIFEST.json"), "w"), indent=1)
print("checks:", [c["property_id"] for c in checks], "n/a:", len(na))

#!/bin/bash
# round 13 (base 011957e) + re-runs of two seeds whose suite run hit the load-sensitive replication-status test
c(){ /verif/tools/confirm_seed.sh "$@"; }
B=011957e
c C01-8 $B demo/snapshot_route_test.go.txt tests/zz_seeded_test.go ./tests/ TestSnapshotRoute
c C05-8 $B demo/seed_c05l_identity_test.go.txt tests/zz_seeded_test.go ./tests/ TestSeedC05lIdentitySurvivesRestartWithOtherDirectorySpelling
c C06-8 $B demo/seed_c06l_emptykey_test.go.txt tests/zz_seeded_test.go ./tests/ 'TestSeedC06lEmptyKey$'
c C08-7 $B demo/c08_sortfn_load_test.go.txt tests/zz_seeded_test.go ./tests/ TestC08SortFnAfterLoad
c C12-8 $B demo/abusive_heads_message_test.go.txt tests/zz_seeded_test.go ./tests/ TestSeedC12l
c C15-7 $B demo/max_history_option_test.go.txt tests/zz_seeded_test.go ./tests/ TestMaxHistoryOptionSameAsPerCallLimit
c C17-6 $B demo/seed_c17l_test.go.txt tests/zz_seeded_test.go ./tests/ TestSeedC17l
c C20-8 $B demo/concurrent_large_send_test.go.txt pubsub/directchannel/zz_seeded_test.go ./pubsub/directchannel/ TestDemoConcurrentLargeSendsSamePeer
c C13-7 a87e428 demo/snapshot_cache_fault_test.go.txt tests/zz_seeded_test.go ./tests/ TestSeedC13kSnapshotSaveFailure
c C19-6 d77d3e0 demo/seed_c19i_limited_load_test.go.txt tests/zz_seeded_test.go ./tests/ TestSeedC19iLimitedLoadOnOpenStore

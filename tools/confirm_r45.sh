#!/bin/bash
# rounds 4 and 5 (base 36187f9) + re-runs of confirmations that hit the known flaky suite test
B=36187f9
c(){ /verif/tools/confirm_seed.sh "$@"; }
c C18-4 809b9c4 demo/close_midload_test.go.txt tests/zz_seeded_test.go ./tests/ TestSeedCloseWhileLoadBlocked
c C05-4 809b9c4 demo/seed_c05b_failed_reopen_test.go.txt tests/zz_seeded_test.go ./tests/ TestSeedC05bFailedReopenKeepsAcknowledgedWrites
c C14-4 $B demo/address_roundtrip_escape_test.go.txt tests/zz_seeded_test.go ./tests/ TestSeedAddressRoundTripEscapedNames
c C03-4 $B demo/seed_c03c_test.go.txt tests/zz_seeded_test.go ./tests/ TestSeedC03cSimpleACWriteListsStayPerDatabase
c C06-4 $B demo/seed_c06c_test.go.txt tests/zz_seeded_test.go ./tests/ TestSeedC06cEmptyValueReplay
c C12-4 $B demo/malformed_then_valid_test.go.txt messagemarshaler/zz_seeded_test.go ./messagemarshaler/ TestC12MalformedMessageDoesNotWedgeLaterValidMessages
c C20-4 $B demo/reconnect_demo_test.go.txt pubsub/oneonone/zz_seeded_test.go ./pubsub/oneonone/ TestOneOnOneReconnectAfterConnectContextCancelled
c C18-5 $B demo/close_ack_reopen_test.go.txt tests/zz_seeded_test.go ./tests/ TestCloseAckReopen
c C07-4 $B demo/seed_c07c_query_test.go.txt tests/zz_seeded_test.go ./tests/ TestSeedC07cQueryWhileWriting
c C16-4 $B demo/legacy_wakeup_demo_test.go.txt events/zz_seeded_test.go ./events/ TestLegacySubscriberGetsEveryEventWithoutFurtherEmission
c C08-4 $B demo/eventlog_window_seed_test.go.txt tests/zz_seeded_test.go ./tests/ TestSeedEventLogWindows
c C15-4 $B demo/c15d_load_limit_heads_test.go.txt tests/zz_seeded_test.go ./tests/ TestC15dLoadLimitSeveralHeads
c C09-4 $B demo/c09d_idle_store_isolation_test.go.txt tests/zz_seeded_test.go ./tests/ TestC09dIdleStoreUnaffectedByOtherStoreReplication
c C11-4 $B demo/cancelled_sync_wedge_test.go.txt tests/zz_seeded_test.go ./tests/ TestCancelledSyncDoesNotWedgeLaterSync
c C04-4 $B demo/c04d_alias_head_test.go.txt tests/zz_seeded_test.go ./tests/ TestC04dHeadAnnouncedUnderForeignAddress
c C19-4 $B demo/seed_c19d_multiwriter_status_test.go.txt tests/zz_seeded_test.go ./tests/ TestSeedC19dMultiWriter
c C13-4 $B demo/snapshot_queue_reload_test.go.txt tests/zz_seeded_test.go ./tests/ TestSnapshotSavedDuringReplicationReloads
c C10-4 $B demo/c10d_rejected_first_test.go.txt tests/zz_seeded_test.go ./tests/ TestC10dRejectedHeadThenHonestAnnouncements

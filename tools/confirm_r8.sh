#!/bin/bash
# round 8 (base d77d3e0) + re-run of C04-5 (round 7; its first suite run hit the load-sensitive replication-status test)
c(){ /verif/tools/confirm_seed.sh "$@"; }
c C04-5 062ac51 demo/seed_c04f_foreign_ref_trim_test.go.txt tests/zz_seeded_test.go ./tests/ TestSeedC04fForeignRefSurvivesTrimmedLoad
B=d77d3e0
c C02-6 $B demo/c02g_heal_exchange_test.go.txt tests/zz_seeded_test.go ./tests/ TestC02gHeadsReachPeerAfterHeal
c C09-6 $B demo/seed_c09g_shared_options_test.go.txt tests/zz_seeded_test.go ./tests/ TestSeedC09gTwoDatabasesOneOptionsValue
c C10-5 $B demo/c10g_refused_head_memo_test.go.txt tests/zz_seeded_test.go ./tests/ TestC10gRefusedHeadDoesNotBlockValidHead
c C11-5 $B demo/c11g_cancel_then_newer_heads_test.go.txt tests/zz_seeded_test.go ./tests/ TestC11gCancelledSyncThenNewerHeads
c C12-6 $B demo/truncated_frames_test.go.txt pubsub/directchannel/zz_seeded_test.go ./pubsub/directchannel/ TestTruncatedFramesDoNotStopLaterFrames
c C15-5 $B demo/seed_c15g_load_all_test.go.txt tests/zz_seeded_test.go ./tests/ TestSeedC15gLoadEverythingWithLocalAndRemoteHeads
c C17-5 $B demo/seed_c17g_concurrent_view_test.go.txt tests/zz_seeded_test.go ./tests/ TestSeedC17g
c C19-5 $B demo/replication_status_branches_test.go.txt tests/zz_seeded_test.go ./tests/ TestReplicationStatusConcurrentBranches

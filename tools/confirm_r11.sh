#!/bin/bash
# round 11 (base d77d3e0)
c(){ /verif/tools/confirm_seed.sh "$@"; }
B=d77d3e0
c C01-7 $B demo/seed_c01j_overlap_test.go.txt tests/zz_seeded_test.go ./tests/ TestSeedC01jAnnouncedHeadOverlapsLoadedLog
c C05-7 $B demo/crash_burst_write_test.go.txt tests/zz_seeded_test.go ./tests/ TestCrashAfterAcknowledgedWriteInBurst
c C06-7 $B demo/c06j_load_replication_test.go.txt tests/zz_seeded_test.go ./tests/ TestC06jPutAfterReplicationDuringLoad
c C07-7 $B demo/seed_c07j_putall_test.go.txt tests/zz_seeded_test.go ./tests/ TestSeedC07j
c C10-6 $B demo/seed_c10j_test.go.txt tests/zz_seeded_test.go ./tests/ TestSeedC10j
c C14-7 $B demo/seed_c14j_create_directory_test.go.txt tests/zz_seeded_test.go ./tests/ TestSeedC14jCreateOverExistingWithDirectoryOption
c C16-7 $B demo/slow_subscriber_order_test.go.txt tests/zz_seeded_test.go ./tests/ TestSlowSubscriberSeesWritesInOrder
c C20-7 $B demo/selfecho_demo_test.go.txt pubsub/oneonone/zz_seeded_test.go ./pubsub/oneonone/ TestDemoNoSelfDelivery

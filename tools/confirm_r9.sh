#!/bin/bash
# round 9 (base d77d3e0) + re-run of C17-5 (its first suite run hit the load-sensitive replication-status test)
c(){ /verif/tools/confirm_seed.sh "$@"; }
B=d77d3e0
c C17-5 $B demo/seed_c17g_concurrent_view_test.go.txt tests/zz_seeded_test.go ./tests/ TestSeedC17g
c C01-6 $B demo/seed_c01h_view_routes_test.go.txt tests/zz_seeded_test.go ./tests/ TestSeedC01hViewAcrossRoutes
c C05-6 $B demo/seed_c05h_clean_close_test.go.txt tests/zz_seeded_test.go ./tests/ TestSeedC05h
c C06-6 $B demo/kv_all_alias_test.go.txt tests/zz_seeded_test.go ./tests/ TestSeedC06KVAllIsDetachedFromIndex
c C07-6 $B demo/docs_casefold_get_test.go.txt tests/zz_seeded_test.go ./tests/ TestDocsGetCaseInsensitiveSiblings
c C14-6 $B demo/seed_c14h_address_test.go.txt tests/zz_seeded_test.go ./tests/ TestSeedC14h
c C16-6 $B demo/seed_c16h_event_ahead_of_index_test.go.txt tests/zz_seeded_test.go ./tests/ TestSeedC16hEventAheadOfIndex
c C18-7 $B demo/closed_instance_test.go.txt tests/zz_seeded_test.go ./tests/ TestSeedC18
c C20-6 $B demo/seed_c20h_test.go.txt pubsub/pubsubcoreapi/zz_seeded_test.go ./pubsub/pubsubcoreapi/ TestSeedC20hWatchPeersAfterPollError

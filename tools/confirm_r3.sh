#!/bin/bash
# Round-3 seeds (all based on 809b9c4): seed demo-file run-regex ; usage: confirm_r3.sh [seed ...]
T=$(cat <<'EOF'
C01-2 seeded_c01b_test.go.txt TestSeededC01b
C05-2 seeded_c05b_test.go.txt TestSeededC05b
C14-3 seed_c14_localonly_test.go.txt TestSeedC14
C12-3 seed_c12_burst_test.go.txt TestSeedC12
C03-3 seed_c03_shared_ac_test.go.txt TestSeedC03ManifestLessWriteListsStayPerDatabase
C10-3 c10_mixed_batch_test.go.txt TestC10MixedBatchForgedHeadFirst
C01-3 seed_c01_loadmore_test.go.txt TestSeedC01SameEntriesSameDocuments
C02-3 seed_c02_restart_test.go.txt TestSeedC02ReplicaRestartGetsHeadsAgain
C09-3 seed_c09_exchange_heads_test.go.txt TestSeedC09ExchangedHeadsStayWithTheirDatabase
C07-3 docs_caseget_seed_test.go.txt TestSeedC07DocsGetCaseVariants
C06-3 kv_concurrent_replay_test.go.txt TestKVConcurrentWritersReplay
C15-3 c15_limit_heads_test.go.txt TestC15LimitWithReplicatedHeads
C08-3 seed_c08_order_stability_test.go.txt TestSeedC08OrderStability
C16-3 seed_c16_replicated_slow_reader_test.go.txt TestSeedC16ReplicatedSlowReader
C04-3 seed_c04_foreign_chain_test.go.txt TestSeedC04ForeignChainNeverMerged
C13-3 snapshot_midsave_test.go.txt TestSnapshotSavedWhileLogGrows
EOF
)
echo "$T" | while read seed demo run; do
  if [ $# -gt 0 ]; then case " $* " in *" $seed "*) ;; *) continue;; esac; fi
  /verif/tools/confirm_seed.sh $seed 809b9c4 demo/$demo tests/zz_seeded_test.go ./tests/ $run
done
# wave 3 (appended): different demo destinations handled explicitly
if [ $# -eq 0 ] || [ "$1" = "wave3" ]; then
for row in "C01-3 seed_c01_loadmore_test.go.txt TestSeedC01SameEntriesSameDocuments" \
 "C11-3 c11_timeouts_test.go.txt TestC11LoadTimeoutsDoNotWedgeReplication" \
 "C01-4 seed_c01b_docs_converge_test.go.txt TestSeedC01bDocsConvergeOnConcurrentPut" \
 "C19-3 c19_snapshot_status_test.go.txt TestC19SnapshotReloadStatus" \
 "C18-3 seed_c18_close_after_cancel_test.go.txt TestSeedC18CloseAfterParentContextCancelled" \
 "C18-4 close_midload_test.go.txt TestSeedCloseWhileLoadBlocked" \
 "C17-3 c17_concurrent_writers_restart_test.go.txt TestC17ConcurrentWritersSurviveRestart" \
 "C02-4 c02b_reexchange_demo_test.go.txt TestC02bHeadsResentOnRejoin" \
 "C05-4 seed_c05b_failed_reopen_test.go.txt TestSeedC05bFailedReopenKeepsAcknowledgedWrites"; do
  set -- $row
  /verif/tools/confirm_seed.sh $1 809b9c4 demo/$2 tests/zz_seeded_test.go ./tests/ $3
done
/verif/tools/confirm_seed.sh C20-3 809b9c4 demo/concurrent_connect_test.go.txt pubsub/oneonone/zz_seeded_test.go ./pubsub/oneonone/ TestOneOnOneConcurrentConnectDeliversOnce
fi

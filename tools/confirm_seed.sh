#!/bin/bash
# usage: confirm_seed.sh <seed-name> <base-commit> <demo-src-rel> <demo-dst-rel> <go test pkg> <go test -run regex> [extra go test flags]
# Confirms a seeded change in a scratch worktree OUTSIDE /repo and /verif:
#   1. patch applies to <base-commit>; 2. go build; 3. the full pinned suite passes with the patch;
#   4. the demonstration FAILS with the patch; 5. the demonstration PASSES without it.
# Prints one summary line and writes /verif/seeded/<seed>/confirm.log. The worktree is removed afterwards.
set -u
SEED=$1; BASE=$2; DSRC=$3; DDST=$4; PKG=$5; RUN=$6; shift 6; EXTRA="$@"
SD=/verif/seeded/$SEED
WT=/tmp/confirm-$SEED
export GOFLAGS=-mod=mod GOPROXY=off GOSUMDB=off GOTOOLCHAIN=local
LOG=$SD/confirm.log; : > $LOG
git -C /repo worktree remove --force $WT >/dev/null 2>&1
git -C /repo worktree add --detach $WT $BASE >>$LOG 2>&1 || { echo "$SEED: worktree failed"; exit 1; }
cd $WT
res_apply=no; res_build=no; res_suite=no; res_demo_with=unknown; res_demo_without=unknown
if git apply $SD/patch.diff >>$LOG 2>&1; then res_apply=yes; fi
if [ $res_apply = yes ] && go build ./... >>$LOG 2>&1; then res_build=yes; fi
if [ $res_build = yes ]; then
  if /verif/tools/run_baseline.sh $WT >>$LOG 2>&1; then res_suite=pass; else res_suite=FAIL; fi
  cp $SD/$DSRC $WT/$DDST
  if go test -vet=off -count=1 -timeout 15m $EXTRA -run "$RUN" $PKG >>$LOG 2>&1; then res_demo_with=PASS; else res_demo_with=fail; fi
  rm -f $WT/$DDST
  git apply -R $SD/patch.diff >>$LOG 2>&1
  cp $SD/$DSRC $WT/$DDST
  if go test -vet=off -count=1 -timeout 15m $EXTRA -run "$RUN" $PKG >>$LOG 2>&1; then res_demo_without=pass; else res_demo_without=FAIL; fi
fi
cd /; git -C /repo worktree remove --force $WT >/dev/null 2>&1
echo "$SEED base=$BASE apply=$res_apply build=$res_build suite_with_patch=$res_suite demo_with_patch=$res_demo_with demo_without_patch=$res_demo_without" | tee -a $LOG

#!/bin/bash
# round 17 (base 011957e) + re-runs of two seeds whose suite run hit load-sensitive tests
c(){ /verif/tools/confirm_seed.sh "$@"; }
B=011957e
c C02-9 $B demo/c02q_restart_exchange_test.go.txt tests/zz_seeded_test.go ./tests/ TestC02qRestartedWriterOffersItsHeads
c C05-10 $B demo/seed_c05q_shared_options_test.go.txt tests/zz_seeded_test.go ./tests/ TestSeedC05qSharedOptionsRestart
c C09-10 $B demo/seed_c09q_same_manifest_test.go.txt tests/zz_seeded_test.go ./tests/ TestSeedC09qSameManifestDatabases
c C10-9 $B demo/c10q_failed_link_flush_test.go.txt tests/zz_seeded_test.go ./tests/ TestC10qValidHeadNextToAbusiveChain
c C12-10 $B demo/c12q_leftover_heads_test.go.txt tests/zz_seeded_test.go ./tests/ TestC12qValidAnnouncementAfterIllTypedOne
c C14-10 $B demo/c14q_writer_order_test.go.txt tests/zz_seeded_test.go ./tests/ TestC14qAddressDoesNotDependOnEarlierCalls
c C16-10 $B demo/seed_c16q_foreign_announce_test.go.txt tests/zz_seeded_test.go ./tests/ TestSeedC16q
c C18-10 $B demo/close_head_exchange_test.go.txt tests/zz_seeded_test.go ./tests/ TestCloseStoreEndsPendingHeadExchange
c C09-9 $B demo/c09p_exchange_heads_test.go.txt tests/zz_seeded_test.go ./tests/ TestC09pExchangedHeadsBelongToTheAnnouncedDatabase
c C19-7 $B demo/seed_c19m_load_status_test.go.txt tests/zz_seeded_test.go ./tests/ TestSeedC19mLoadStatusTwoWriters

#!/bin/bash
# round 21 (base 011957e)
c(){ /verif/tools/confirm_seed.sh "$@"; }
B=011957e
c C12-12 $B demo/seed_c12u_overflow_prefix_test.go.txt pubsub/directchannel/zz_seeded_test.go ./pubsub/directchannel/ TestSeedC12u
c C17-9 $B demo/seed_c17u_same_payload_test.go.txt tests/zz_seeded_test.go ./tests/ TestSeedC17uConcurrentIdenticalWrites
c C14-12 $B demo/seed_c14u_test.go.txt tests/zz_seeded_test.go ./tests/ TestSeedC14uWriteListAfterAnotherOne
c C05-12 $B demo/seed_c05u_close_write_test.go.txt tests/zz_seeded_test.go ./tests/ TestSeedC05uWritesOverlappingClose
c C02-11 $B demo/seed_c02u_test.go.txt tests/zz_seeded_test.go ./tests/ TestSeedC02u
c C09-12 $B demo/seed_c09u_test.go.txt tests/zz_seeded_test.go ./tests/ TestSeedC09u

#!/bin/bash
# runs every property's thorough tier once (from wherever this copy of /verif lives) and prints one line each
V=$(cd "$(dirname "$0")/.."; pwd); cd $V
for p in ${@:-C19 C04 C10 C13 C17 C03 C07 C20 C12 C05 C14 C11 C06 C08 C15 C02 C09 C16 C18 C01}; do
  t0=$(date +%s); timeout 3h ./check $p --tier thorough > /tmp/thorough_$p.out 2>&1; rc=$?
  echo "$p thorough exit=$rc wall=$(( $(date +%s)-t0 ))s :: $(grep -E '^(OK|VIOLATION|INCONCLUSIVE)' /tmp/thorough_$p.out | head -3 | tr '\n' ' ')"
done

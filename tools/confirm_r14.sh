#!/bin/bash
# round 14 (base 011957e)
c(){ /verif/tools/confirm_seed.sh "$@"; }
B=011957e
c C07-8 $B demo/docs_query_many_test.go.txt tests/zz_seeded_test.go ./tests/ TestDocumentsStoreQueryManyDocuments
c C09-8 $B demo/c09m_idle_store_events_test.go.txt tests/zz_seeded_test.go ./tests/ TestC09mIdleStore
c C10-7 $B demo/c10m_forged_author_batch_test.go.txt tests/zz_seeded_test.go ./tests/ TestC10mForgedAuthorInBatchDoesNotHideHonestEntries
c C11-7 $B demo/late_provider_test.go.txt tests/zz_seeded_test.go ./tests/ TestSyncAfterLateProvider
c C14-8 $B demo/seed_c14m_reused_options_test.go.txt tests/zz_seeded_test.go ./tests/ TestSeedC14mOpenWithReusedOptions
c C16-9 $B demo/seed_c16m_replicated_content_test.go.txt tests/zz_seeded_test.go ./tests/ TestSeedC16mReplicatedEventListsOnlyMergedEntries
c C18-9 $B demo/close_during_open_test.go.txt tests/zz_seeded_test.go ./tests/ TestCloseInstanceWhileStoreConstructorRuns
c C19-7 $B demo/seed_c19m_load_status_test.go.txt tests/zz_seeded_test.go ./tests/ TestSeedC19mLoadStatusTwoWriters

#!/bin/bash
# round 18 (base 011957e) + re-runs of two seeds whose suite run hit load-sensitive tests
c(){ /verif/tools/confirm_seed.sh "$@"; }
B=011957e
c C13-9 $B demo/snapshot_large_file_test.go.txt tests/zz_seeded_test.go ./tests/ TestSeedSnapshotLargerThanOneBlockReloads
c C07-9 $B demo/docs_replicated_overwrite_test.go.txt tests/zz_seeded_test.go ./tests/ TestDocsReplicatedOverwriteAfterRead
c C08-9 $B demo/latest_entry_forked_log_test.go.txt tests/zz_seeded_test.go ./tests/ TestSeedC08LatestEntryOnForkedLog
c C11-8 $B demo/c11_load_end_after_aborted_fetch_test.go.txt tests/zz_seeded_test.go ./tests/ TestC11LoadEndAfterAbortedFetch
c C03-9 $B demo/spoofed_head_hash_test.go.txt tests/zz_seeded_test.go ./tests/ TestSeedC03SpoofedHeadHash
c C04-9 $B demo/seed_c04r_snapshot_tampered_ancestor_test.go.txt tests/zz_seeded_test.go ./tests/ TestSeedC04rSnapshotTamperedAncestor
c C06-10 $B demo/kv_reput_after_delete_test.go.txt tests/zz_seeded_test.go ./tests/ TestSeedKVReputAfterDelete
c C01-10 $B demo/seed_c01r_putall_test.go.txt tests/zz_seeded_test.go ./tests/ TestSeedC01rPutAllThenOverwrite
c C09-9 $B demo/c09p_exchange_heads_test.go.txt tests/zz_seeded_test.go ./tests/ TestC09pExchangedHeadsBelongToTheAnnouncedDatabase
c C19-7 $B demo/seed_c19m_load_status_test.go.txt tests/zz_seeded_test.go ./tests/ TestSeedC19mLoadStatusTwoWriters

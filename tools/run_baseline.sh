#!/bin/bash
# Runs the repository's pinned test suite (guard OFF: no build tags, no overlay) and
# compares the passing tests with /root/.vp/BASELINE.json's stable_pass list.
# usage: run_baseline.sh [repo-dir] ; exit 0 iff every baseline test passes.
REPO=${1:-/repo}
export GOFLAGS=-mod=mod GOPROXY=off GOSUMDB=off GOTOOLCHAIN=local
OUT=$(mktemp /tmp/baseline.XXXXXX.json)
(cd "$REPO" && go test -json -vet=off -count=1 -timeout 25m ./... > "$OUT" 2>/dev/null)
python3 - "$OUT" <<'PY'
import json,sys
passed=set(); failed=set()
for line in open(sys.argv[1]):
    try: e=json.loads(line)
    except Exception: continue
    if e.get('Test') and e.get('Action') in ('pass','fail'):
        k=e['Package']+'::'+e['Test']
        (passed if e['Action']=='pass' else failed).add(k)
base=set(json.load(open('/root/.vp/BASELINE.json'))['stable_pass'])
missing=sorted(base-passed)
print("baseline=%d passed=%d failed=%d missing_from_pass=%d"%(len(base),len(passed&base),len(failed),len(missing)))
for m in missing[:20]: print("  NOT PASSING:",m)
sys.exit(0 if not missing else 1)
PY
rc=$?
rm -f "$OUT"
exit $rc

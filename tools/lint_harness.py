#!/usr/bin/env python3
"""Sanity checks of the harness tree: every Verif* function is registered for native replay in
its package and every function named in checks_config.py exists."""
import re, glob, os, sys
V = os.path.dirname(os.path.dirname(os.path.abspath(__file__)))
sys.path.insert(0, V)
from checks_config import CHECKS
bad = []
allfuncs = {}
for d in set(os.path.dirname(f) for f in glob.glob(V + '/harness/**/*.go', recursive=True)) | {V + '/harness'}:
    if os.path.basename(d).startswith('vstub'):
        continue
    src = "".join(open(f).read() for f in glob.glob(d + '/*.go'))
    if not src:
        continue
    funcs = set(re.findall(r'^func (Verif\w+)\(\)', src, re.M))
    reg = set(re.findall(r'"(Verif\w+)"\s*[:\]]', src))
    for f in funcs - reg:
        bad.append("not registered for native replay: %s in %s" % (f, d))
    relp = os.path.relpath(d, V + '/harness')
    allfuncs["berty.tech/go-orbit-db" + ("" if relp == "." else "/" + relp)] = funcs
for pid, cfg in CHECKS.items():
    for g in cfg["groups"]:
        for f in g["funcs"]:
            if f not in allfuncs.get(g["pkg"], set()):
                bad.append("%s: %s not found in %s" % (pid, f, g["pkg"]))
        for f in g.get("covers", {}):
            if f not in g["funcs"]:
                bad.append("%s: covers for %s which is not in the group" % (pid, f))
for b in bad:
    print(b)
sys.exit(1 if bad else 0)

#!/bin/bash
# round 10 (base d77d3e0)
c(){ /verif/tools/confirm_seed.sh "$@"; }
B=d77d3e0
c C02-7 $B demo/restart_load_sync_test.go.txt tests/zz_seeded_test.go ./tests/ TestSeedRestartLoadVsSync
c C03-6 $B demo/c03i_writelist_test.go.txt tests/zz_seeded_test.go ./tests/ TestC03iWriteListOfOpenedDatabase
c C04-6 $B demo/seed_c04i_snapshot_test.go.txt tests/zz_seeded_test.go ./tests/ TestSeedC04iSnapshotMisaddressedAncestor
c C08-6 $B demo/eventlog_window_fork_test.go.txt tests/zz_seeded_test.go ./tests/ TestSeedEventLogWindowsOnForkedLog
c C12-7 $B demo/c12i_stray_heads_test.go.txt tests/zz_seeded_test.go ./tests/ TestC12iStrayHeadsForUnopenedDatabase
c C13-6 $B demo/snapshot_fork_reload_test.go.txt tests/zz_seeded_test.go ./tests/ 'TestSnapshotForkReload$'
c C15-6 $B demo/load_sequence_test.go.txt tests/zz_seeded_test.go ./tests/ TestLoadSequenceOnOpenStore
c C19-6 $B demo/seed_c19i_limited_load_test.go.txt tests/zz_seeded_test.go ./tests/ TestSeedC19iLimitedLoadOnOpenStore

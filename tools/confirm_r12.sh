#!/bin/bash
# round 12 (base a87e428) + re-runs of three round-10 seeds whose first suite run hit load-sensitive tests
c(){ /verif/tools/confirm_seed.sh "$@"; }
B=a87e428
c C02-8 $B demo/seed_c02k_coalesced_heads_test.go.txt tests/zz_seeded_test.go ./tests/ TestSeedC02kInterleavedExchangeHeads
c C03-7 $B demo/refused_write_twice_test.go.txt tests/zz_seeded_test.go ./tests/ TestSeedRefusedWriteTwice
c C04-7 $B demo/seed_c04k_forged_ancestor_test.go.txt tests/zz_seeded_test.go ./tests/ TestSeedC04kForgedAncestorBehindHeldEntries
c C09-7 $B demo/seed_c09k_shared_peer_connect_test.go.txt tests/zz_seeded_test.go ./tests/ TestSeedC09k
c C11-6 $B demo/load_interrupted_then_load_test.go.txt tests/zz_seeded_test.go ./tests/ TestLoadInterruptedThenLoadAgain
c C13-7 $B demo/snapshot_cache_fault_test.go.txt tests/zz_seeded_test.go ./tests/ TestSeedC13kSnapshotSaveFailure
c C16-8 $B demo/putbatch_write_events_test.go.txt tests/zz_seeded_test.go ./tests/ TestSeedC16PutBatchWriteEventsAcrossFailedBatch
c C18-8 $B demo/drop_midwrite_test.go.txt tests/zz_seeded_test.go ./tests/ TestSeedDropWhileWriteInFlight
B=d77d3e0
c C04-6 $B demo/seed_c04i_snapshot_test.go.txt tests/zz_seeded_test.go ./tests/ TestSeedC04iSnapshotMisaddressedAncestor
c C12-7 $B demo/c12i_stray_heads_test.go.txt tests/zz_seeded_test.go ./tests/ TestC12iStrayHeadsForUnopenedDatabase
c C19-6 $B demo/seed_c19i_limited_load_test.go.txt tests/zz_seeded_test.go ./tests/ TestSeedC19iLimitedLoadOnOpenStore

#!/bin/bash
# usage: gs.sh <pkg-suffix> <func> [gosym args...]   -- compact summary of one gosym run
pkg=$1; fn=$2; shift 2
/verif/bin/gosym run ${VERIF_REPO:+-repo $VERIF_REPO} -pkg berty.tech/go-orbit-db/$pkg -func $fn "$@" 2>/tmp/gs_err.txt | python3 -c "
import json,sys
d=json.load(sys.stdin)
for r in d['results'] or []:
    print(r['harness'],'paths',r['paths'],r['outcomes'],'unknown',(r['unknown'] or [])[:3],'covers',r['covers'],'wall',round(r['wall_s'],1))
    seen=set()
    for v in (r.get('violations') or []):
        m=v.get('msg')
        if m in seen: continue
        seen.add(m); print('  VIOL',m, 'decisions', len(v.get('decisions') or []))
"

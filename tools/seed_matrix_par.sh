#!/bin/bash
# usage: K=3 seed_matrix_par.sh [seed ...]   -- tools/seed_matrix.sh for many seeds, K properties at a
# time (seeds of one property always run one after the other: a property's check uses one scratch
# directory).  Evidence / replay files of these runs go to scratch directories, not to /verif.
V=$(cd "$(dirname "$0")/.."; pwd); cd $V
K=${K:-3}
seeds="$@"; [ -z "$seeds" ] && seeds=$(ls seeded | grep -v MATRIX)
props=$(for s in $seeds; do echo ${s%%-*}; done | sort -u)
for p in $props; do
  list=$(for s in $seeds; do [ "${s%%-*}" = "$p" ] && echo -n "$s "; done)
  echo "$p $list"
done | xargs -P $K -L 1 bash -c 'p=$0; out=/tmp/matrix-out-$p; mkdir -p $out; VERIF_OUT=$out '"$V"'/tools/seed_matrix.sh "$@"; rm -rf $out'

#!/bin/bash
# round 7 (base 062ac51)
B=062ac51
c(){ /verif/tools/confirm_seed.sh "$@"; }
c C01-5 $B demo/seed_c01f_test.go.txt tests/zz_seeded_test.go ./tests/ TestSeedC01fEventLogViewConverges
c C03-5 $B demo/forged_author_after_writer_test.go.txt tests/zz_seeded_test.go ./tests/ TestForgedAuthorAfterWriterWrote
c C04-5 $B demo/seed_c04f_foreign_ref_trim_test.go.txt tests/zz_seeded_test.go ./tests/ TestSeedC04fForeignRefSurvivesTrimmedLoad
c C07-5 $B demo/docs_putall_delete_test.go.txt tests/zz_seeded_test.go ./tests/ TestSeedC07fPutAllThenDelete
c C08-5 $B demo/eventlog_order_stability_test.go.txt tests/zz_seeded_test.go ./tests/ TestEventLogOrderStabilityUnderMerges
c C13-5 $B demo/seed_c13f_snapshot_heads_test.go.txt tests/zz_seeded_test.go ./tests/ TestSeedC13fSnapshotUnevenConcurrentHeads
c C14-5 $B demo/seed_c14f_writelist_test.go.txt tests/zz_seeded_test.go ./tests/ TestSeedC14fWriteListAddress
c C18-6 $B demo/drop_shared_root_test.go.txt tests/zz_seeded_test.go ./tests/ TestSeedC18DropKeepsSiblingUnderSameManifestRoot

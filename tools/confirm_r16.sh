#!/bin/bash
# round 16 (base 011957e) + re-run of C19-7 (load-sensitive suite test)
c(){ /verif/tools/confirm_seed.sh "$@"; }
B=011957e
c C08-8 $B demo/seed_c08p_partial_load_test.go.txt tests/zz_seeded_test.go ./tests/ TestSeedC08p
c C09-9 $B demo/c09p_exchange_heads_test.go.txt tests/zz_seeded_test.go ./tests/ TestC09pExchangedHeadsBelongToTheAnnouncedDatabase
c C10-8 $B demo/c10p_rejected_after_valid_test.go.txt tests/zz_seeded_test.go ./tests/ TestC10pRejectedAnnouncementAfterValidEntries
c C12-9 $B demo/c12_topic_heads_test.go.txt tests/zz_seeded_test.go ./tests/ TestC12TopicTamperedHeadsThenValidMessage
c C14-9 $B demo/seed_c14p_address_spelling_test.go.txt tests/zz_seeded_test.go ./tests/ TestSeedC14pAddressSpelling
c C15-8 $B demo/load_limit_view_test.go.txt tests/zz_seeded_test.go ./tests/ TestLoadLimitView
c C19-8 $B demo/c19p_snapshot_status_test.go.txt tests/zz_seeded_test.go ./tests/ TestC19pSnapshotOlderThanStore
c C20-10 $B demo/lifecycle_after_close_test.go.txt pubsub/oneonone/zz_seeded_test.go ./pubsub/oneonone/ TestLifecycleAfterClose
c C19-7 $B demo/seed_c19m_load_status_test.go.txt tests/zz_seeded_test.go ./tests/ TestSeedC19mLoadStatusTwoWriters

#!/bin/bash
# round 19 (base 011957e)
c(){ /verif/tools/confirm_seed.sh "$@"; }
B=011957e
c C20-11 $B demo/short_frame_test.go.txt pubsub/directchannel/zz_seeded_test.go ./pubsub/directchannel/ TestSeedShortFrameIsNotDelivered
c C19-9 $B demo/seed_c19s_sync_dropped_batch_test.go.txt tests/zz_seeded_test.go ./tests/ TestSeedC19sSyncDroppedBatchLeavesStatusAtRest
c C17-8 $B demo/seed_c17s_cancelled_waiter_test.go.txt tests/zz_seeded_test.go ./tests/ TestSeedC17sCancelledQueuedWriter
c C10-10 $B demo/c10s_reannounce_test.go.txt tests/zz_seeded_test.go ./tests/ TestC10sValidHeadReannounced
c C18-11 $B demo/reclose_stale_handle_test.go.txt tests/zz_seeded_test.go ./tests/ TestCloseTwiceAfterReopenLeavesLiveHandleAlone
c C02-10 $B demo/seed_c02s_test.go.txt tests/zz_seeded_test.go ./tests/ TestSeedC02s
c C14-11 $B demo/seed_c14s_drop_test.go.txt tests/zz_seeded_test.go ./tests/ TestSeedC14sDroppedDatabaseIsUnknownLocally
c C15-9 $B demo/seed_c15s_merged_history_test.go.txt tests/zz_seeded_test.go ./tests/ TestSeedC15sLoadLimitOnMergedHistory
c C05-11 $B demo/seed_c05s_own_heads_test.go.txt tests/zz_seeded_test.go ./tests/ TestSeedC05sReplicatedOwnEntriesSurviveRestart
c C16-11 $B demo/seed_c16s_same_identity_test.go.txt tests/zz_seeded_test.go ./tests/ TestSeedC16sSameIdentityReplicated
c C03-10 $B demo/seed_c03s_restart_test.go.txt tests/zz_seeded_test.go ./tests/ TestSeedC03sNonWriterAncestorAfterReopen
c C12-11 $B demo/seed_c12s_truncated_bom_test.go.txt tests/zz_seeded_test.go ./tests/ TestSeedC12s
c C09-11 $B demo/seed_c09s_replication_isolation_test.go.txt tests/zz_seeded_test.go ./tests/ TestSeedC09sReplicationOfOneDatabaseIsNotHeldUpByTheOthers
c C04-10 $B demo/seed_c04s_twin_test.go.txt tests/zz_seeded_test.go ./tests/ TestSeedC04sMisaddressedTwinThroughLink

#!/bin/bash
# round 6 (base 0e0edba)
B=0e0edba
c(){ /verif/tools/confirm_seed.sh "$@"; }
c C20-5 $B demo/watchers_cancel_test.go.txt pubsub/pubsubcoreapi/zz_seeded_test.go ./pubsub/pubsubcoreapi/ TestWatchPeersSecondWatcherCancelled
c C16-5 $B demo/replicated_backfill_event_test.go.txt tests/zz_seeded_test.go ./tests/ TestReplicatedEventForHistoryBackfill
c C05-5 $B demo/c05e_reload_after_replication_test.go.txt tests/zz_seeded_test.go ./tests/ TestC05eReloadAfterReplication
c C12-5 $B demo/seed_c12e_poisoned_head_test.go.txt tests/zz_seeded_test.go ./tests/ TestSeedC12eMalformedHeadDoesNotStopLaterValidHead
c C09-5 $B demo/seed_c09e_test.go.txt tests/zz_seeded_test.go ./tests/ TestSeedC09e
c C17-4 $B demo/c17e_heads_race_test.go.txt tests/zz_seeded_test.go ./tests/ TestC17eWritersRacingReplicationSurviveReload
c C06-5 $B demo/kv_causal_override_test.go.txt tests/zz_seeded_test.go ./tests/ TestKVCausalOverrideAfterLongHistory
c C02-5 $B demo/reopen_heads_test.go.txt tests/zz_seeded_test.go ./tests/ TestSeedReopenedStoreReceivesHeads

#!/bin/bash
# usage: with_seed.sh <seed> <command...>  -- runs the command with VERIF_REPO pointing at a scratch
# worktree of /repo's HEAD with the seed applied (e.g. `with_seed.sh C01-3 tools/gs.sh stores/kvstore VerifC01KV`)
seed=$1; shift
S=/verif/seeded/$seed/patch.diff
[ -f /verif/seeded/$seed/patch_head.diff ] && S=/verif/seeded/$seed/patch_head.diff
WT=/tmp/withseed-wt-$$
git -C /repo worktree add --detach $WT HEAD -q || exit 3
git -C $WT apply "$S" 2>/dev/null || { git -C $WT apply -3 "$S" && git -C $WT reset -q; } || { echo "seed does not apply"; git -C /repo worktree remove --force $WT; exit 4; }
VERIF_REPO=$WT "$@"; rc=$?
git -C /repo worktree remove --force $WT >/dev/null 2>&1
exit $rc

#!/bin/bash
# round 20 (base 011957e) + re-run of C10-10 whose suite run happened under heavy load
c(){ /verif/tools/confirm_seed.sh "$@"; }
B=011957e
c C07-10 $B demo/seed_c07t_partial_fold_test.go.txt tests/zz_seeded_test.go ./tests/ TestSeedC07tPartialFoldPunctuation
c C11-9 $B demo/c11_gap_after_abort_test.go.txt tests/zz_seeded_test.go ./tests/ TestC11GapLeftByAbortedSyncIsHealedByNewerHead
c C08-10 $B demo/seed_c08t_bound_after_merge_test.go.txt tests/zz_seeded_test.go ./tests/ TestSeedC08tBoundAfterMerge
c C16-12 $B demo/seed_c16t_docs_event_test.go.txt tests/zz_seeded_test.go ./tests/ TestSeedC16tWriteEventNeverAheadOfDocsQueries
c C13-10 $B demo/snapshot_foreign_ref_test.go.txt tests/zz_seeded_test.go ./tests/ TestSnapshotOfLogWithReplicatedEntryReferencingAnotherDatabase
c C01-11 $B demo/seed_c01t_shared_rebuild_test.go.txt tests/zz_seeded_test.go ./tests/ TestSeedC01tSharedRebuild
c C06-11 $B demo/seed_c06t_test.go.txt tests/zz_seeded_test.go ./tests/ TestSeedC06tRebuildOverlappingLocalWrite
c C10-11 $B demo/seed_c10t_refused_link_test.go.txt tests/zz_seeded_test.go ./tests/ TestSeedC10tRefusedLinkNextToValidHead
c C10-10 $B demo/c10s_reannounce_test.go.txt tests/zz_seeded_test.go ./tests/ TestC10sValidHeadReannounced

#!/bin/bash
# usage: seed_matrix.sh [seed ...]   (default: every directory under /verif/seeded)
# For each seeded change: applies its patch to a scratch worktree of /repo's HEAD (outside /repo and
# /verif), runs the registered quick check of the property it breaks against that tree
# (VERIF_REPO), records verdict + how the counterexample was confirmed, and resets the worktree.
# Writes /verif/seeded/<seed>/detect.json.  /repo itself is never touched.
V=$(cd "$(dirname "$0")/.."; pwd)
WT=/tmp/matrix-wt-$$
git -C /repo worktree remove --force $WT >/dev/null 2>&1
git -C /repo worktree add --detach $WT HEAD -q || exit 1
cd $V
seeds="$@"; [ -z "$seeds" ] && seeds=$(ls seeded | grep -v MATRIX)
for s in $seeds; do
  d=seeded/$s; [ -d $d ] || continue
  prop=$(python3 -c "import json;print(json.load(open('$d/meta.json'))['breaks_property'])" 2>/dev/null) || prop=${s%%-*}
  [ -z "$prop" ] && prop=${s%%-*}
  P=$d/patch.diff; [ -f $d/patch_head.diff ] && P=$d/patch_head.diff
  git -C $WT reset -q --hard HEAD; git -C $WT clean -fdq
  if ! git -C $WT apply $V/$P 2>/dev/null; then
    if ! git -C $WT apply -3 $V/$P 2>/dev/null; then
      git -C $WT reset -q --hard HEAD
      echo "{\"seed\":\"$s\",\"property\":\"$prop\",\"applies_to_head\":false}" > $d/detect.json
      echo "$s $prop does-not-apply"; continue
    fi
    git -C $WT reset -q
  fi
  t0=$(date +%s)
  VERIF_REPO=$WT ./check $prop --tier quick > /tmp/matrix_$s.out 2>&1; rc=$?
  t1=$(date +%s)
  python3 - "$s" "$prop" "$rc" "$((t1-t0))" /tmp/matrix_$s.out $d/detect.json <<'PY'
import json,sys,re
s,prop,rc,wall,out,dst=sys.argv[1:7]
lines=[l.rstrip() for l in open(out)]
viol=[l for l in lines if l.startswith("VIOLATION")]
inc=[l for l in lines if l.startswith("INCONCLUSIVE")]
conf=[];labels=[]
for l in viol[:6]:
    m=re.search(r"replay=(\S+)",l)
    if m:
        try:
            d=json.load(open(m.group(1)))
            conf.append((d.get("confirmation") or "")[:60]); labels.append((d.get("harness"),(d.get("violation") or {}).get("label")))
        except Exception as e: conf.append("?")
json.dump({"seed":s,"property":prop,"applies_to_head":True,"check_exit":int(rc),"violations":len(viol),"inconclusive":inc[:3],
           "first_violations":labels,"confirmation":conf,"wall_s":int(wall)},open(dst,"w"),indent=1)
print(s,prop,"exit",rc,"violations",len(viol),(conf[:1] or [""])[0],(labels[:1] or [""])[0])
PY
done
git -C /repo worktree remove --force $WT

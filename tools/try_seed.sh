#!/bin/bash
# usage: try_seed.sh <seed-dir-name> <property> [tier]
# Applies /verif/seeded/<seed>/patch.diff to /repo, runs the property's check, reverts.
S=/verif/seeded/$1/patch.diff
# a seed whose patch no longer applies to HEAD may carry a re-based variant
[ -f /verif/seeded/$1/patch_head.diff ] && S=/verif/seeded/$1/patch_head.diff
if ! git -C /repo diff --quiet; then echo "repo dirty, refusing"; exit 3; fi
if ! git -C /repo apply "$S" 2>/dev/null; then
  if ! git -C /repo apply -3 "$S" 2>/dev/null; then echo "SEED $1 does not apply"; git -C /repo reset -q --hard HEAD; exit 4; fi
  git -C /repo reset -q
fi
cd /verif && ./check $2 --tier ${3:-quick} > /tmp/try_seed_$1_$2.out 2>&1; rc=$?
git -C /repo checkout -- .
echo "SEED $1 check $2 -> exit $rc"; grep -E "^(VIOLATION|INCONCLUSIVE|OK|KNOWN)" /tmp/try_seed_$1_$2.out | head -8
exit 0

#!/bin/bash
# usage: try_seed.sh <seed-dir-name> <property> [tier]
# Applies /verif/seeded/<seed>/patch.diff (or its re-based patch_head.diff) to a SCRATCH worktree of
# /repo's HEAD (outside /repo and /verif; /repo itself is never touched), runs the property's check
# against it (VERIF_REPO), and removes the worktree.
S=/verif/seeded/$1/patch.diff
[ -f /verif/seeded/$1/patch_head.diff ] && S=/verif/seeded/$1/patch_head.diff
WT=/tmp/tryseed-wt-$$
git -C /repo worktree add --detach $WT HEAD -q || exit 3
cleanup(){ git -C /repo worktree remove --force $WT >/dev/null 2>&1; }
if ! git -C $WT apply "$S" 2>/dev/null; then
  if ! git -C $WT apply -3 "$S" 2>/dev/null; then echo "SEED $1 does not apply"; cleanup; exit 4; fi
  git -C $WT reset -q
fi
OUT=/tmp/tryseed-out-$$; mkdir -p $OUT
cd /verif && VERIF_OUT=$OUT VERIF_REPO=$WT ./check $2 --tier ${3:-quick} > /tmp/try_seed_$1_$2.out 2>&1; rc=$?
cleanup; rm -rf $OUT
echo "SEED $1 check $2 -> exit $rc"; grep -E "^(VIOLATION|INCONCLUSIVE|OK|KNOWN)" /tmp/try_seed_$1_$2.out | cut -c1-260 | head -8
exit 0

#!/usr/bin/env python3
"""Writes /verif/seeded/<id>/meta.json from the table below, the confirmation logs
(tools/confirm_seed.sh) and the detection results (tools/try_seed.sh)."""
import json, os, re, glob
V = os.path.dirname(os.path.dirname(os.path.abspath(__file__)))
T = {
 # seed: (property, base commit, needs, detected_by, detection_note)
 "C01-1": ("C01", "b86d319", "two writers with concurrent branches; a branch with a lower Lamport time is merged after the receiver indexed a higher one (incremental kv index stops at its previous tip)", ["C01", "C06"], "VIOLATION (native replay)"),
 "C06-1": ("C06", "b86d319", "same mechanism as C01-1 (kv index remembers the last applied hash)", ["C06", "C01"], "VIOLATION (native replay)"),
 "C04-1": ("C04", "b86d319", "two cooperating sites: Sync keeps going after a hash mismatch and the replicator trusts the announced head object; relied on rejected heads being handed to the replicator", [], "OBSOLETE on the current tree: fix b039329 hands only verified heads to the replicator, so the patch no longer applies nor breaks the property"),
 "C05-1": ("C05", "b86d319", "crash exactly between the EventReplicated emission and the _remoteHeads cache write", ["C05", "C16"], "VIOLATION (native replay)"),
 "C08-1": ("C08", "b86d319", "a local Add whose index refresh read the log before a concurrent merge publishes its stale listing after it (one thread set aside while a chain of others runs)", ["C08"], "VIOLATION (interpreter-schedule: 1 stall preemption)"),
 "C20-1": ("C20", "b86d319", "two membership snapshots where as many peers join as leave", ["C20"], "VIOLATION (native replay)"),
 "C07-1": ("C07", "b039329", "two writers, concurrent branch merged below the previous tip (incremental document index)", ["C07"], "VIOLATION (native replay)"),
 "C12-1": ("C12", "b039329", "a head naming a writer, with identity signatures but a null clock (typed-nil passes != nil)", ["C12"], "VIOLATION (native replay, process crash)"),
 "C19-1": ("C19", "b039329", "multi-writer log with concurrent branches replicated through the replicator (entry count exceeds the largest clock)", ["C19"], "VIOLATION (native replay) by the history harness"),
 "C02-1": ("C02", "b039329", "replica that has both cached local and remote heads; json.Unmarshal into a reused slice overwrites the local head in the exchanged-heads message; then partition + heal", ["C02"], "VIOLATION (native replay)"),
 "C16-1": ("C16", "b039329", "legacy channel subscriber more than 145 events behind", ["C16"], "VIOLATION (native replay) by VerifC16LegacyStall N=200"),
 "C18-1": ("C18", "b039329", "Close while a replication started under a foreign context has a fetch pending on an unreachable provider", ["C18"], "VIOLATION (native replay) by the pending-fetch activity"),
 "C03-1": ("C03", "bc0da83", "non-writer's head carrying a foreign log id; relied on the dependency merging unverified foreign-log-id heads", [], "OBSOLETE on the current tree: fix f2f3049 filters foreign-log-id entries before every join, the patched tree no longer breaks the property (check passes)"),
 "C04-2": ("C04", "bc0da83", "claimed address is a codec alias (same multihash digest, raw codec) of the genuine address", ["C04"], "VIOLATION (native replay) after CID tokens were given a codec + digest structure"),
 "C09-2": ("C09", "bc0da83", "write to B then write to A while B's announcer goroutine is between spawn and Peers() (shared loop variable)", ["C09"], "VIOLATION (interpreter-schedule, P=1)"),
 "C10-2": ("C10", "bc0da83", "a log that fails Join followed by a valid log in the same load-end batch (delete-while-iterating)", ["C10"], "VIOLATION (native replay)"),
 "C11-2": ("C11", "bc0da83", "cancellation between sem.Acquire succeeding and the worker taking the process lock leaks the slot", ["C11"], "VIOLATION (interpreter-schedule) by cancel-at-any-step"),
 "C15-1": ("C15", "bc0da83", "several heads, every branch shorter than the limit, union longer", ["C15"], "VIOLATION (interpreter-schedule: depends on the order of Load's per-head goroutines)"),
 "C17-1": ("C17", "bc0da83", "two concurrent writers, puts in the opposite order of appends, then restart", ["C17"], "VIOLATION (native replay by turnstile)"),
 "C14-2": ("C14", "809b9c4", "two different names that clean to the same path (nested//db vs nested/db)", ["C14"], "VIOLATION (native replay)"),
 "C05-2": ("C05", "809b9c4", "two concurrent remote branches replicated in separate batches, then restart (only the last batch's heads are cached)", ["C05"], "VIOLATION (native replay)"),
 "C08-2": ("C08", "809b9c4", "entries sharing a Lamport time (concurrent writers) and a bound on the wrong side of its tie group", ["C08"], "VIOLATION (native replay) after clock times were made symbolic with ties"),
 "C13-2": ("C13", "809b9c4", "header longer than 65535 bytes while every entry is shorter (uint16 variable makes the guard dead)", ["C13"], "VIOLATION (native replay with real payload sizes)"),
 "C06-2": ("C06", "809b9c4", "two writers on the same key with equal Lamport time (index sorts on time only)", ["C06"], "VIOLATION (native replay)"),
 "C20-2": ("C20", "809b9c4", "two overlapping Connect calls for the same peer (check-then-act)", ["C20"], "VIOLATION (interpreter-schedule, P=1) by VerifC20ConnectRace"),
 "C01-2": ("C01", "809b9c4", "two writers' concurrent branches reach a reader in separate batches (only the last batch's heads are cached), then the reader restarts from its own disk", ["C01"], "VIOLATION by the batched-reader restart route added to Converge (all three store harnesses)"),
 "C16-2": ("C16", "809b9c4", "a local write on a key-value/document store while a replicated batch is inside its view rebuild (coalesced rebuild returns before the view holds the write)", ["C16"], "VIOLATION (interpreter-schedule: local write injected at the view-rebuild lock) by VerifC16WriteDuringMerge"),
 # ---- round 3 (base 809b9c4)
 "C01-3": ("C01", "809b9c4", "partial Load(k) followed by a lagging peer's head that fills in ancestors without moving the log's heads (view rebuild skipped when heads are unchanged)", ["C01"], "VIOLATION (native replay) after the partial-load route was added to Converge"),
 "C01-4": ("C01", "809b9c4", "two writers put the same document key concurrently (equal Lamport time); the two entries reach a replica in separate index updates", ["C01"], "VIOLATION (native replay) by VerifC01Docs"),
 "C02-3": ("C02", "809b9c4", "a peer that was sent the heads once comes back without them (restart with an in-memory cache) while the sender's heads are unchanged", ["C02"], "VIOLATION (native replay) by VerifSysHeal (storage-losing restart) after perfect-hash stand-ins for sha256"),
 "C02-4": ("C02", "809b9c4", "same mechanism as C02-3 (digest memo per peer)", ["C02"], "VIOLATION (native replay) by VerifSysHeal"),
 "C03-3": ("C03", "809b9c4", "one instance opens two databases with manifest-less controllers and different write lists, the permissive one first", ["C03"], "VIOLATION (native replay) by VerifC03Instance"),
 "C04-3": ("C04", "809b9c4", "a valid entry whose refs lead to a chain of >= 2 entries of another database; replica restarted and loaded (whole ancestry fetched as one log)", ["C04"], "VIOLATION (native replay) by VerifC04ForeignChain"),
 "C05-3": ("C05", "809b9c4", "crash exactly between Delete(_remoteHeads) and Put(_localHeads) of a local write that follows a replication", ["C05"], "VIOLATION (native replay), crash index found by the solver"),
 "C05-4": ("C05", "809b9c4", "open by name with Create (Overwrite) of an existing database fails after the address was determined; then any reopen", ["C05"], "VIOLATION by VerifC05Reopen"),
 "C06-3": ("C06", "809b9c4", "replica merges an older concurrent write to a key it holds a newer operation for (incremental kv index)", ["C06"], "VIOLATION (native replay)"),
 "C07-3": ("C07", "809b9c4", "case-insensitive exact Get while documents whose keys differ only by case exist and one is all lower case", ["C07"], "VIOLATION (native replay) by VerifC07Get"),
 "C08-3": ("C08", "809b9c4", "single-entry merge of an entry that ties in Lamport time with the last listed one and has the smaller writer id, then a larger merge", ["C08"], "VIOLATION (native replay) by VerifC01Log"),
 "C09-3": ("C09", "809b9c4", "head exchanges for two databases arrive back to back on one direct channel (decode target reused)", ["C09"], "VIOLATION by VerifSysTwoDBs"),
 "C10-3": ("C10", "809b9c4", "forged-author head's log is first in the replicator buffer of a batch that also holds valid entries", ["C10"], "VIOLATION (native replay)"),
 "C11-3": ("C11", "809b9c4", "as many failed fetches as there are fetch slots", ["C11"], "VIOLATION (native replay) with concurrency 1"),
 "C12-3": ("C12", "809b9c4", "a head with a wrong hash and a valid announcement waiting in the topic buffer at the same time", ["C12"], "VIOLATION (native replay) after burst pacing was added"),
 "C13-3": ("C13", "809b9c4", "the log grows between GetEntries() and Len() inside SaveSnapshot", ["C13"], "VIOLATION (interpreter-schedule) by VerifC13Concurrent"),
 "C14-3": ("C14", "809b9c4", "an Open that fails, then a local-only Open (or Create) of the same address", ["C14"], "VIOLATION (native replay) by the failed-open branch of VerifC14Reopen"),
 "C15-3": ("C15", "809b9c4", "several cached heads (stale remote heads below a newer local head), a limit, and an older head's goroutine taking the join lock first", ["C15"], "VIOLATION (native replay / interpreter-schedule) after schedule exploration was added to VerifC15Load"),
 "C16-3": ("C16", "809b9c4", "a subscriber that reads batch k's replicated event after batch k+1 was merged", ["C16"], "VIOLATION (native replay) by the late-reader oracle of VerifC05Crash"),
 "C17-3": ("C17", "809b9c4", "writers B and C append while writer A is inside its _localHeads Put; no later write; restart", ["C17"], "VIOLATION (native replay by turnstile)"),
 "C18-3": ("C18", "809b9c4", "the context given to NewOrbitDB is cancelled before orbitDB.Close is called", ["C18"], "VIOLATION by VerifSysClose (parent-cancelled-first)"),
 "C18-4": ("C18", "809b9c4", "Close while a Load is stuck on an unavailable block (caller's context still live)", ["C18"], "VIOLATION (native replay) by VerifC18CloseBlockedLoad"),
 "C19-3": ("C19", "809b9c4", "LoadFromSnapshot on an open store whose progress already exceeds the snapshot's entry count (re-based on 36187f9 as patch_head.diff)", ["C19"], "VIOLATION (native replay) by VerifC19History with snapshot steps"),
 "C20-3": ("C20", "809b9c4", "two overlapping Connect calls for one peer (subscribe outside the lock)", ["C20"], "VIOLATION (interpreter-schedule) by VerifC20ConnectRace"),
 # ---- rounds 4 and 5 (base 36187f9)
 "C03-4": ("C03", "36187f9", "two manifest-less controllers resolved in one process, the permissive first (package-level sync.Map cache keyed by the undefined address)", ["C03"], "VIOLATION (native replay) by VerifC03Instance after sync.Map was modelled"),
 "C04-4": ("C04", "36187f9", "announced head whose claimed CID has the same multihash digest and another codec", ["C04"], "VIOLATION (native replay)"),
 "C06-4": ("C06", "36187f9", "a winning PUT with an empty value followed by a PUT with a value on another key (reused operation struct)", ["C06"], "VIOLATION (native replay) by VerifC06Replay"),
 "C07-4": ("C07", "36187f9", "a Query between the log append and the index update of a concurrent write", ["C07"], "VIOLATION (interpreter-schedule) by VerifC07ReadDuringWrite"),
 "C08-4": ("C08", "36187f9", "LT bound at the second entry of the listing", ["C08"], "VIOLATION (native replay) by VerifC08Window"),
 "C09-4": ("C09", "36187f9", "database A is handed a valid entry whose log id is database B's address (replicator events on the shared bus filtered by the entry's own log id)", ["C09", "C12"], "VIOLATION (native replay) by VerifC09Isolation (foreign-head-on-a) and VerifSysMalformed"),
 "C10-4": ("C10", "36187f9", "rejected entry's log first in the replicator buffer (coalesced into one log)", ["C10"], "VIOLATION (native replay)"),
 "C11-4": ("C11", "36187f9", "a request cancelled while a worker waits for a fetch slot (pending counter never decremented)", ["C11"], "VIOLATION by VerifC11Abort / VerifC11CancelAnywhere"),
 "C12-4": ("C12", "36187f9", "a syntactically malformed payload followed by a valid message on the same instance (sticky json.Decoder error)", ["C12"], "VIOLATION (native replay) by VerifSysMalformed after the streaming JSON API was modelled"),
 "C13-4": ("C13", "36187f9", "snapshot saved while the replication queue is non-empty; queued block unavailable at load time", ["C13"], "VIOLATION (native replay) by VerifC13PendingQueue"),
 "C14-4": ("C14", "36187f9", "a name containing a percent-escape that survives one decoding (%25..)", ["C14"], "VIOLATION (native replay) by VerifC14AddressRoundTrip (L=5) after net/url and strings.Builder were modelled"),
 "C15-4": ("C15", "36187f9", "several heads whose single histories are shorter than the limit while their union is longer", ["C15"], "VIOLATION (native replay)"),
 "C16-4": ("C16", "36187f9", "push between the flusher seeing an empty queue and parking on the (unbuffered) wake-up channel; no further emission", ["C16"], "VIOLATION (interpreter-schedule: deadlock) by VerifC16LegacyRace"),
 "C18-5": ("C18", "36187f9", "a local write whose cache Put lands after the cache was closed (Put returns nil on a closed cache)", ["C18"], "VIOLATION by VerifSysClose (mid-write)"),
 "C19-4": ("C19", "36187f9", "multi-writer log with more entries than the largest clock, then a local write (clock not above the maximum)", ["C19"], "VIOLATION (native replay) by VerifC19Step (solver model) and VerifC19History"),
 "C20-4": ("C20", "36187f9", "Connect with a context that ends, then Connect again on the same channel object", ["C20"], "VIOLATION (native replay) by VerifC20Reconnect"),
 # round 6 (base 0e0edba)
 "C02-5": ("C02", "0e0edba", "store closed and reopened on the same instance while a peer keeps sending heads (per-address worker keeps the first store handle)", ["C02"], "VIOLATION by VerifSysHeal (store-level close / reopen steps)"),
 "C05-5": ("C05", "0e0edba", "cached remote head of a concurrent branch whose Lamport time is below the local head's, then restart + Load", ["C05"], "VIOLATION (native replay)"),
 "C06-5": ("C06", "0e0edba", "two causally ordered puts whose clock times straddle a multiple of 256", ["C06"], "VIOLATION (native replay) by VerifC06ClockOrder (symbolic clock values; the solver returns 255 / 256)"),
 "C09-5": ("C09", "0e0edba", "two databases on one instance; one becomes ready while the other has a peer", ["C09"], "VIOLATION by VerifSysTwoDBs / VerifC09Isolation"),
 "C12-5": ("C12", "0e0edba", "a malformed head announced under a valid entry's address, then the valid entry", ["C12"], "VIOLATION (native replay) by VerifC12Heads / VerifSysMalformed with the copied-identity malformed head"),
 "C16-5": ("C16", "0e0edba", "a replication batch that adds history below the current heads (heads unchanged)", ["C16"], "VIOLATION (native replay) by VerifC16Backfill"),
 "C17-4": ("C17", "0e0edba", "local writers racing the end of a replication (stale heads snapshot written to _localHeads), then restart", ["C17"], "VIOLATION (interpreter-schedule, P=1) by VerifC17WritersAndReplication"),
 "C20-5": ("C20", "0e0edba", "two watchers of one topic, one cancelled", ["C20"], "VIOLATION (native replay) by VerifC20TwoWatchers"),
 # round 7 (base 062ac51)
 "C01-5": ("C01", "062ac51", "two writers with equal Lamport times; the smaller-key entry replicated alone after the larger-key entry is the view's tail", ["C01", "C08"], "VIOLATION (native replay) by VerifC01Log"),
 "C03-5": ("C03", "062ac51", "the target has verified one genuine entry of the writer; forged identity = writer's id + writer's id signature + attacker's key and voucher", ["C03"], "VIOLATION (native replay) by VerifC03CanAppend (after-genuine) and VerifC03Forged (copied id signature)"),
 "C04-5": ("C04", "062ac51", "valid head whose refs names a foreign-database entry; Load(n) on a store holding more than n entries", ["C04"], "VIOLATION (native replay) by VerifC04ForeignChain (trimmed load)"),
 "C07-5": ("C07", "062ac51", "PutAll containing k, then Delete(k)", ["C07"], "VIOLATION (native replay) by VerifC07Replay / VerifC07Delete"),
 "C08-5": ("C08", "062ac51", "three writers; tie merged after the tail, then an older entry forces a rebuild", ["C08", "C01"], "VIOLATION (native replay) by VerifC01Log"),
 "C13-5": ("C13", "062ac51", "two concurrent heads with different clock times when the snapshot is saved", ["C13"], "VIOLATION (native replay) by VerifC13Snapshot (uneven concurrent chains)"),
 "C14-5": ("C14", "062ac51", "a write list with a repeated key or mixing * with keys", ["C14"], "VIOLATION (native replay) by VerifC14Reopen / VerifC14Injective"),
 "C18-6": ("C18", "062ac51", "two databases opened under one manifest root with different paths; Drop one", ["C18"], "VIOLATION (native replay) by VerifC18Drop (sibling under the same root)"),
 # round 8 (base d77d3e0)
 "C02-6": ("C02", "d77d3e0", "the first head exchange towards a peer is lost (or not merged), the sender's heads do not change, the link is cut and healed", ["C02"], "VIOLATION by VerifSysHeal"),
 "C09-6": ("C09", "d77d3e0", "two databases opened on one instance with ONE reused *CreateDBOptions value", ["C09"], "VIOLATION (native replay) by VerifSysTwoDBs (shared-options)"),
 "C10-5": ("C10", "d77d3e0", "a refused head that CLAIMS the address of a valid entry, announced before or with it; the valid entry announced (again) afterwards", ["C10"], "VIOLATION (native replay) by VerifC10Mixed (claims-valid-address)"),
 "C11-5": ("C11", "d77d3e0", "request cancelled while one fetch slot serves several queued hashes and the slot holder took another worker's hash; later request for the same or a newer head", ["C11"], "VIOLATION (interpreter-schedule, P=1) by VerifC11Saturated"),
 "C12-6": ("C12", "d77d3e0", "eight truncated frames (well-formed length prefix, short body), then a valid frame", ["C12"], "VIOLATION by VerifC12RawFrame"),
 "C15-5": ("C15", "d77d3e0", "non-positive limit, cached local AND remote heads of concurrent chains, restart + Load", ["C15"], "VIOLATION (native replay) by VerifC15Load"),
 "C17-5": ("C17", "d77d3e0", "two overlapping writers on a store with a materialised index (second writer skips its index refresh)", ["C17"], "VIOLATION (interpreter-schedule, P=1) by VerifC17Concurrent (view oracle)"),
 "C19-5": ("C19", "d77d3e0", "replication of a multi-writer log with more entries than its largest clock", ["C19"], "VIOLATION (native replay) by VerifC19History / VerifSysTwoDBs"),
 # round 9 (base d77d3e0)
 "C01-6": ("C01", "d77d3e0", "view built by a partial Load / snapshot where a key's latest operation is a DEL, then older entries arrive incrementally (LoadMoreFrom / replication)", ["C01"], "VIOLATION (native replay) by VerifC01KV / VerifC01Docs"),
 "C05-6": ("C05", "d77d3e0", "concurrent cached heads + a limited load + a CLEAN close; or an older second handle on the same directory closing last", ["C05"], "VIOLATION (native replay) by VerifC05Sessions"),
 "C06-6": ("C06", "d77d3e0", "the caller edits the map All() returned", ["C06"], "VIOLATION (native replay) by VerifC06Replay (caller-edited-the-map)"),
 "C07-6": ("C07", "d77d3e0", "two document keys differing only by case, one the lower-cased search key; Get case-insensitive, not partial", ["C07"], "VIOLATION (native replay) by VerifC07Get"),
 "C14-6": ("C14", "d77d3e0", "one ManifestParams / options value reused for Open or Create of one database and then Create of another with a different write list", ["C14"], "VIOLATION (native replay) by VerifC14Reuse"),
 "C16-6": ("C16", "d77d3e0", "a local write overlapping the index pass of a replicated batch (or the converse) and a subscriber that queries at once", ["C16"], "VIOLATION (interpreter-schedule) by VerifC16WriteDuringMerge"),
 "C18-7": ("C18", "d77d3e0", "Close of the instance, one Open / Create on it (refused), then another Open or Close", ["C18"], "VIOLATION by VerifSysClose"),
 "C20-6": ("C20", "d77d3e0", "one failed poll of the underlying Peers(), the peer still present at the next successful poll", ["C20"], "VIOLATION (native replay) by VerifC20PollError"),
 # round 10 (base d77d3e0)
 "C02-7": ("C02", "d77d3e0", "a restarted replica whose Load (non-empty heads cache) overlaps the Sync of heads written while it was down; the same heads re-sent afterwards", ["C02"], "VIOLATION (interpreter-schedule, P=1) by VerifC02RestartRace"),
 "C03-6": ("C03", "d77d3e0", "opening an existing address while passing a write list (or a reused parameter value) that differs from the stored one", ["C03"], "VIOLATION (native replay) by VerifC03Instance (opener parameters)"),
 "C04-6": ("C04", "d77d3e0", "a snapshot file whose non-head frame is a validly signed entry claiming another entry's address, loaded with LoadFromSnapshot", ["C04"], "VIOLATION (native replay) by VerifC04Snapshot"),
 "C08-6": ("C08", "d77d3e0", "forked two-writer log, lt / lte bound on an entry preceded in the listing by an entry of the other branch", ["C08"], "VIOLATION (native replay) by VerifC08Window"),
 "C12-7": ("C12", "d77d3e0", "an open whose store constructor fails, then a heads message addressed to that database, then valid traffic", ["C12"], "VIOLATION (deadlock) by VerifSysMalformed (address-of-a-failed-open)"),
 "C13-6": ("C13", "d77d3e0", "snapshot with two heads loaded into an instance that already holds one of them", ["C13"], "VIOLATION (native replay) by VerifC13Snapshot (partly-held)"),
 "C15-6": ("C15", "d77d3e0", "Load(n), growth without a load, Load(m) with n <= m < held", ["C15"], "VIOLATION (native replay) by VerifC15Sequence"),
 "C19-6": ("C19", "d77d3e0", "progress at N on an open store, then Load(k), 0 < k < N", ["C19"], "VIOLATION (native replay) by VerifC19History (loaded-while-open)"),
 # round 11 (base d77d3e0)
 "C01-7": ("C01", "d77d3e0", "a restarted event-log replica whose Load overlaps the Sync of the head it has cached", ["C01"], "VIOLATION (interpreter-schedule, P=1) by VerifC01Overlap"),
 "C05-7": ("C05", "d77d3e0", "two concurrent writers, the second queued on muWrite while the first appends; crash after the first is acknowledged", ["C05"], "VIOLATION (interpreter-schedule, P=1) by VerifC05Burst"),
 "C06-7": ("C06", "d77d3e0", "a replication batch completing during Load (staging log swapped in afterwards), then a local put on a key the batch wrote", ["C06"], "VIOLATION (interpreter-schedule, P=1) by VerifC06SeenThenPut"),
 "C07-7": ("C07", "d77d3e0", "PutAll with the same _id twice, the later member equal to the stored value; or PutAll racing a remote delete", ["C07", "C01"], "VIOLATION (native replay) by VerifC01Docs (batch postcondition)"),
 "C10-6": ("C10", "d77d3e0", "a flush holding a valid log followed by a log that adds nothing; store with a materialised index", ["C10"], "VIOLATION (native replay) by VerifC10Mixed (view oracle)"),
 "C14-7": ("C14", "d77d3e0", "Create over an existing local database with CreateDBOptions.Directory set to another directory", ["C14"], "VIOLATION (native replay) by VerifC14Reopen"),
 "C16-7": ("C16", "d77d3e0", "a bus subscriber stalled for at least 146 events, then reading again", ["C16"], "VIOLATION by VerifC05Crash (late reader)"),
 "C20-7": ("C20", "d77d3e0", "Connect / Send to the local peer's own id", ["C20"], "VIOLATION (native replay) by VerifC20Monitor (channel-with-self)"),
 # round 12 (base a87e428)
 "C02-8": ("C02", "a87e428", "two or more head-exchange payloads for one store, from different peers with different heads, queued on the direct channel at once", ["C02"], "VIOLATION by VerifC02ThreeWay"),
 "C03-7": ("C03", "a87e428", "two local writes on one store, the first refused by the access controller", ["C03"], "VIOLATION (deadlock) by VerifC03LocalWrite (denied-twice)"),
 "C04-7": ("C04", "a87e428", "a badly signed entry fetched as an ancestor through refs only while the next entries linking it are already held", ["C04"], "VIOLATION (native replay) by VerifC04Tampered (refs-only ancestor)"),
 "C09-7": ("C09", "a87e428", "two replicating databases, one peer joining both topics, a slow Connect, the first requester's database closed mid-attempt", ["C09"], "VIOLATION by VerifC09SlowConnect"),
 "C11-6": ("C11", "a87e428", "a complete Load with two cached heads interrupted between heads (cancel or unreadable head block), then a later Load", ["C11"], "VIOLATION (native replay) by VerifC11LoadAbort"),
 "C13-7": ("C13", "a87e428", "a cache Put failing after the snapshot file was added (second save)", ["C13"], "VIOLATION (native replay) by VerifC13SaveFault"),
 "C16-8": ("C16", "a87e428", "PutBatch of several documents with a storage error on a later member", ["C16"], "VIOLATION (native replay) by VerifC16BatchFailure"),
 "C18-8": ("C18", "a87e428", "Drop reaching its reset section while a local write is inside Append", ["C18"], "VIOLATION (deadlock) by VerifC18DropDuring"),
 # round 13 (base 011957e)
 "C01-8": ("C01", "011957e", "a kv / document snapshot saved by a store whose entry map is not in log order (replicated entries), loaded by LoadFromSnapshot", ["C01"], "VIOLATION (native replay) by VerifC01Docs"),
 "C05-8": ("C05", "011957e", "restart on the same directory designated by another string (absolute vs relative, symlink), default ID and keystore options", ["C05"], "VIOLATION (native replay) by VerifC05Identity (restarted-through-another-spelling)"),
 "C06-8": ("C06", "011957e", "Put with the empty string as key, then Get of it", ["C06"], "VIOLATION (native replay) by VerifC06EdgeKeys"),
 "C08-7": ("C08", "011957e", "a store opened with a non-default SortFn, a multi-writer history with a concurrent pair, close, reopen, Load into the empty log", ["C08"], "VIOLATION (native replay) by VerifC08SortFn"),
 "C12-8": ("C12", "011957e", "one heads message with at least 17 acceptable heads (one genuine head repeated)", ["C12"], "VIOLATION (deadlock) by VerifC12RepeatedHeads"),
 "C15-7": ("C15", "011957e", "limit given through MaxHistory, more than one cached head, log longer than the limit", ["C15"], "VIOLATION (native replay) by VerifC15Load"),
 "C17-6": ("C17", "011957e", "two goroutines calling PutAll on one document store, one entering while the other is between two documents of its batch", ["C17"], "VIOLATION (interpreter-schedule, P=1) by VerifC17DocsConcurrent"),
 "C20-8": ("C20", "011957e", "two concurrent Sends to the same peer with a payload over 16 KiB", ["C20"], "VIOLATION by VerifC12RawFrame / VerifC20FrameRoundTrip"),
 # round 14 (base 011957e)
 "C07-8": ("C07", "011957e", "a document store holding at least 16 live documents, count not a multiple of 4; Query", ["C07"], "VIOLATION (native replay) by VerifC07QueryMany"),
 "C09-8": ("C09", "011957e", "database A closed more than once (Close + Drop) while database B of the instance stays open and is then used", ["C09"], "VIOLATION (native replay) by VerifC09CloseTwice"),
 "C10-7": ("C10", "011957e", "a forged-author entry naming writer w1 (made by writer w2) fetched before w1's genuine entries in one batch", ["C10"], "VIOLATION (native replay) by VerifC10ForgedInBatch"),
 "C11-7": ("C11", "011957e", "a provider that stays silent for a non-head block longer than twice the new fetch timeout, then a later request", ["C11"], "VIOLATION (interpreter, virtual time) by VerifC11LateProvider"),
 "C14-8": ("C14", "011957e", "one *CreateDBOptions value reused for a call on one database and then for Open of a database of another type / write list", ["C14"], "VIOLATION (native replay) by VerifC14Reuse"),
 "C16-9": ("C16", "011957e", "a batch containing a fetched log the join rejects (writer's head linking to a non-writer's entry)", ["C16", "C10"], "VIOLATION (native replay) by VerifC10Mixed (event-content oracle)"),
 "C18-9": ("C18", "011957e", "instance Close while a Create's store constructor is running", ["C18"], "VIOLATION (native replay) by VerifC18CloseDuringOpen"),
 "C19-7": ("C19", "011957e", "Load of a log with two cached heads that share history", ["C19"], "VIOLATION (native replay) by VerifC19History"),
 # round 15 (base 011957e)
 "C01-9": ("C01", "011957e", "two concurrent heads signed with the same key (one identity on two devices) passed to Sync in one call", ["C01"], "VIOLATION (native replay) by VerifC01Grouping"),
 "C03-8": ("C03", "011957e", "a write list holding an entry that is not a full id (empty string, truncated id)", ["C03"], "VIOLATION (native replay) by VerifC03CanAppend (concrete list entries)"),
 "C04-8": ("C04", "011957e", "an entry carrying another database's log id and naming the local replica's identity id", ["C04"], "VIOLATION (native replay) by VerifC04ForeignChain (foreign entries by the local identity)"),
 "C05-9": ("C05", "011957e", "a local write landing while replicationLoadComplete runs, then a stop before another write or merge", ["C05"], "VIOLATION by VerifC05WriteDuringMerge"),
 "C06-9": ("C06", "011957e", "Put(k, buf), the caller reuses buf, a later index update", ["C06"], "VIOLATION (native replay) by VerifC06EdgeKeys (value ownership)"),
 "C13-8": ("C13", "011957e", "snapshot of a log with a fork (two concurrent writers), loaded by a fresh instance", ["C13"], "VIOLATION (native replay) by VerifC13Snapshot"),
 "C17-7": ("C17", "011957e", "two goroutines calling AddOperation with unbuffered progress channels read in a fixed order", ["C17"], "VIOLATION (deadlock) by VerifC17Callbacks"),
 "C20-9": ("C20", "011957e", "a remote peer subscribes, unsubscribes and subscribes again under one live pubsubraw watcher", ["C20"], "VIOLATION (interpreter-only) by VerifC20RawPeers"),
 # round 16 (base 011957e)
 "C08-8": ("C08", "011957e", "partial Load, then older history merged under unchanged heads, then Get / List", ["C08", "C01"], "VIOLATION (native replay) by VerifC08Window / VerifC01Log"),
 "C09-9": ("C09", "011957e", "database A announced while it has a peer, then a peer joins the topic of database B of the same instance", ["C09"], "VIOLATION (native replay) by VerifC09LateJoin"),
 "C10-8": ("C10", "011957e", "remote entries merged, then a batch with a log the join refuses, then close, reopen, Load", ["C10"], "VIOLATION (native replay) by VerifC10Before"),
 "C12-9": ("C12", "011957e", "one topic message with more than 4 heads of which one fails its hash check", ["C12"], "VIOLATION (deadlock) by VerifC12RepeatedHeads (with-tampered-heads)"),
 "C14-9": ("C14", "011957e", "an address written with a trailing slash passed to Open with Create:true (Log / KeyValue / Docs)", ["C14"], "VIOLATION (native replay) by VerifC14Reopen (trailing-slash-spelling)"),
 "C15-8": ("C15", "011957e", "key-value or document store, several cached heads, positive limit that trims entries fetched for the first head", ["C15"], "VIOLATION (native replay) by VerifC15View"),
 "C19-8": ("C19", "011957e", "LoadFromSnapshot of an older snapshot on an open store that is ahead of it", ["C19"], "VIOLATION (native replay) by VerifC19History"),
 "C20-10": ("C20", "011957e", "Close, then Connect, then Send or Close on the same pairwise channel object", ["C20"], "VIOLATION (deadlock) by VerifC20AfterClose"),
 # round 17 (base 011957e)
 "C02-9": ("C02", "011957e", "a writer with unannounced writes restarts; the join triggered by its re-open is handled before Load", ["C02"], "VIOLATION (native replay) by VerifC02Heal"),
 "C05-10": ("C05", "011957e", "one *CreateDBOptions value used for two databases of an instance, a write to the second, a restart", ["C05", "C09"], "VIOLATION (native replay) by VerifC05SharedOptions"),
 "C09-10": ("C09", "011957e", "two databases with the same manifest root and different paths on one instance, a direct-channel head exchange for one of them", ["C09"], "VIOLATION by VerifC09SameRoot"),
 "C10-9": ("C10", "011957e", "a valid log buffered by the replicator while the last fetch of the burst fails", ["C10"], "VIOLATION (native replay) by VerifC10Mixed (unfetchable-ancestor)"),
 "C12-10": ("C12", "011957e", "an ill-typed topic message carrying a head with next / refs, then a genuine announcement whose head has none", ["C12"], "VIOLATION by VerifSysMalformed (ill-typed-with-heads)"),
 "C14-10": ("C14", "011957e", "two calls on one instance with write lists that are permutations of each other", ["C14"], "VIOLATION (native replay) by VerifC14Injective / VerifC14Reuse"),
 "C16-10": ("C16", "011957e", "a fetched log containing an entry of another database (filtered before the join)", ["C16"], "VIOLATION (native replay) by VerifC10Mixed (event-content oracle)"),
 "C18-10": ("C18", "011957e", "a peer on the database topic that never appears on the pairwise topic; the store is closed while its head exchange waits", ["C18"], "VIOLATION (virtual time) by VerifC18ConnectCancelled"),
 # round 18 (base 011957e)
 "C13-9": ("C13", "011957e", "a log whose snapshot file is larger than 256 KiB (buffered reader with unchecked short reads)", ["C13"], "VIOLATION (native replay) by VerifC13Snapshot"),
 "C07-9": ("C07", "011957e", "a document read once, then overwritten by a REPLICATED operation, then read again", ["C07", "C01"], "VIOLATION (native replay) by VerifC01Docs"),
 "C08-9": ("C08", "011957e", "an unbounded query with amount unset, 0 or 1 on a log with two or more heads", ["C08"], "VIOLATION (native replay) by VerifC08Writers (latest-entry oracle)"),
 "C11-8": ("C11", "011957e", "the last worker of a burst to finish is a failed or cancelled fetch", ["C11"], "VIOLATION (native replay) by VerifC11Abort / VerifC11CancelAnywhere (labels other than the listed finding)"),
 "C03-9": ("C03", "011957e", "a permitted writer's entry offered under the CLAIMED address of a non-writer's entry, then the non-writer's entry itself (ipfs access controller)", ["C03"], "VIOLATION (native replay) by VerifC03Instance (spoofed-address-first)"),
 "C04-9": ("C04", "011957e", "a tampered ancestor rejected by live replication; SaveSnapshot, restart, LoadFromSnapshot into an empty store", ["C04"], "VIOLATION (native replay) by VerifC04SnapshotAfterReject"),
 "C06-10": ("C06", "011957e", "put, delete and re-put of one key, then a rebuild of the view", ["C06", "C01"], "VIOLATION (native replay) by VerifC06Replay / VerifC01KV"),
 "C01-10": ("C01", "011957e", "a batch put (PUTALL) one of whose documents was overwritten later", ["C01", "C07"], "VIOLATION (native replay) by VerifC01Docs"),
}
for seed, (prop, base, needs, by, note) in T.items():
    d = os.path.join(V, "seeded", seed)
    if not os.path.isdir(d):
        continue
    conf = ""
    cl = os.path.join(d, "confirm.log")
    if os.path.exists(cl):
        lines = [l.strip() for l in open(cl) if l.startswith(seed + " base=")]
        conf = lines[-1] if lines else ""
    demo = [os.path.relpath(p, d) for p in glob.glob(os.path.join(d, "**", "*"), recursive=True)
            if os.path.isfile(p) and ("_test.go" in p)]
    det = {}
    dp = os.path.join(d, "detect.json")
    if os.path.exists(dp):
        try:
            det = json.load(open(dp))
        except Exception:
            det = {}
    meta = {
        "seed": seed, "breaks_property": prop, "base_commit": base,
        "needs_to_manifest": needs,
        "files": {"patch": "patch.diff", "demonstration": demo, "description": "README.md"},
        "confirmed_by_me": conf or "pending (see confirm.log)",
        "what_i_ran": "tools/confirm_seed.sh: scratch worktree at base_commit outside /repo and /verif; git apply; go build ./...; full pinned suite (tools/run_baseline.sh); demonstration with the patch (must fail) and without (must pass); worktree removed. Then tools/try_seed.sh: patch applied to /repo HEAD, ./check <property>, reverted.",
        "detected_by_checks": by, "detection": note,
        "last_matrix_run": det,
    }
    json.dump(meta, open(os.path.join(d, "meta.json"), "w"), indent=1)
print("wrote", len(T))

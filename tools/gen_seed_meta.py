#!/usr/bin/env python3
"""Writes /verif/seeded/<id>/meta.json from the table below, the confirmation logs
(tools/confirm_seed.sh) and the detection results (tools/try_seed.sh)."""
import json, os, re, glob
V = os.path.dirname(os.path.dirname(os.path.abspath(__file__)))
T = {
 # seed: (property, base commit, needs, detected_by, detection_note)
 "C01-1": ("C01", "b86d319", "two writers with concurrent branches; a branch with a lower Lamport time is merged after the receiver indexed a higher one (incremental kv index stops at its previous tip)", ["C01", "C06"], "VIOLATION (native replay)"),
 "C06-1": ("C06", "b86d319", "same mechanism as C01-1 (kv index remembers the last applied hash)", ["C06", "C01"], "VIOLATION (native replay)"),
 "C04-1": ("C04", "b86d319", "two cooperating sites: Sync keeps going after a hash mismatch and the replicator trusts the announced head object; relied on rejected heads being handed to the replicator", [], "OBSOLETE on the current tree: fix b039329 hands only verified heads to the replicator, so the patch no longer applies nor breaks the property"),
 "C05-1": ("C05", "b86d319", "crash exactly between the EventReplicated emission and the _remoteHeads cache write", ["C05", "C16"], "VIOLATION (native replay)"),
 "C08-1": ("C08", "b86d319", "a local Add whose index refresh read the log before a concurrent merge publishes its stale listing after it (one thread set aside while a chain of others runs)", ["C08"], "VIOLATION (interpreter-schedule: 1 stall preemption)"),
 "C20-1": ("C20", "b86d319", "two membership snapshots where as many peers join as leave", ["C20"], "VIOLATION (native replay)"),
 "C07-1": ("C07", "b039329", "two writers, concurrent branch merged below the previous tip (incremental document index)", ["C07"], "VIOLATION (native replay)"),
 "C12-1": ("C12", "b039329", "a head naming a writer, with identity signatures but a null clock (typed-nil passes != nil)", ["C12"], "VIOLATION (native replay, process crash)"),
 "C19-1": ("C19", "b039329", "multi-writer log with concurrent branches replicated through the replicator (entry count exceeds the largest clock)", ["C19"], "VIOLATION (native replay) by the history harness"),
 "C02-1": ("C02", "b039329", "replica that has both cached local and remote heads; json.Unmarshal into a reused slice overwrites the local head in the exchanged-heads message; then partition + heal", ["C02"], "VIOLATION (native replay)"),
 "C16-1": ("C16", "b039329", "legacy channel subscriber more than 145 events behind", ["C16"], "VIOLATION (native replay) by VerifC16LegacyStall N=200"),
 "C18-1": ("C18", "b039329", "Close while a replication started under a foreign context has a fetch pending on an unreachable provider", ["C18"], "VIOLATION (native replay) by the pending-fetch activity"),
 "C03-1": ("C03", "bc0da83", "non-writer's head carrying a foreign log id; relied on the dependency merging unverified foreign-log-id heads", [], "OBSOLETE on the current tree: fix f2f3049 filters foreign-log-id entries before every join, the patched tree no longer breaks the property (check passes)"),
 "C04-2": ("C04", "bc0da83", "claimed address is a codec alias (same multihash digest, raw codec) of the genuine address", ["C04"], "VIOLATION (native replay) after CID tokens were given a codec + digest structure"),
 "C09-2": ("C09", "bc0da83", "write to B then write to A while B's announcer goroutine is between spawn and Peers() (shared loop variable)", ["C09"], "VIOLATION (interpreter-schedule, P=1)"),
 "C10-2": ("C10", "bc0da83", "a log that fails Join followed by a valid log in the same load-end batch (delete-while-iterating)", ["C10"], "VIOLATION (native replay)"),
 "C11-2": ("C11", "bc0da83", "cancellation between sem.Acquire succeeding and the worker taking the process lock leaks the slot", ["C11"], "VIOLATION (interpreter-schedule) by cancel-at-any-step"),
 "C15-1": ("C15", "bc0da83", "several heads, every branch shorter than the limit, union longer", ["C15"], "VIOLATION (interpreter-schedule: depends on the order of Load's per-head goroutines)"),
 "C17-1": ("C17", "bc0da83", "two concurrent writers, puts in the opposite order of appends, then restart", ["C17"], "VIOLATION (native replay by turnstile)"),
 "C14-2": ("C14", "809b9c4", "two different names that clean to the same path (nested//db vs nested/db)", ["C14"], "VIOLATION (native replay)"),
 "C05-2": ("C05", "809b9c4", "two concurrent remote branches replicated in separate batches, then restart (only the last batch's heads are cached)", ["C05"], "VIOLATION (native replay)"),
 "C08-2": ("C08", "809b9c4", "entries sharing a Lamport time (concurrent writers) and a bound on the wrong side of its tie group", ["C08"], "VIOLATION (native replay) after clock times were made symbolic with ties"),
 "C13-2": ("C13", "809b9c4", "header longer than 65535 bytes while every entry is shorter (uint16 variable makes the guard dead)", ["C13"], "VIOLATION (native replay with real payload sizes)"),
 "C06-2": ("C06", "809b9c4", "two writers on the same key with equal Lamport time (index sorts on time only)", ["C06"], "VIOLATION (native replay)"),
 "C20-2": ("C20", "809b9c4", "two overlapping Connect calls for the same peer (check-then-act)", ["C20"], "VIOLATION (interpreter-schedule, P=1) by VerifC20ConnectRace"),
 "C01-2": ("C01", "809b9c4", "two writers' concurrent branches reach a reader in separate batches (only the last batch's heads are cached), then the reader restarts from its own disk", ["C01"], "VIOLATION by the batched-reader restart route added to Converge (all three store harnesses)"),
 "C16-2": ("C16", "809b9c4", "a local write on a key-value/document store while a replicated batch is inside its view rebuild (coalesced rebuild returns before the view holds the write)", ["C16"], "VIOLATION (interpreter-schedule: local write injected at the view-rebuild lock) by VerifC16WriteDuringMerge"),
}
for seed, (prop, base, needs, by, note) in T.items():
    d = os.path.join(V, "seeded", seed)
    if not os.path.isdir(d):
        continue
    conf = ""
    cl = os.path.join(d, "confirm.log")
    if os.path.exists(cl):
        lines = [l.strip() for l in open(cl) if l.startswith(seed + " base=")]
        conf = lines[-1] if lines else ""
    demo = [os.path.relpath(p, d) for p in glob.glob(os.path.join(d, "**", "*"), recursive=True)
            if os.path.isfile(p) and ("_test.go" in p)]
    meta = {
        "seed": seed, "breaks_property": prop, "base_commit": base,
        "needs_to_manifest": needs,
        "files": {"patch": "patch.diff", "demonstration": demo, "description": "README.md"},
        "confirmed_by_me": conf or "pending (see confirm.log)",
        "what_i_ran": "tools/confirm_seed.sh: scratch worktree at base_commit outside /repo and /verif; git apply; go build ./...; full pinned suite (tools/run_baseline.sh); demonstration with the patch (must fail) and without (must pass); worktree removed. Then tools/try_seed.sh: patch applied to /repo HEAD, ./check <property>, reverted.",
        "detected_by_checks": by, "detection": note,
    }
    json.dump(meta, open(os.path.join(d, "meta.json"), "w"), indent=1)
print("wrote", len(T))

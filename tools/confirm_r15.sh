#!/bin/bash
# round 15 (base 011957e) + re-runs of two round-14 seeds whose suite run hit load-sensitive tests
c(){ /verif/tools/confirm_seed.sh "$@"; }
B=011957e
c C01-9 $B demo/sync_grouping_c01n_test.go.txt tests/zz_seeded_test.go ./tests/ TestC01nManualSyncGrouping
c C03-8 $B demo/seed_c03n_write_list_match_test.go.txt tests/zz_seeded_test.go ./tests/ TestSeedC03nWriteListMatch
c C04-8 $B demo/seed_c04n_own_identity_test.go.txt tests/zz_seeded_test.go ./tests/ TestSeedC04nEntryNamingTheLocalIdentity
c C05-9 $B demo/write_during_merge_test.go.txt tests/zz_seeded_test.go ./tests/ TestSeedC05nWriteDuringMergeSurvivesRestart
c C06-9 $B demo/seed_c06n_value_ownership_test.go.txt tests/zz_seeded_test.go ./tests/ TestSeedC06nValueOwnership
c C13-8 $B demo/seed_c13n_snapshot_writers_test.go.txt tests/zz_seeded_test.go ./tests/ TestSeedC13nSnapshotOfTwoWriters
c C17-7 $B demo/seed_c17n_concurrent_callbacks_test.go.txt tests/zz_seeded_test.go ./tests/ TestSeedC17nConcurrentWritersWithProgressChannels
c C20-9 $B demo/rejoin_test.go.txt pubsub/pubsubraw/zz_seeded_test.go ./pubsub/pubsubraw/ TestSeedC20nPeerRejoinIsReported
c C07-8 $B demo/docs_query_many_test.go.txt tests/zz_seeded_test.go ./tests/ TestDocumentsStoreQueryManyDocuments
c C19-7 $B demo/seed_c19m_load_status_test.go.txt tests/zz_seeded_test.go ./tests/ TestSeedC19mLoadStatusTwoWriters

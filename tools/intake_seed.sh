#!/bin/bash
# usage: intake_seed.sh <agent-worktree> <seed-id>   copies <worktree>/SEED into seeded/<id>
# (patch.diff, demo/, README.md) and writes a minimal meta.json (completed by gen_seed_meta.py).
set -e
WT=$1; ID=$2
HERE=$(cd "$(dirname "$0")/.." && pwd)
D=$HERE/seeded/$ID
mkdir -p "$D"
cp -r "$WT"/SEED/* "$D"/
rm -f "$D"/*.log
[ -s "$D/patch.diff" ] || (cd "$WT" && git diff > "$D/patch.diff")
BASE=$(cd "$WT" && git rev-parse --short HEAD)
PROP=${ID%%-*}
[ -f "$D/meta.json" ] || printf '{\n "seed": "%s",\n "breaks_property": "%s",\n "base_commit": "%s"\n}\n' "$ID" "$PROP" "$BASE" > "$D/meta.json"
ls "$D"

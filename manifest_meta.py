# Human-written level texts per claimed property (used by tools/gen_manifest.py).
HOOK_COMMITS = []
META = {
    "C13": {
        "text": "Bounded model checking of the real snapshot writer and reader: shapes enumerated, and — for the framing — every encoded document's byte length a symbolic integer up to 1 MiB, so the solver decides whether some payload size makes SaveSnapshot succeed while LoadFromSnapshot fails (the 16-bit length prefix), and whether GetQueue can index out of range. A concurrent harness lets the log grow (local write or the join ending a replication) at any visible step of SaveSnapshot. Two-writer shapes have concurrent chains of any lengths nb + na = T (heads with equal or different clock times), optionally merged; a pending-queue harness saves while a replication is stuck and loads with the pending block unavailable. The loading instance may already hold the branch under one saved head.",
        "design_ref": "DESIGN.md §2 C13",
        "note": "Trusted: gosym incl. its rope-bytes model (symbolic segment lengths, alignment queries), in-memory Unixfs. Bounds: T<=3 entries (shapes) / 2 (sizes), lengths in [2, 2^20].",
    },
    "C18": {
        "text": "Bounded model checking of shutdown on the real code: the moment of Close is a path decision over every visible operation of a write, a replication or a load; the interpreter owns all goroutines started by the store, so 'no background activity left' and 'later operations return' are decided from the thread table at quiescence, not from time-outs. Drop/instance Close run on a real orbitDB instance over a disk model. At instance level the whole orbitDB instance (or one store) is closed at any visible step of a cross-instance replication or write, optionally after the context it was created with was cancelled; and a store is closed while a Load is stuck on an unavailable block. Drop is also checked with the sibling database opened under the SAME manifest root with another path.",
        "design_ref": "DESIGN.md §2 C18",
        "note": "Trusted: gosym thread model, stub bus/pubsub contracts (stated). Bounds: one Close moment per path, <= 2 repeats, one later operation; 2 databases for Drop.",
    },
    "C14": {
        "text": "Bounded model checking of the real address pipeline with the database name a symbolic byte string: 2-safety (two peers, same inputs, equal addresses), injectivity, self-description (Parse(String()) and manifest at the root), reopen on another peer (type and write list), overwrite / local-only refusal, and names embedding another database's root. The address package's Parse / String / IsValid round trip runs on symbolic strings of up to 5 bytes (percent escapes, slashes), and the root package's helper constructors are covered by VerifC14Helpers. A reuse harness passes ONE parameter / options value through Create (and Open) of a first database and then, with another write list, through DetermineAddress and Create of a second one.",
        "design_ref": "DESIGN.md §2 C14",
        "note": "Trusted: perfect hashing, idealised CBOR driven by the registered atlases, disk model. Bounds: names <= 2 bytes quick / 4 thorough (injectivity 1 / 2), 3 store types, <= 3 writers.",
    },
    "C02": {
        "text": "Bounded model checking of a two-replica closed system executing the real write, announce, exchange-heads, Sync, replicator, Join and Load code: every fault plan of lost announcements and one restart within STEPS steps is explored (payloads symbolic), then the heal phase runs and both logs are compared. A second, instance-level harness runs 2-3 REAL orbitDB instances (newOrbitDB, Create/Open, monitorDirectChannel, handleEventExchangeHeads, store listeners) over a simulated network with link cuts, lost / duplicated announcements, restarts over the same directory and restarts that lose an in-memory cache. A third harness lets a peer OPEN the database while a replica holding acknowledged writes is connected: every schedule of the opening thread with one preemption (found the open-vs-head-exchange race fixed in 062ac51); store-level close / reopen on a live instance is a step of the system harness. A restart-race harness runs the Load of a restarted store concurrently with the Sync of heads written while it was down.",
        "design_ref": "DESIGN.md §2 C02",
        "note": "Trusted: gosym thread model, stub network (announcement delivery decided by the harness), perfect hashing. Bounds: 2 replicas, STEPS<=4 quick / 6 thorough, one restart kind.",
    },
    "C03": {
        "text": "Bounded model checking under a Dolev-Yao attacker: every combination of forged author fields is built with the real ipfs-log and delivered by both routes to a replica running the real Sync/replicator/Join/Verify/CanAppend code; plus symbolic-list unit checks of all three controllers. The class 'writer's id named in an entry signed by someone else' (formerly a known finding) was repaired in /repo and is verified like the rest. An instance-level harness checks that each database of one orbitDB instance enforces its OWN write list (ipfs / manifest-less simple controllers resolved by createStore, non-writer entries by sync, direct channel and topic). The forging space includes the writer's id signature COPIED under the attacker's key, and every controller decision is also taken after the controller has verified a genuine entry of the impersonated writer (process-wide caches).",
        "design_ref": "DESIGN.md §2 C03, §4",
        "note": "Trusted: perfect symbolic cryptography, gosym. The former known finding C03-id-not-bound-to-key was repaired in /repo (0e0edba): forged author fields incl. re-signed id signatures are now part of the verified space, nothing is carved out.",
    },
    "C04": {
        "text": "Bounded model checking of the hash check in Sync, the replicator's fetch-by-hash and Join's log-id / signature verification: every single-field mutation (new clock time fully symbolic), with or without re-addressing, by both routes; the tampered entry must be absent at quiescence, held entries intact, and the original still acceptable. A further harness links a valid entry to a chain of entries validly written for another database and checks, after replication, after restart + load (whole ancestry fetched as one log) and on a relayed replica, that nothing with a foreign log id is listed, a head, or served. The codec-alias mutation is also delivered as an ancestor link (found the defect fixed in d77d3e0); the foreign-chain harness has an own chain of 1..H entries and a trimmed Load(n) on the live store or after restart. A snapshot harness rewrites the snapshot file so that a frame claims another entry's address.",
        "design_ref": "DESIGN.md §2 C04",
        "note": "Trusted: perfect hashing/signatures, gosym. Bounds: one tampered entry, 9 field selectors x re-address x route.",
    },
    "C10": {
        "text": "Bounded model checking of the real Sync/replicator/main-loop/Join code under adversarial announcements: each class of rejected head is built with the real ipfs-log (perfect symbolic signatures), mixed with a valid head at each position, and the valid head is re-announced; the replica's log is inspected at quiescence. The rejected head may claim the valid entry's address and may be announced alone before it.",
        "design_ref": "DESIGN.md §2 C10",
        "note": "Trusted: gosym thread model, stub block store, perfect crypto. Bounds: 2 heads per announcement, 5 rejection classes x 2 positions.",
    },
    "C11": {
        "text": "Bounded model checking of the real replicator with the abort point as a choice: cancellation before the request, at every block fetch, after the last fetch, and/or a failing fetch, for chain and two-branch logs and concurrency 1..2; then a clean retry must converge. One class of counterexamples is a listed known finding (partial ancestry); its complement is verified. A saturated-replicator harness (one fetch slot, two heads, abort at the first or second fetch) explores which waiting worker gets the slot under every schedule within the preemption bound; the later request names the same heads or a newer head.",
        "design_ref": "DESIGN.md §2 C11, §4",
        "note": "Trusted: gosym thread model, stub block store with fault injection at fetches. Known finding C11-partial-ancestry is reported (KNOWN-FINDING line) and carved out.",
    },
    "C09": {
        "text": "Bounded model checking of the real listeners and main loops of two stores sharing one bus: every action sequence on one database (symbolic payloads) is executed on the real InitBaseStore/storeListener/replicator/main-loop code and the other database's topic, log, status and the addresses on all emitted events are checked at quiescence. At instance level two real orbitDB instances hold the same two databases; head exchanges for both travel back to back over one direct channel and replicate concurrently on the shared bus; contents, status, events and every wire message are checked per database. A valid entry of database B handed to A (manually or on A's topic / direct channel) is part of the action alphabet. The second instance also opens both databases with ONE reused options value.",
        "design_ref": "DESIGN.md §2 C09",
        "note": "Trusted: gosym, stub bus/pubsub/direct channel. Bounds: 2 databases, STEPS<=3 quick / 4 thorough.",
    },
    "C05": {
        "text": "Bounded model checking with the crash point as a solver variable: the real write and replication paths run over a disk that logs every persistence effect in order, acknowledgement instants are recorded, the crash index is a symbolic integer over all prefixes of the effect log, and the real Load runs on the recovered prefix; the solver shows every acknowledged entry is recovered, nothing unwritten appears, the log is ancestry-closed and the view matches. At instance level: clean close / reopen cycles by address and by name (Create with Overwrite) incl. reopen attempts that fail, and identity persistence through the public NewOrbitDB (real keystore and CreateIdentity over symbolic keys and a disk model with leveldb's directory lock). A sessions harness goes through clean close / reopen sessions with ANY load limit, extra writes and a second handle on the same directory, then reloads in full. A burst harness captures the disk image at the instant each of several concurrent writes is acknowledged and reloads from it.",
        "design_ref": "DESIGN.md §2 C05",
        "note": "Trusted: gosym, z3, the effect-log disk model (each effect durable on return). Bounds: STEPS<=3 quick / 4 thorough, one local and one remote writer.",
    },
    "C16": {
        "text": "Bounded model checking of the state-before-event clause on the real write and replication paths: emissions are intercepted synchronously and the real log/index/cache are queried at that instant, over every bounded history. The legacy channel emitter's two buffering goroutines are executed under every thread schedule within the preemption bound and the received sequence is compared with the emitted one. The real eventbus is outside (stated). Every emitted replicated event is also retained and read at the end of the history (slow subscriber): it must still announce its own batch, and each merged remote entry is announced exactly once. Further harnesses: a replication batch that only adds history below the heads still announces (Backfill); several legacy subscribers of which one is cancelled while the emitter is blocked on it (found the emitter deadlock fixed in c9d6a41).",
        "design_ref": "DESIGN.md §2 C16",
        "note": "Clause (a) and clause (c) (legacy emitter: N=18 events, every schedule with <= 2 preemptions; stalled subscriber with 200 events). Clause (b), the real libp2p eventbus, is outside. Bounds as stated.",
    },
    "C01": {
        "text": "Bounded model checking of the whole replication pipeline on the real code: two writer stores and a fresh replica run the real AddOperation, Sync, replicator, ipfs-log fetcher, Join and index code inside the interpreter; the history shape is enumerated, keys/values are symbolic, and the solver shows that all replicas holding the same entries list them in the same order and expose the same view, equal to the replay of the log. The third replica receives the entries by one of five routes, including a partial load from disk (limit) completed by the heads a lagging peer announces. An overlap harness lets the same entries reach a restarted event-log replica by Load and by Sync at the same time (every schedule with one preemption).",
        "design_ref": "DESIGN.md §2 C01",
        "note": "Trusted: gosym (incl. its cooperative thread model with run-to-block scheduling), z3, block-store/bus/cache stubs, idealised JSON, perfect hashing/signatures. Bounds: 2 writers + 1 reader, STEPS<=3 quick / 4-5 thorough.",
    },
    "C15": {
        "text": "Bounded model checking of the real Load path (cache heads -> ipfs-log fetcher -> Join with size trimming -> index) with the limit a full 64-bit symbolic integer: the solver partitions the limit's range at every comparison in the real code and shows, per class, no panic, no error and exactly min(n,total) most recent entries in log order. With several cached heads the per-head goroutines of Load are explored under every schedule within the preemption bound. A sequence harness issues Load(n), lets the open log grow, and loads again with a limit within what it holds.",
        "design_ref": "DESIGN.md §2 C15",
        "note": "Trusted: gosym, z3, block-store/cache stubs. Bounds: logs of T<=3 quick / 5 thorough entries, one or two heads, P=1 preemption.",
    },
    "C17": {
        "text": "Bounded model checking over thread schedules of the real write path: the interpreter owns scheduling, every preemption point at a visible operation is a decision of the path (preemption bound P), payloads are symbolic; each schedule is executed on the real AddOperation/Append/Load code and the oracle (distinct entries, all listed, all recovered after restart) is checked on it. A second harness races W writers against the END of a replication (replicationLoadComplete persists heads too) under every schedule with P preemptions, then restarts. Both harnesses also require every acknowledged entry in the VIEW (materialised index) as soon as all calls returned.",
        "design_ref": "DESIGN.md §2 C17",
        "note": "Trusted: gosym's thread model (sequentially consistent at visible-operation granularity), stub cache/block store. Bounds: W=2,P=1 quick / W=3,P=2 thorough. The deciding step is exhaustive enumeration of schedules within the bound, each closed by solver verdicts over the symbolic payloads.",
    },
    "C20": {
        "text": "Bounded model checking of the real adapter code: peersDiff over all membership-snapshot sequences with symbolic peer ids, the self-filter and ordering of WatchMessages/monitorTopic over scripted messages with symbolic bodies, channel-name symmetry/injectivity over symbolic ids, and the varint frame round trip plus arbitrary raw frames. The pubsubraw adapter runs over scripted stand-ins for libp2p-pubsub's concrete Topic / Subscription / TopicEventHandler (methods replaced by name under the interpreter). Further harnesses: WatchPeers / two watchers of one topic with one cancelled, the direct-channel factory, reconnect after the Connect context ended, and the pubsubraw adapter over scripted libp2p stand-ins. A poll-error harness makes one poll of the underlying Peers() fail transiently at any position.",
        "design_ref": "DESIGN.md §2 C20",
        "note": "Trusted: gosym, z3, scripted coreiface PubSub stub. Bounds: 3 peers x 3/4 snapshots, 3/5 messages, ids <= 2/3 bytes, payloads <= 3/6 bytes, raw frames <= 11/12 bytes.",
    },
    "C12": {
        "text": "Bounded model checking of the real message-handling code with the input fully symbolic: raw stream frames as arbitrary byte strings (every varint / declared length), decoded head messages with every field independently nil/empty/present. Any feasible panic path is a counterexample the solver instantiates. At instance level the real monitorDirectChannel / handleEventExchangeHeads / topic listeners receive undecodable, ill-typed, mis-addressed and malformed-head payloads, alone or in one burst with honest traffic; allocations sized by a frame's length prefix are solver-checked against the frame limit. Malformed heads are also announced under a valid entry's own address with identity, key and signature copied from it (so memoised verdicts cannot poison the valid entry). A heads message may name the address of a database whose open failed.",
        "design_ref": "DESIGN.md §2 C12",
        "note": "Trusted: gosym, z3; encoding/json is over-approximated by 'error or any value of the message type' for head messages. Bounds: frames <= 11/12 bytes, <= 2 heads.",
    },
    "C06": {
        "text": "Bounded model checking of the real kvIndex.UpdateIndex / All / Get (through a store built by the real InitBaseStore): for every listing of N put/delete operations with symbolic keys and values and every earlier index state, the solver shows All() and Get(k) equal the last-writer-wins replay. A further harness gives two causally ordered puts SYMBOLIC clock values in [1, 2^40] (store-level sort), and a read-during-write harness checks a reader between append and index update. The map All() returns is treated as caller-owned: after the caller empties it and adds a key, All() and Get must still equal the replay. A happens-before harness overlaps the Load of a restarted replica with a replication and then puts the key again (it found the index snapshot race fixed in a87e428).",
        "design_ref": "DESIGN.md §2 C06",
        "note": "Trusted: gosym SSA semantics (native replay of sampled paths per run), z3, idealised JSON codec. Bounds: N<=3 quick / 4 thorough, 1-byte keys, 0..1-byte values.",
    },
    "C07": {
        "text": "Bounded model checking of the real documentIndex.UpdateIndex, Get, Query and Delete: every listing of N operations incl. batch puts over symbolic keys, every Get option combination with a symbolic search key, a family of Query predicates; the oracle is a reference replay written in the harness. The public-API history harness (VerifC01Docs) also runs here and checks that the operation a PutAll wrote is the batch that was given.",
        "design_ref": "DESIGN.md §2 C07",
        "note": "Trusted: gosym, z3, idealised JSON, ASCII-exact ToLower stand-in. Bounds: N<=2/3 ops, M<=2/3 documents, keys <=1/2 bytes printable ASCII without space.",
    },
    "C08": {
        "text": "Bounded model checking of the real query/read window code with the amount a full 64-bit symbolic integer and every bound kind/position: the solver shows the returned slice is exactly the specified contiguous window and the listing is not disturbed. The window harness drives the public List / Stream / Get as well as the internal query, twice, for listings of 0..N entries. A three-writer harness (Lamport-time ties between three writer keys) applies the same per-step oracle on every replica and requires identical listings after all-to-all exchange.",
        "design_ref": "DESIGN.md §2 C08",
        "note": "Trusted: gosym, z3. Bounds: listing length N<=4 quick / 6 thorough. The order-stability clause over merge histories is decided by the C01 harnesses (real ipfs-log), see DESIGN.",
    },
    "C19": {
        "text": "Bounded model checking of the real update functions: one inductive step from an ARBITRARY valid pre-state (progress, max, log length, argument all 64-bit symbolic) — the solver shows max'>=max, progress'>=progress, progress'<=max' and the at-rest equality for every value below 2^62, which covers histories of any length because the invariant is inductive. The history harness includes SaveSnapshot / LoadFromSnapshot steps and a fresh store loaded from the snapshot (this found the LoadFromSnapshot progress defect fixed in 36187f9); a two-database instance-level harness checks the at-rest clause per database. The history includes loads on the open store (everything or trimmed).",
        "design_ref": "DESIGN.md §2 C19",
        "note": "Trusted: gosym's SSA semantics (validated per run by native replay of sampled paths), z3. Assumes every status update goes through recalculateReplicationMax/Status (checked by reading; the harness drives exactly those). Bounds: values < 2^62.",
    },
}
NOT_APPLICABLE = {}

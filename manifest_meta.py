# Human-written level texts per claimed property (used by tools/gen_manifest.py).
HOOK_COMMITS = []
META = {
    "C19": {
        "text": "Bounded model checking of the real update functions: one inductive step from an ARBITRARY valid pre-state (progress, max, log length, argument all 64-bit symbolic) — the solver shows max'>=max, progress'>=progress, progress'<=max' and the at-rest equality for every value below 2^62, which covers histories of any length because the invariant is inductive.",
        "design_ref": "DESIGN.md §2 C19",
        "note": "Trusted: gosym's SSA semantics (validated per run by native replay of sampled paths), z3. Assumes every status update goes through recalculateReplicationMax/Status (checked by reading; the harness drives exactly those). Bounds: values < 2^62.",
    },
}
NOT_APPLICABLE = {}

package main

// Intrinsics for content addresses (CID tokens), peer ids, tracing and the
// substitution of the libp2p event bus by the harness stub bus.

import (
	"fmt"
	"go/token"
	"go/types"
	"math"
	"strings"
	"unicode"

	"golang.org/x/tools/go/ssa"
)

const cidPkg = "github.com/ipfs/go-cid"

func cidStr(v value) value { return v.(structure)[0] }

func (m *machine) namedType(pkg, name string) types.Type {
	p := m.pkgs[pkg]
	if p == nil {
		return nil
	}
	t := p.Type(name)
	if t == nil {
		return nil
	}
	return t.Type()
}

// isCidToken decides (forking on symbolic bytes) whether s has the shape of a CID stand-in token.
func (fr *frame) isCidToken(s value) bool {
	b := strBytes(s)
	if len(b) != 12 {
		return false
	}
	// "zdpu" = CIDv1 dag-cbor, "zraw" = CIDv1 raw; the remaining 8 characters are the digest
	match := func(prefix string) bool {
		for k := 0; k < len(prefix); k++ {
			eq := fr.i.byteEq(b[k], prefix[k])
			switch e := eq.(type) {
			case bool:
				if !e {
					return false
				}
			case sym:
				if !fr.i.decideBool(e.t, "cid.Decode") {
					return false
				}
			}
		}
		return true
	}
	return match("zdpu") || match("zraw")
}

func (m *machine) registerEnvIntrinsics() {
	in := m.intrinsics
	in[vs+"CidFromToken"] = func(fr *frame, fn *ssa.Function, args []value) value {
		return structure{args[0]}
	}
	in[vs+"MkCid"] = func(fr *frame, fn *ssa.Function, args []value) value {
		return structure{fmt.Sprintf("zdpuMkCid%03d", asInt64(args[0]))}
	}
	cidT := "(" + cidPkg + ".Cid)."
	in[cidT+"String"] = func(fr *frame, fn *ssa.Function, args []value) value { return cidStr(args[0]) }
	in[cidT+"KeyString"] = in[cidT+"String"]
	in[cidT+"Encode"] = in[cidT+"String"]
	in[cidT+"Bytes"] = func(fr *frame, fn *ssa.Function, args []value) value {
		return append([]value(nil), strBytes(cidStr(args[0]))...)
	}
	// a CID token is <4-character version/codec prefix><8-character digest>
	in[cidT+"Hash"] = func(fr *frame, fn *ssa.Function, args []value) value {
		b := strBytes(cidStr(args[0]))
		if len(b) < 4 {
			return []value(nil)
		}
		return append([]value(nil), b[4:]...)
	}
	in[cidT+"Type"] = func(fr *frame, fn *ssa.Function, args []value) value {
		s, _ := cidStr(args[0]).(string)
		if strings.HasPrefix(s, "zraw") {
			return uint64(0x55)
		}
		return uint64(0x71)
	}
	in[cidT+"Version"] = func(fr *frame, fn *ssa.Function, args []value) value { return uint64(1) }
	// Prefix: version, codec, digest function and digest length of the address
	in[cidT+"Prefix"] = func(fr *frame, fn *ssa.Function, args []value) value {
		z := zero(fn.Signature.Results().At(0).Type()).(structure)
		out := append(structure(nil), z...)
		codec := uint64(0x71)
		if s, _ := cidStr(args[0]).(string); strings.HasPrefix(s, "zraw") {
			codec = 0x55
		} else if s == "" && !fr.isCidToken(cidStr(args[0])) {
			codec = 0
		}
		out[0] = uint64(1)
		out[1] = codec
		out[2] = uint64(0x12)
		switch z[3].(type) {
		case int64:
			out[3] = int64(32)
		case int:
			out[3] = int(32)
		}
		return out
	}
	in[cidPkg+".NewCidV1"] = func(fr *frame, fn *ssa.Function, args []value) value {
		prefix := "zdpu"
		if asInt64(args[0]) == 0x55 {
			prefix = "zraw"
		}
		return structure{mkstr(append(strBytes(prefix), args[1].([]value)...))}
	}
	in[cidT+"Defined"] = func(fr *frame, fn *ssa.Function, args []value) value { return strLen(cidStr(args[0])) > 0 }
	in[cidT+"Equals"] = func(fr *frame, fn *ssa.Function, args []value) value {
		return fr.i.strEq(cidStr(args[0]), cidStr(args[1]))
	}
	in[cidPkg+".Decode"] = func(fr *frame, fn *ssa.Function, args []value) value {
		if fr.isCidToken(args[0]) {
			return tuple{structure{args[0]}, iface{}}
		}
		return tuple{structure{""}, fr.i.newError("invalid cid")}
	}
	in[cidPkg+".Parse"] = func(fr *frame, fn *ssa.Function, args []value) value {
		it := args[0].(iface)
		if it.t != nil {
			if _, ok := it.t.Underlying().(*types.Basic); ok && fr.isCidToken(it.v) {
				return tuple{structure{it.v}, iface{}}
			}
			if isCidType(it.t) {
				return tuple{it.v, iface{}}
			}
		}
		return tuple{structure{""}, fr.i.newError("invalid cid")}
	}
	in["github.com/multiformats/go-multibase.NewEncoder"] = func(fr *frame, fn *ssa.Function, args []value) value {
		return tuple{zero(fn.Signature.Results().At(0).Type()), iface{}}
	}
	in["github.com/multiformats/go-multibase.MustNewEncoder"] = func(fr *frame, fn *ssa.Function, args []value) value {
		return zero(fn.Signature.Results().At(0).Type())
	}

	m.registerDiskIntrinsics()

	// peer.ID is a string type
	peerT := "(github.com/libp2p/go-libp2p/core/peer.ID)."
	in[peerT+"String"] = func(fr *frame, fn *ssa.Function, args []value) value { return args[0] }
	in[peerT+"Pretty"] = in[peerT+"String"]
	in[peerT+"ShortString"] = in[peerT+"String"]
	in[peerT+"Validate"] = func(fr *frame, fn *ssa.Function, args []value) value {
		if strLen(args[0]) == 0 {
			g := m.pkgs["github.com/libp2p/go-libp2p/core/peer"].Var("ErrEmptyPeerID")
			return *fr.i.global(g)
		}
		return iface{}
	}
	in["github.com/libp2p/go-libp2p/core/peer.Decode"] = func(fr *frame, fn *ssa.Function, args []value) value {
		if strLen(args[0]) == 0 {
			return tuple{"", fr.i.newError("empty peer id")}
		}
		return tuple{args[0], iface{}}
	}

	// tracing: a no-op tracer whose Start returns the context unchanged
	noopPkg := "go.opentelemetry.io/otel/trace/noop"
	in["("+noopPkg+".TracerProvider).Tracer"] = func(fr *frame, fn *ssa.Function, args []value) value {
		t := m.namedType(noopPkg, "Tracer")
		return iface{t: t, v: zero(t)}
	}
	in["("+noopPkg+".Tracer).Start"] = func(fr *frame, fn *ssa.Function, args []value) value {
		t := m.namedType(noopPkg, "Span")
		return tuple{args[1], iface{t: t, v: zero(t)}}
	}
}

// leveldb: the datastore handle is a fake pointer mapped to a vstub disk store.
func (m *machine) registerDiskIntrinsics() {
	in := m.intrinsics
	ldb := "github.com/ipfs/go-ds-leveldb"
	in[ldb+".NewDatastore"] = func(fr *frame, fn *ssa.Function, args []value) value {
		open := m.lookupFunc(vstubPath, "DiskOpen")
		if open == nil {
			panic(engineError("vstub.DiskOpen missing"))
		}
		res := callSSA(fr.i, fr, 0, open, []value{args[0]}, nil).(tuple)
		if e, isIface := res[1].(iface); isIface && e.t != nil {
			// the directory is locked by a store that was never closed
			var nilp *value
			return tuple{nilp, res[1]}
		}
		cell := zero(fn.Signature.Results().At(0).Type().(*types.Pointer).Elem())
		p := &cell
		fr.i.handles[p] = iface{t: open.Signature.Results().At(0).Type(), v: res[0]}
		return tuple{p, iface{}}
	}
	for _, meth := range []string{"Get", "Put", "Has", "Delete", "Close", "Sync", "GetSize"} {
		meth := meth
		in["(*"+ldb+".Datastore)."+meth] = func(fr *frame, fn *ssa.Function, args []value) value {
			h, ok := fr.i.handles[fr.ptr(args[0])]
			if !ok {
				panic(engineError("leveldb handle not opened through NewDatastore"))
			}
			r, ok := fr.i.callMethod(fr, h, meth, args[1:]...)
			if !ok {
				panic(engineError("vstub.Cache lacks method " + meth))
			}
			return r
		}
	}
	in["os.RemoveAll"] = func(fr *frame, fn *ssa.Function, args []value) value {
		rm := m.lookupFunc(vstubPath, "DiskRemoveAll")
		return callSSA(fr.i, fr, 0, rm, []value{args[0]}, nil)
	}
}

func (m *machine) registerEnvReplacements() {
	eb := "github.com/libp2p/go-libp2p/p2p/host/eventbus."
	for name, repl := range map[string]string{
		eb + "NewBus":  "NewStubBus",
		vs + "DiskHas": "diskHasModel",
		vs + "DirAlias": "dirAliasModel",
		eb + "BufSize": "BusBufSize",
		eb + "Name":    "BusName",
	} {
		m.replace(name, repl)
	}
}

// sync/atomic: the primitive functions operate on the pointed-to cell in one
// step of the cooperative scheduler (they are visible operations, i.e.
// preemption points under schedule exploration).  The typed wrappers
// (atomic.Bool, Int32, Int64, Uint32, Uint64) are interpreted from source and
// end up here; atomic.Value and atomic.Pointer[T] are modelled on their methods.
func (m *machine) registerUnicodeIntrinsics() {
	in := m.intrinsics
	pred := func(f func(rune) bool) intrinsic {
		return func(fr *frame, fn *ssa.Function, args []value) value { return f(rune(fr.concInt(args[0], "unicode"))) }
	}
	conv := func(f func(rune) rune) intrinsic {
		return func(fr *frame, fn *ssa.Function, args []value) value {
			return int32(f(rune(fr.concInt(args[0], "unicode"))))
		}
	}
	for name, f := range map[string]func(rune) bool{
		"IsUpper": unicode.IsUpper, "IsLower": unicode.IsLower, "IsLetter": unicode.IsLetter, "IsDigit": unicode.IsDigit,
		"IsNumber": unicode.IsNumber, "IsSpace": unicode.IsSpace, "IsPunct": unicode.IsPunct, "IsPrint": unicode.IsPrint,
		"IsGraphic": unicode.IsGraphic, "IsControl": unicode.IsControl, "IsSymbol": unicode.IsSymbol, "IsTitle": unicode.IsTitle,
		"IsMark": unicode.IsMark,
	} {
		in["unicode."+name] = pred(f)
	}
	for name, f := range map[string]func(rune) rune{
		"ToUpper": unicode.ToUpper, "ToLower": unicode.ToLower, "ToTitle": unicode.ToTitle, "SimpleFold": unicode.SimpleFold,
	} {
		in["unicode."+name] = conv(f)
	}
}

func (m *machine) registerMathIntrinsics() {
	in := m.intrinsics
	f1 := func(f func(float64) float64) intrinsic {
		return func(fr *frame, fn *ssa.Function, args []value) value { return f(args[0].(float64)) }
	}
	f2 := func(f func(float64, float64) float64) intrinsic {
		return func(fr *frame, fn *ssa.Function, args []value) value { return f(args[0].(float64), args[1].(float64)) }
	}
	for name, f := range map[string]func(float64) float64{
		"Floor": math.Floor, "Ceil": math.Ceil, "Trunc": math.Trunc, "Round": math.Round, "Sqrt": math.Sqrt, "Abs": math.Abs,
		"Log": math.Log, "Log2": math.Log2, "Log10": math.Log10, "Exp": math.Exp,
	} {
		in["math."+name] = f1(f)
	}
	for name, f := range map[string]func(float64, float64) float64{
		"Max": math.Max, "Min": math.Min, "Mod": math.Mod, "Pow": math.Pow,
	} {
		in["math."+name] = f2(f)
	}
}

func (m *machine) registerAtomicIntrinsics() {
	in := m.intrinsics
	m.registerUnicodeIntrinsics()
	m.registerMathIntrinsics()
	a := "sync/atomic."
	elem := func(fn *ssa.Function) types.Type {
		return fn.Signature.Params().At(0).Type().Underlying().(*types.Pointer).Elem()
	}
	for _, ty := range []string{"Int32", "Int64", "Uint32", "Uint64", "Uintptr", "Pointer"} {
		in[a+"Load"+ty] = func(fr *frame, fn *ssa.Function, args []value) value {
			fr.i.visible(fr, "atomic")
			return *fr.ptr(args[0])
		}
		in[a+"Store"+ty] = func(fr *frame, fn *ssa.Function, args []value) value {
			fr.i.visible(fr, "atomic")
			*fr.ptr(args[0]) = args[1]
			return nil
		}
		in[a+"Swap"+ty] = func(fr *frame, fn *ssa.Function, args []value) value {
			fr.i.visible(fr, "atomic")
			p := fr.ptr(args[0])
			old := *p
			*p = args[1]
			return old
		}
		in[a+"CompareAndSwap"+ty] = func(fr *frame, fn *ssa.Function, args []value) value {
			fr.i.visible(fr, "atomic")
			p := fr.ptr(args[0])
			t := elem(fn)
			eq := fr.binop(token.EQL, t, t, *p, args[1])
			ok := false
			switch e := eq.(type) {
			case bool:
				ok = e
			case sym:
				ok = fr.i.decideBool(e.t, "atomic-cas")
			}
			if ok {
				*p = args[2]
			}
			return ok
		}
		if ty != "Pointer" {
			in[a+"Add"+ty] = func(fr *frame, fn *ssa.Function, args []value) value {
				fr.i.visible(fr, "atomic")
				p := fr.ptr(args[0])
				t := elem(fn)
				*p = fr.binop(token.ADD, t, t, *p, args[1])
				return *p
			}
		}
	}
	for _, ty := range []string{"Int32", "Int64", "Uint32", "Uint64", "Uintptr"} {
		for name, op := range map[string]token.Token{"And": token.AND, "Or": token.OR} {
			op := op
			in[a+name+ty] = func(fr *frame, fn *ssa.Function, args []value) value {
				fr.i.visible(fr, "atomic")
				p := fr.ptr(args[0])
				t := elem(fn)
				old := *p
				*p = fr.binop(op, t, t, *p, args[1])
				return old
			}
		}
	}
	in["internal/bytealg.MakeNoZero"] = func(fr *frame, fn *ssa.Function, args []value) value {
		n := int(fr.concInt(args[0], "MakeNoZero"))
		out := make([]value, n)
		for k := range out {
			out[k] = uint8(0)
		}
		return out
	}
	in["internal/stringslite.Clone"] = func(fr *frame, fn *ssa.Function, args []value) value { return args[0] }
	in["strings.Clone"] = func(fr *frame, fn *ssa.Function, args []value) value { return args[0] }
	in["internal/abi.NoEscape"] = func(fr *frame, fn *ssa.Function, args []value) value { return args[0] }
	// atomic.Value: the cell holds the stored interface value in a side table
	in["(*sync/atomic.Value).Load"] = func(fr *frame, fn *ssa.Function, args []value) value {
		fr.i.visible(fr, "atomic")
		if v, ok := fr.i.handles[fr.ptr(args[0])]; ok {
			return v
		}
		return iface{}
	}
	in["(*sync/atomic.Value).Store"] = func(fr *frame, fn *ssa.Function, args []value) value {
		fr.i.visible(fr, "atomic")
		fr.i.handles[fr.ptr(args[0])] = args[1].(iface)
		return nil
	}
	in["(*sync/atomic.Value).Swap"] = func(fr *frame, fn *ssa.Function, args []value) value {
		fr.i.visible(fr, "atomic")
		p := fr.ptr(args[0])
		old, ok := fr.i.handles[p]
		fr.i.handles[p] = args[1].(iface)
		if !ok {
			return iface{}
		}
		return old
	}
}

package main

// Symbolic layer over the concrete operators of ops.go.

import (
	"fmt"
	"go/token"
	"go/types"
	"unicode/utf8"

	"golang.org/x/tools/go/ssa"
)

func decodeRune(b []byte) (int32, int) {
	r, n := utf8.DecodeRune(b)
	if n == 0 {
		n = 1
	}
	return int32(r), n
}

// maxConcretize bounds value enumeration when a symbolic integer must become concrete.
const maxConcretize = 64

// concInt forces an integer value to a concrete int64 by forking over its feasible values.
func (fr *frame) concInt(v value, what string) int64 {
	s, ok := v.(sym)
	if !ok {
		return asInt64(v)
	}
	val := fr.i.decideValue("conc:"+what, s.t)
	return signExt(val, s.t.width)
}

// concLen concretises a length (makeslice); negative or huge values panic / cut.
func (fr *frame) concLen(v value, t types.Type, panicMsg string) int {
	s, ok := v.(sym)
	if !ok {
		n := asInt64(v)
		if n < 0 {
			fr.tpanic(panicMsg)
		}
		if n > 1<<24 {
			panic(pathEnd{kind: "cut", msg: "allocation larger than 16Mi elements"})
		}
		return int(n)
	}
	i := fr.i
	w := s.t.width
	// negative?  (only a signed operand can be)
	if _, signed, _ := intInfo(t); signed && i.decideBool(i.tt.App("bvslt", 0, s.t, i.tt.Const(w, 0)), "makeslice<0") {
		fr.tpanic(panicMsg)
	}
	// an allocation whose attacker-controlled size can exceed the limit the harness
	// declared (vstub.AllocLimit) is a violation: the solver decides it over all values
	if al := i.allocLimit; al > 0 {
		over := i.tt.App("bvugt", 0, s.t, i.tt.Const(w, uint64(al)))
		i.nasserts++
		i.assertTerm(fr, i.tt.App("not", 0, over), "an allocation sized by untrusted input never exceeds the documented limit")
	}
	// larger than the exploration bound?  recorded as a cut, not explored further
	lim := int64(fr.i.m.allocBound)
	gt := "bvugt"
	if _, signed, _ := intInfo(t); signed {
		gt = "bvsgt"
	}
	if i.decideBool(i.tt.App(gt, 0, s.t, i.tt.Const(w, uint64(lim))), "makeslice>bound") {
		i.observed = append(i.observed, "cut:large-allocation")
		panic(pathEnd{kind: "cut", msg: fmt.Sprintf("symbolic allocation above bound %d", lim)})
	}
	return int(fr.concInt(v, "makeslice"))
}

// index checks 0 <= idx < n (forking a panic path when the violation is feasible)
// and concretises idx.
func (fr *frame) index(idx value, n int) int {
	s, ok := idx.(sym)
	if !ok {
		k := asInt64(idx)
		if k < 0 || k >= int64(n) {
			fr.tpanic(fmt.Sprintf("index out of range [%d] with length %d", k, n))
		}
		return int(k)
	}
	i := fr.i
	w := s.t.width
	if w < 64 && uint64(n) >= uint64(1)<<uint(w) {
		// every value of the index type is in range (e.g. a byte into a [256] table)
		return int(fr.concInt(idx, "index"))
	}
	inr := i.tt.App("bvult", 0, s.t, i.tt.Const(w, uint64(n)))
	if !i.decideBool(inr, "index") {
		fr.tpanic(fmt.Sprintf("index out of range [symbolic] with length %d", n))
	}
	return int(fr.concInt(idx, "index"))
}

func (fr *frame) strIndex(x value, idx value) value {
	b := strBytes(x)
	k := fr.index(idx, len(b))
	e := b[k]
	if _, ok := e.(*jsonBlob); ok {
		panic(engineError("indexing into an idealised encoded document"))
	}
	return e
}

func (fr *frame) slice(instr *ssa.Slice, x, lo, hi, max value) value {
	var Len, Cap int
	var bs []value
	isStr := false
	switch x := x.(type) {
	case string:
		Len = len(x)
		Cap = Len
		isStr = true
	case sstr:
		Len = len(x.b)
		Cap = Len
		isStr = true
		bs = x.b
	case []value:
		Len = len(x)
		Cap = cap(x)
	case *value: // *array
		if x == nil {
			fr.tpanic("invalid memory address or nil pointer dereference")
		}
		a := (*x).(array)
		Len = len(a)
		Cap = cap(a)
	default:
		panic(engineError(fmt.Sprintf("slice: unexpected X type: %T", x)))
	}
	conc := func(v value, what string) int64 {
		if s, ok := v.(sym); ok {
			// bounds: fork on out-of-range first to keep enumeration small
			w := s.t.width
			i := fr.i
			inr := i.tt.App("bvule", 0, s.t, i.tt.Const(w, uint64(Cap)))
			if !i.decideBool(inr, "slicebound") {
				fr.tpanic("slice bounds out of range [symbolic " + what + "]")
			}
			return fr.concInt(v, "slice-"+what)
		}
		return asInt64(v)
	}
	l := int64(0)
	if lo != nil {
		l = conc(lo, "low")
	}
	h := int64(Len)
	if hi != nil {
		h = conc(hi, "high")
	}
	m := int64(Cap)
	if max != nil {
		m = conc(max, "max")
	}
	lim := int64(Cap)
	if isStr {
		lim = int64(Len)
	}
	if h < 0 || h > lim {
		fr.tpanic(fmt.Sprintf("slice bounds out of range [:%d] with capacity %d", h, lim))
	}
	if l < 0 || l > h {
		fr.tpanic(fmt.Sprintf("slice bounds out of range [%d:%d]", l, h))
	}
	if m < h || m > int64(Cap) {
		fr.tpanic(fmt.Sprintf("slice bounds out of range [::%d] with capacity %d", m, Cap))
	}
	switch x := x.(type) {
	case string:
		return x[l:h]
	case sstr:
		return mkstr(bs[l:h])
	case []value:
		if x == nil && l == 0 && h == 0 {
			return []value(nil)
		}
		return x[l:h:m]
	case *value:
		a := (*x).(array)
		return []value(a)[l:h:m]
	}
	panic("unreachable")
}

func (fr *frame) lookup(instr *ssa.Lookup, x, idx value) value {
	switch x := x.(type) {
	case *omap:
		mt := instr.X.Type().Underlying().(*types.Map)
		k := fr.i.mapFind(x, mt.Key(), idx)
		var v value
		ok := k >= 0
		if ok {
			v = copyVal(x.vals[k])
		} else {
			v = zero(mt.Elem())
		}
		if instr.CommaOk {
			return tuple{v, ok}
		}
		return v
	case string, sstr:
		return fr.strIndex(x, idx)
	}
	panic(engineError(fmt.Sprintf("unexpected x type in Lookup: %T", x)))
}

func (i *interpreter) eqnil(t types.Type, x, y value) value {
	switch t.Underlying().(type) {
	case *types.Map, *types.Signature, *types.Slice:
		switch x := x.(type) {
		case *omap:
			return (x != nil) == (y.(*omap) != nil)
		case *ssa.Function:
			switch y := y.(type) {
			case *ssa.Function:
				return (x != nil) == (y != nil)
			case *closure:
				return x != nil
			}
		case *closure:
			switch y := y.(type) {
			case *ssa.Function:
				return y != nil
			case *closure:
				return x == y
			}
		case []value:
			return (x != nil) == (y.([]value) != nil)
		}
		panic(engineError(fmt.Sprintf("eqnil(%s): illegal dynamic type: %T", t, x)))
	}
	return i.equals(t, x, y)
}

func isStrVal(x value) bool {
	switch x.(type) {
	case string, sstr:
		return true
	}
	return false
}

func (fr *frame) binop(op token.Token, tx, ty types.Type, x, y value) value {
	i := fr.i
	// strings with symbolic content
	if _, xs := x.(sstr); xs || func() bool { _, ys := y.(sstr); return ys }() {
		switch op {
		case token.ADD:
			return mkstr(append(append([]value{}, strBytes(x)...), strBytes(y)...))
		case token.EQL:
			return i.strEq(x, y)
		case token.NEQ:
			return i.vNot(i.strEq(x, y))
		case token.LSS:
			return i.strLess(x, y)
		case token.GTR:
			return i.strLess(y, x)
		case token.LEQ:
			return i.vNot(i.strLess(y, x))
		case token.GEQ:
			return i.vNot(i.strLess(x, y))
		}
		panic(engineError("string binop " + op.String()))
	}
	xsym, ysym := isSym(x), isSym(y)
	if !xsym && !ysym {
		// concrete: division by zero is a target panic, not an interpreter fault
		if op == token.QUO || op == token.REM {
			if _, _, isInt := intInfo(tx); isInt {
				if asInt64(widenInt(y)) == 0 {
					fr.tpanic("integer divide by zero")
				}
			}
		}
		if op == token.SHL || op == token.SHR {
			if w, signed, ok := intInfo(ty); ok && signed && w > 0 && asInt64(y) < 0 {
				fr.tpanic("negative shift amount")
			}
		}
		return concBinop(i, op, tx, x, y)
	}
	w, signed, ok := intInfo(tx)
	if !ok {
		panic(engineError("symbolic binop on non-integer type " + tx.String()))
	}
	tt := i.tt
	a, b := i.toTerm(x), i.toTerm(y)
	boolT := types.Typ[types.Bool]
	if w == 0 {
		switch op {
		case token.EQL:
			return mkval(boolT, tt.Eq(a, b))
		case token.NEQ:
			return mkval(boolT, tt.Not(tt.Eq(a, b)))
		case token.AND, token.LAND:
			return mkval(boolT, tt.And(a, b))
		case token.OR, token.LOR:
			return mkval(boolT, tt.Or(a, b))
		}
		panic(engineError("bool binop " + op.String()))
	}
	if op == token.SHL || op == token.SHR {
		// shift count has its own (unsigned or signed) type and width
		yw, ysigned, _ := intInfo(ty)
		if ysigned {
			if i.decideBool(tt.App("bvslt", 0, b, tt.Const(yw, 0)), "shift<0") {
				fr.tpanic("negative shift amount")
			}
		}
		var cnt *Term
		switch {
		case yw == w:
			cnt = b
		case yw < w:
			cnt = tt.ZeroExt(b, w)
		default:
			big := tt.App("bvuge", 0, b, tt.Const(yw, uint64(w)))
			cnt = tt.Ite(big, tt.Const(w, uint64(w)), tt.Extract(w-1, 0, b))
		}
		switch {
		case op == token.SHL:
			return mkval(tx, tt.App("bvshl", w, a, cnt))
		case signed:
			return mkval(tx, tt.App("bvashr", w, a, cnt))
		default:
			return mkval(tx, tt.App("bvlshr", w, a, cnt))
		}
	}
	if a.width != b.width {
		panic(engineError(fmt.Sprintf("binop %s width mismatch %d/%d (%s)", op, a.width, b.width, tx)))
	}
	sel := func(s, u string) string {
		if signed {
			return s
		}
		return u
	}
	switch op {
	case token.ADD:
		return mkval(tx, tt.App("bvadd", w, a, b))
	case token.SUB:
		return mkval(tx, tt.App("bvsub", w, a, b))
	case token.MUL:
		return mkval(tx, tt.App("bvmul", w, a, b))
	case token.QUO, token.REM:
		if i.decideBool(tt.Eq(b, tt.Const(w, 0)), "div0") {
			fr.tpanic("integer divide by zero")
		}
		if op == token.QUO {
			return mkval(tx, tt.App(sel("bvsdiv", "bvudiv"), w, a, b))
		}
		return mkval(tx, tt.App(sel("bvsrem", "bvurem"), w, a, b))
	case token.AND:
		return mkval(tx, tt.App("bvand", w, a, b))
	case token.OR:
		return mkval(tx, tt.App("bvor", w, a, b))
	case token.XOR:
		return mkval(tx, tt.App("bvxor", w, a, b))
	case token.AND_NOT:
		return mkval(tx, tt.App("bvand", w, a, tt.App("bvnot", w, b)))
	case token.EQL:
		return mkval(boolT, tt.Eq(a, b))
	case token.NEQ:
		return mkval(boolT, tt.Not(tt.Eq(a, b)))
	case token.LSS:
		return mkval(boolT, tt.App(sel("bvslt", "bvult"), 0, a, b))
	case token.LEQ:
		return mkval(boolT, tt.App(sel("bvsle", "bvule"), 0, a, b))
	case token.GTR:
		return mkval(boolT, tt.App(sel("bvslt", "bvult"), 0, b, a))
	case token.GEQ:
		return mkval(boolT, tt.App(sel("bvsle", "bvule"), 0, b, a))
	}
	panic(engineError("symbolic binop " + op.String()))
}

func widenInt(x value) value {
	switch x.(type) {
	case float32, float64, complex64, complex128, string, bool:
		return int64(1)
	}
	return x
}

func (fr *frame) unop(instr *ssa.UnOp, x value) value {
	i := fr.i
	switch instr.Op {
	case token.ARROW:
		ch := x.(*channel)
		v, ok := i.chanRecv(fr, ch)
		if !ok {
			v = zero(instr.X.Type().Underlying().(*types.Chan).Elem())
		}
		if instr.CommaOk {
			return tuple{v, ok}
		}
		return v
	case token.MUL:
		return load(mustDeref(instr.X.Type()), fr.ptr(x))
	}
	if s, ok := x.(sym); ok {
		t := instr.X.Type()
		w, _, _ := intInfo(t)
		switch instr.Op {
		case token.NOT:
			return mkval(t, i.tt.Not(s.t))
		case token.SUB:
			return mkval(t, i.tt.App("bvneg", w, s.t))
		case token.XOR:
			return mkval(t, i.tt.App("bvnot", w, s.t))
		}
		panic(engineError("symbolic unop " + instr.Op.String()))
	}
	return concUnop(instr, x)
}

func (fr *frame) conv(t_dst, t_src types.Type, x value) value {
	i := fr.i
	ut_src := t_src.Underlying()
	ut_dst := t_dst.Underlying()
	// symbolic integer conversions
	if s, ok := x.(sym); ok {
		sw, ssigned, sok := intInfo(t_src)
		dw, _, dok := intInfo(t_dst)
		if sok && dok && sw > 0 && dw > 0 {
			if dw <= sw {
				return mkval(t_dst, i.tt.Extract(dw-1, 0, s.t))
			}
			if ssigned {
				return mkval(t_dst, i.tt.SignExt(s.t, dw))
			}
			return mkval(t_dst, i.tt.ZeroExt(s.t, dw))
		}
		if db, ok := ut_dst.(*types.Basic); ok && db.Kind() == types.String && sok {
			// string(rune) with a symbolic rune: one byte if < 0x80 (stated restriction)
			lt := i.tt.App("bvult", 0, s.t, i.tt.Const(sw, 0x80))
			if i.decideBool(lt, "string(rune)") {
				return mkstr([]value{mkval(types.Typ[types.Uint8], i.tt.Extract(7, 0, s.t))})
			}
			panic(pathEnd{kind: "cut", msg: "string(rune) of symbolic non-ASCII rune"})
		}
		panic(engineError(fmt.Sprintf("symbolic conversion %s -> %s", t_src, t_dst)))
	}
	if _, ok := x.(*rope); ok {
		if db, ok := ut_dst.(*types.Basic); ok && db.Kind() == types.String {
			return "<bytes of symbolic length>"
		}
	}
	switch us := ut_src.(type) {
	case *types.Slice:
		if db, ok := ut_dst.(*types.Basic); ok && db.Kind() == types.String {
			if eb, ok := us.Elem().Underlying().(*types.Basic); ok && eb.Kind() == types.Byte {
				return mkstr(x.([]value))
			}
		}
	case *types.Basic:
		if us.Info()&types.IsString != 0 {
			if ds, ok := ut_dst.(*types.Slice); ok {
				if eb, ok := ds.Elem().Underlying().(*types.Basic); ok && eb.Kind() == types.Byte {
					b := strBytes(x)
					res := make([]value, len(b))
					copy(res, b)
					return res
				}
				if _, isS := x.(sstr); isS {
					panic(engineError("[]rune(symbolic string)"))
				}
			}
			if db, ok := ut_dst.(*types.Basic); ok && db.Kind() == types.String {
				return x
			}
		}
	}
	return concConv(t_dst, t_src, x)
}

func (fr *frame) typeAssert(instr *ssa.TypeAssert, itf iface) value {
	var v value
	err := ""
	if itf.t == nil {
		err = fmt.Sprintf("interface conversion: interface is nil, not %s", instr.AssertedType)
	} else if idst, ok := instr.AssertedType.Underlying().(*types.Interface); ok {
		v = itf
		if meth, _ := types.MissingMethod(itf.t, idst, true); meth != nil {
			err = fmt.Sprintf("interface conversion: %v is not %v: missing method %s", itf.t, idst, meth.Name())
		}
	} else if types.Identical(itf.t, instr.AssertedType) {
		v = itf.v
	} else {
		err = fmt.Sprintf("interface conversion: interface is %s, not %s", itf.t, instr.AssertedType)
	}
	if err != "" {
		if !instr.CommaOk {
			panic(targetPanic{v: err, stack: fr.stack()})
		}
		return tuple{zero(instr.AssertedType), false}
	}
	if instr.CommaOk {
		return tuple{v, true}
	}
	return v
}

func callBuiltin(caller *frame, callpos token.Pos, fn *ssa.Builtin, args []value) value {
	i := caller.i
	switch fn.Name() {
	case "append":
		if len(args) == 1 {
			return args[0]
		}
		if _, ok := args[0].(*rope); ok {
			return ropeAppend(args[0], args[1])
		}
		if _, ok := args[1].(*rope); ok {
			return ropeAppend(args[0], args[1])
		}
		if isStrVal(args[1]) {
			arg0 := args[0].([]value)
			return append(arg0, strBytes(args[1])...)
		}
		a0 := args[0].([]value)
		a1 := args[1].([]value)
		if len(a1) == 0 {
			return a0
		}
		// copy aggregate elements so that the destination does not alias the source
		out := a0
		for _, e := range a1 {
			out = append(out, copyVal(e))
		}
		return out

	case "copy":
		src := args[1]
		if isStrVal(src) {
			src = append([]value(nil), strBytes(src)...)
		}
		dst := args[0].([]value)
		s := src.([]value)
		n := len(dst)
		if len(s) < n {
			n = len(s)
		}
		tmp := make([]value, n)
		for k := 0; k < n; k++ {
			tmp[k] = copyVal(s[k])
		}
		copy(dst, tmp)
		return n

	case "close":
		i.chanClose(caller, args[0].(*channel))
		return nil

	case "delete":
		m := args[0].(*omap)
		kt := fn.Type().(*types.Signature).Params().At(0).Type().Underlying().(*types.Map).Key()
		i.mapDelete(m, kt, args[1])
		return nil

	case "clear":
		switch x := args[0].(type) {
		case *omap:
			if x != nil {
				x.keys, x.vals = nil, nil
			}
		case []value:
			pt := fn.Type().(*types.Signature).Params().At(0).Type().Underlying()
			if st, ok := pt.(*types.Slice); ok {
				for k := range x {
					x[k] = zero(st.Elem())
				}
			}
		}
		return nil

	case "print", "println":
		return nil

	case "len":
		if r, ok := args[0].(*rope); ok {
			return mkval(types.Typ[types.Int], i.ropeLen(r))
		}
		switch x := args[0].(type) {
		case string:
			return len(x)
		case sstr:
			return len(x.b)
		case array:
			return len(x)
		case *value:
			return len((*x).(array))
		case []value:
			return len(x)
		case *omap:
			return x.length()
		case *channel:
			if x == nil {
				return 0
			}
			return len(x.buf)
		default:
			panic(engineError(fmt.Sprintf("len: illegal operand: %T", x)))
		}

	case "cap":
		switch x := args[0].(type) {
		case array:
			return cap(x)
		case *value:
			return cap((*x).(array))
		case []value:
			return cap(x)
		case *channel:
			if x == nil {
				return 0
			}
			return x.cap
		default:
			panic(engineError(fmt.Sprintf("cap: illegal operand: %T", x)))
		}

	case "min", "max":
		t := fn.Type().(*types.Signature).Params().At(0).Type()
		acc := args[0]
		for _, a := range args[1:] {
			var lt value
			if fn.Name() == "min" {
				lt = caller.binop(token.LSS, t, t, a, acc)
			} else {
				lt = caller.binop(token.GTR, t, t, a, acc)
			}
			switch c := lt.(type) {
			case bool:
				if c {
					acc = a
				}
			case sym:
				acc = mkval(t, i.tt.Ite(c.t, i.toTerm(a), i.toTerm(acc)))
			}
		}
		return acc

	case "panic":
		panic(targetPanic{v: args[0], stack: caller.stack()})

	case "recover":
		return doRecover(caller)

	case "ssa:wrapnilchk":
		recv := args[0]
		if recv.(*value) == nil {
			caller.tpanic(fmt.Sprintf("value method (%s).%s called using nil pointer", toString(args[1]), toString(args[2])))
		}
		return recv

	case "ssa:deferstack":
		return &caller.defers
	}
	panic(engineError("unknown built-in: " + fn.Name()))
}

func (fr *frame) rangeIter(x value, t types.Type) iter {
	switch x := x.(type) {
	case *omap:
		if x == nil {
			return &omapIter{}
		}
		return &omapIter{keys: append([]value(nil), x.keys...), vals: append([]value(nil), x.vals...)}
	case string:
		return &strIter{b: strBytes(x), tt: fr.i.tt}
	case sstr:
		return &strIter{b: x.b, tt: fr.i.tt}
	}
	panic(engineError(fmt.Sprintf("cannot range over %T", x)))
}

package main

// Path exploration: a worklist of decision prefixes, N workers, one solver
// process per worker.  Each path is executed from the harness entry along its
// prefix (fork by re-execution).

import (
	"fmt"
	"go/types"
	"os"
	"sort"
	"strings"
	"sync"
	"time"

	"golang.org/x/tools/go/ssa"
)

type runConfig struct {
	workers       int
	maxPaths      int
	maxSteps      int64
	loopCap       int
	timeoutMs     int
	known         map[string]bool
	params        map[string]int
	samples       int
	solverBin     string
	deadline      time.Time
	dumpDir       string
	allViolations bool
	trace         bool
}

type pathResult struct {
	prefix     []dec
	taken      []dec
	end        pathEnd
	forks      [][]dec
	violations []violation
	covers     map[string]bool
	unknown    []string
	cuts       []string
	steps      int64
	nasserts   int
	encoded    map[string]bool
	stubs      map[string]bool
	sample     *pathSample
	observed   []string
}

type pathSample struct {
	Inputs   []ndValue `json:"inputs"`
	Outcome  string    `json:"outcome"`
	Observed []string  `json:"observed,omitempty"`
	Decision int       `json:"decisions"`
}

type harnessResult struct {
	Harness     string         `json:"harness"`
	Package     string         `json:"package"`
	Paths       int            `json:"paths"`
	Steps       int64          `json:"steps"`
	Outcomes    map[string]int `json:"outcomes"`
	Violations  []violation    `json:"violations"`
	Covers      []string       `json:"covers"`
	Unknown     []string       `json:"unknown"`
	Cuts        []string       `json:"cuts"`
	Asserts     int            `json:"assert_checks"`
	Queries     int            `json:"queries"`
	QSat        int            `json:"queries_sat"`
	QUnsat      int            `json:"queries_unsat"`
	QUnknown    int            `json:"queries_unknown"`
	SolverS     float64        `json:"solver_s"`
	WallS       float64        `json:"wall_s"`
	Encoded     []string       `json:"functions_encoded"`
	Stubs       []string       `json:"stubs"`
	Samples     []pathSample   `json:"samples"`
	Params      map[string]int `json:"params"`
	Known       []string       `json:"known_enabled"`
	PathCapHit  bool           `json:"path_cap_hit"`
	MaxDecision int            `json:"max_decisions"`
	Error       string         `json:"error,omitempty"`
}

func (m *machine) newInterp(s *Solver, cfg *runConfig, prefix []dec) *interpreter {
	return &interpreter{
		m: m, prog: m.prog, tt: newTermTable(), solver: s,
		globals: map[*ssa.Global]*value{}, prefix: prefix,
		done: make(chan pathEnd, 1), killed: make(chan struct{}),
		maxSteps: cfg.maxSteps, loopCap: cfg.loopCap,
		covers:  map[string]bool{},
		mutexes: map[*value]*mutexState{}, wgs: map[*value]*wgState{},
		conds: map[*value]*condState{}, onces: map[*value]*onceState{},
		initDone: map[*ssa.Package]bool{}, encoded: map[string]bool{}, stubsUsed: map[string]bool{},
		knownOn: cfg.known, params: cfg.params, tracing: cfg.trace,
		atlases: map[*value]*atlasRec{}, cborTypes: map[string]*atlasRec{}, handles: map[*value]iface{},
	}
}

func (m *machine) runPath(s *Solver, fn *ssa.Function, cfg *runConfig, prefix []dec, wantSample bool) *pathResult {
	s.resetSession()
	i := m.newInterp(s, cfg, prefix)
	main := &thread{id: 0, i: i, resume: make(chan struct{}, 1), name: "T0:main"}
	i.nextTid = 1
	i.threads = append(i.threads, main)
	i.cur = main
	i.wgThreads.Add(1)
	go func() {
		defer i.wgThreads.Done()
		i.threadMainBody(main, func(root *frame) {
			i.ensureInit(fn.Pkg)
			if vp := m.pkgs[vstubPath]; vp != nil {
				i.ensureInit(vp)
			}
			call(i, root, 0, fn, nil)
		}, true)
	}()
	main.resume <- struct{}{}
	var end pathEnd
	select {
	case end = <-i.done:
	case <-time.After(time.Until(cfg.deadline)):
		desc := ""
		for _, t := range i.threads {
			if !t.dead {
				desc += fmt.Sprintf("[%s: %s] ", t.name, t.blocked)
			}
		}
		cur := "?"
		if i.cur != nil {
			cur = i.cur.name
		}
		end = pathEnd{kind: "timeout", msg: fmt.Sprintf("run deadline reached; cur=%s runq=%d stalled=%d steps=%d threads: %s", cur, len(i.runq), len(i.stalled), i.steps, desc)}
	}
	close(i.killed)
	waitc := make(chan struct{})
	go func() { i.wgThreads.Wait(); close(waitc) }()
	select {
	case <-waitc:
	case <-time.After(20 * time.Second):
		end = pathEnd{kind: "engine", msg: "interpreter threads did not stop: " + end.kind + " " + end.msg}
	}
	if cfg.trace {
		for _, t := range i.threads {
			if !t.dead {
				top := ""
				if t.top != nil {
					top = t.top.stack()
				}
				fmt.Fprintf(os.Stderr, "THREAD %s blocked=%q\n%s\n", t.name, t.blocked, top)
			}
		}
	}
	res := &pathResult{
		prefix: prefix, taken: i.taken, end: end, forks: i.forks, violations: i.violations,
		covers: i.covers, unknown: i.unknown, cuts: i.cuts, steps: i.steps, nasserts: i.nasserts,
		encoded: i.encoded, stubs: i.stubsUsed, observed: i.observed,
	}
	if wantSample && (end.kind == "done" || end.kind == "violated") {
		r, model := s.checkModel(nil, i.ndVars())
		if r == resSat {
			res.sample = &pathSample{Inputs: i.inputsFromModel(model), Outcome: end.kind, Observed: i.observed, Decision: len(i.taken)}
		}
	}
	return res
}

// threadMainBody runs body on thread th (used for the main harness thread).
func (i *interpreter) threadMainBody(th *thread, body func(root *frame), isMain bool) {
	defer func() {
		r := recover()
		switch r := r.(type) {
		case nil:
		case threadKilled:
		case pathEnd:
			i.finish(r)
		case engineError:
			i.finish(pathEnd{kind: "engine", msg: string(r)})
		case targetPanic:
			i.reportPanic(th, r)
		default:
			i.finish(pathEnd{kind: "engine", msg: fmt.Sprintf("interpreter fault: %v", r)})
		}
	}()
	th.wait()
	root := &frame{i: i, th: th, fn: i.m.rootFn}
	body(root)
	th.dead = true
	if isMain {
		i.finish(pathEnd{kind: "done"})
		return
	}
	i.scheduleNext(th, false)
}

func (i *interpreter) reportPanic(th *thread, p targetPanic) {
	msg := toString(p.v)
	if it, ok := p.v.(iface); ok && it.t != nil {
		msg = it.t.String() + ": " + toString(it.v)
	}
	label := "panic: " + firstLine(msg)
	if k := strings.IndexByte(p.stack, '\n'); k > 0 {
		label += " @ " + p.stack[:k]
	}
	func() {
		defer func() { recover() }()
		i.addViolation(nil, "panic", label, th.name+": "+msg, nil)
		if n := len(i.violations); n > 0 {
			i.violations[n-1].Stack = p.stack
		}
	}()
	i.finish(pathEnd{kind: "panic", msg: th.name + ": " + msg + "\n" + p.stack})
}

func firstLine(s string) string {
	if k := strings.IndexByte(s, '\n'); k >= 0 {
		return s[:k]
	}
	if len(s) > 160 {
		return s[:160]
	}
	return s
}

func (m *machine) runHarness(pkgPath, fname string, cfg *runConfig) *harnessResult {
	t0 := time.Now()
	hr := &harnessResult{Harness: fname, Package: pkgPath, Outcomes: map[string]int{}, Params: cfg.params}
	for k := range cfg.known {
		hr.Known = append(hr.Known, k)
	}
	sort.Strings(hr.Known)
	fn := m.lookupFunc(pkgPath, fname)
	if fn == nil {
		hr.Error = "harness function not found: " + pkgPath + "." + fname
		return hr
	}
	var mu sync.Mutex
	cond := sync.NewCond(&mu)
	work := [][]dec{nil}
	active := 0
	stop := false
	covers := map[string]bool{}
	encoded := map[string]bool{}
	stubs := map[string]bool{}
	unknown := map[string]bool{}
	cuts := map[string]bool{}
	vioSeen := map[string]bool{}

	var wg sync.WaitGroup
	solvers := make([]*Solver, cfg.workers)
	for w := 0; w < cfg.workers; w++ {
		s, err := newSolver(cfg.solverBin, []string{"-in"}, cfg.timeoutMs)
		if err != nil {
			hr.Error = "cannot start solver: " + err.Error()
			return hr
		}
		solvers[w] = s
	}
	for w := 0; w < cfg.workers; w++ {
		wg.Add(1)
		go func(s *Solver) {
			defer wg.Done()
			for {
				mu.Lock()
				for len(work) == 0 && active > 0 && !stop {
					cond.Wait()
				}
				if stop || (len(work) == 0 && active == 0) {
					mu.Unlock()
					cond.Broadcast()
					return
				}
				prefix := work[len(work)-1]
				work = work[:len(work)-1]
				active++
				wantSample := len(hr.Samples) < cfg.samples
				mu.Unlock()

				res := m.runPath(s, fn, cfg, prefix, wantSample)

				mu.Lock()
				active--
				hr.Paths++
				hr.Steps += res.steps
				hr.Asserts += res.nasserts
				hr.Outcomes[res.end.kind]++
				if len(res.taken) > hr.MaxDecision {
					hr.MaxDecision = len(res.taken)
				}
				for k := range res.covers {
					covers[k] = true
				}
				for k := range res.encoded {
					encoded[k] = true
				}
				for k := range res.stubs {
					stubs[k] = true
				}
				for _, u := range res.unknown {
					unknown[u] = true
				}
				for _, c := range res.cuts {
					cuts[c] = true
				}
				switch res.end.kind {
				case "engine", "unwind", "timeout":
					unknown[res.end.kind+": "+firstLine(res.end.msg)] = true
				case "cut":
					cuts[firstLine(res.end.msg)] = true
				case "deadlock":
					key := "deadlock"
					carried := false
					for _, v := range res.violations {
						if v.Kind == "deadlock" {
							carried = true
						}
					}
					if !carried && !vioSeen[key] {
						vioSeen[key] = true
						hr.Violations = append(hr.Violations, violation{Label: "deadlock", Kind: "deadlock", Msg: res.end.msg, Decision: res.taken})
					}
				}
				for _, v := range res.violations {
					key := v.Kind + "|" + v.Label
					if cfg.allViolations {
						key += fmt.Sprint(len(hr.Violations))
					}
					if !vioSeen[key] {
						vioSeen[key] = true
						hr.Violations = append(hr.Violations, v)
					}
				}
				if res.sample != nil && len(hr.Samples) < cfg.samples {
					hr.Samples = append(hr.Samples, *res.sample)
				}
				work = append(work, res.forks...)
				if hr.Paths >= cfg.maxPaths && len(work) > 0 {
					hr.PathCapHit = true
					stop = true
				}
				if time.Now().After(cfg.deadline) {
					unknown["timeout: run deadline reached"] = true
					stop = true
				}
				mu.Unlock()
				cond.Broadcast()
			}
		}(solvers[w])
	}
	wg.Wait()
	for _, s := range solvers {
		hr.Queries += s.queries
		hr.QSat += s.nsat
		hr.QUnsat += s.nunsat
		hr.QUnknown += s.nunknown
		hr.SolverS += s.elapsed.Seconds()
		s.close()
	}
	if hr.PathCapHit {
		unknown[fmt.Sprintf("path cap %d reached with work left", cfg.maxPaths)] = true
	}
	hr.Covers = sortedKeys(covers)
	hr.Encoded = sortedKeys(encoded)
	hr.Stubs = sortedKeys(stubs)
	hr.Unknown = sortedKeys(unknown)
	hr.Cuts = sortedKeys(cuts)
	hr.WallS = time.Since(t0).Seconds()
	return hr
}

func sortedKeys(m map[string]bool) []string {
	out := make([]string, 0, len(m))
	for k := range m {
		out = append(out, k)
	}
	sort.Strings(out)
	return out
}

var _ = types.Typ

// traceOne runs a single path along the given decisions with call tracing on.
func (m *machine) traceOne(pkgPath, fname string, cfg *runConfig, decisions []dec) {
	fn := m.lookupFunc(pkgPath, fname)
	if fn == nil {
		fmt.Println("harness not found")
		return
	}
	s, err := newSolver(cfg.solverBin, []string{"-in"}, cfg.timeoutMs)
	if err != nil {
		fmt.Println(err)
		return
	}
	defer s.close()
	cfg.trace = true
	res := m.runPath(s, fn, cfg, decisions, false)
	fmt.Fprintf(os.Stderr, "END %s %s\n", res.end.kind, res.end.msg)
	for _, v := range res.violations {
		fmt.Fprintf(os.Stderr, "VIOLATION %s %s\n", v.Kind, v.Label)
	}
}

// Derived from golang.org/x/tools/go/ssa/interp (BSD licence, see LICENSE.xtools);
// the value domain is extended with symbolic scalars, symbolic-byte strings,
// ordered maps and interpreter-owned channels.

package main

// Values
//
// - bool, numbers (all built-in int/float types are distinguished), string   (concrete)
// - sym        --- a symbolic bool or integer (an SMT term); the Go type is known from context
// - sstr       --- a string some of whose bytes are symbolic (concrete length)
// - *omap      --- maps: insertion-ordered association lists
// - *channel   --- channels owned by the interpreter's scheduler
// - []value    --- slices (concrete len/cap)
// - iface      --- interfaces
// - structure  --- structs
// - array      --- arrays
// - *value     --- pointers
// - *ssa.Function, *ssa.Builtin, *closure --- functions
// - tuple, iter, bad, **deferred as in x/tools interp
// - *jsonBlob  --- (as an element of a []byte) an idealised encoded document

import (
	"bytes"
	"fmt"
	"go/types"
	"unsafe"

	"golang.org/x/tools/go/ssa"
)

type value interface{}

type tuple []value

type array []value

type iface struct {
	t types.Type // never an "untyped" type
	v value
}

type structure []value

type iter interface {
	next() tuple
}

type closure struct {
	Fn  *ssa.Function
	Env []value
}

type bad struct{}

// sym is a symbolic scalar.
type sym struct {
	t *Term
}

// sstr is a string with symbolic bytes; every element is uint8 or sym (width 8)
// or a *jsonBlob placeholder.
type sstr struct {
	b []value
}

func sameType(x, y types.Type) bool {
	if x == nil || y == nil {
		return x == y
	}
	return types.Identical(x, y)
}

// intInfo returns bit width and signedness for an integer (or bool: width 0) type.
func intInfo(t types.Type) (w int, signed bool, ok bool) {
	b, isb := t.Underlying().(*types.Basic)
	if !isb {
		return 0, false, false
	}
	switch b.Kind() {
	case types.Bool, types.UntypedBool:
		return 0, false, true
	case types.Int, types.Int64, types.UntypedInt:
		return 64, true, true
	case types.Int8:
		return 8, true, true
	case types.Int16:
		return 16, true, true
	case types.Int32, types.UntypedRune:
		return 32, true, true
	case types.Uint, types.Uint64, types.Uintptr:
		return 64, false, true
	case types.Uint8:
		return 8, false, true
	case types.Uint16:
		return 16, false, true
	case types.Uint32:
		return 32, false, true
	}
	return 0, false, false
}

// toTerm converts a concrete or symbolic scalar to a term.
func (i *interpreter) toTerm(x value) *Term {
	tt := i.tt
	switch x := x.(type) {
	case sym:
		return x.t
	case bool:
		return tt.Bool(x)
	case int:
		return tt.Const(64, uint64(x))
	case int8:
		return tt.Const(8, uint64(x))
	case int16:
		return tt.Const(16, uint64(x))
	case int32:
		return tt.Const(32, uint64(x))
	case int64:
		return tt.Const(64, uint64(x))
	case uint:
		return tt.Const(64, uint64(x))
	case uint8:
		return tt.Const(8, uint64(x))
	case uint16:
		return tt.Const(16, uint64(x))
	case uint32:
		return tt.Const(32, uint64(x))
	case uint64:
		return tt.Const(64, x)
	case uintptr:
		return tt.Const(64, uint64(x))
	}
	panic(engineError(fmt.Sprintf("toTerm: unsupported %T", x)))
}

// fromConst builds the concrete Go value of basic type t from raw bits.
func fromConst(t types.Type, v uint64) value {
	b := t.Underlying().(*types.Basic)
	switch b.Kind() {
	case types.Bool, types.UntypedBool:
		return v&1 == 1
	case types.Int, types.UntypedInt:
		return int(v)
	case types.Int8:
		return int8(v)
	case types.Int16:
		return int16(v)
	case types.Int32, types.UntypedRune:
		return int32(v)
	case types.Int64:
		return int64(v)
	case types.Uint:
		return uint(v)
	case types.Uint8:
		return uint8(v)
	case types.Uint16:
		return uint16(v)
	case types.Uint32:
		return uint32(v)
	case types.Uint64:
		return v
	case types.Uintptr:
		return uintptr(v)
	}
	panic(engineError("fromConst: " + t.String()))
}

// mkval wraps a term as a value of type t, concretising constants.
func mkval(t types.Type, tm *Term) value {
	if tm.isConst() {
		return fromConst(t, tm.cval)
	}
	return sym{tm}
}

func isSym(x value) bool {
	_, ok := x.(sym)
	return ok
}

// strBytes returns the byte values (uint8 / sym / *jsonBlob) of a string value.
func strBytes(x value) []value {
	switch x := x.(type) {
	case string:
		r := make([]value, len(x))
		for k := 0; k < len(x); k++ {
			r[k] = x[k]
		}
		return r
	case sstr:
		return x.b
	}
	panic(engineError(fmt.Sprintf("strBytes: %T", x)))
}

// mkstr normalises a byte vector into string (all concrete) or sstr.
func mkstr(b []value) value {
	all := true
	for _, e := range b {
		if _, ok := e.(uint8); !ok {
			all = false
			break
		}
	}
	if all {
		bs := make([]byte, len(b))
		for k, e := range b {
			bs[k] = e.(uint8)
		}
		return string(bs)
	}
	c := make([]value, len(b))
	copy(c, b)
	return sstr{c}
}

func strLen(x value) int {
	switch x := x.(type) {
	case string:
		return len(x)
	case sstr:
		return len(x.b)
	}
	panic(engineError(fmt.Sprintf("strLen: %T", x)))
}

// boolAnd / boolOr / boolNot over (bool | sym) values.
func (i *interpreter) vAnd(x, y value) value {
	if xb, ok := x.(bool); ok {
		if !xb {
			return false
		}
		return y
	}
	if yb, ok := y.(bool); ok {
		if !yb {
			return false
		}
		return x
	}
	return mkval(types.Typ[types.Bool], i.tt.And(x.(sym).t, y.(sym).t))
}

func (i *interpreter) vOr(x, y value) value {
	if xb, ok := x.(bool); ok {
		if xb {
			return true
		}
		return y
	}
	if yb, ok := y.(bool); ok {
		if yb {
			return true
		}
		return x
	}
	return mkval(types.Typ[types.Bool], i.tt.Or(x.(sym).t, y.(sym).t))
}

func (i *interpreter) vNot(x value) value {
	if xb, ok := x.(bool); ok {
		return !xb
	}
	return mkval(types.Typ[types.Bool], i.tt.Not(x.(sym).t))
}

// equals returns x == y for type t as a bool or a symbolic bool.
// In a well-typed program the dynamic kinds of x and y agree (modulo sym).
func (i *interpreter) equals(t types.Type, x, y value) value {
	if isSym(x) || isSym(y) {
		return mkval(types.Typ[types.Bool], i.tt.Eq(i.toTerm(x), i.toTerm(y)))
	}
	switch x := x.(type) {
	case bool:
		return x == y.(bool)
	case int:
		return x == y.(int)
	case int8:
		return x == y.(int8)
	case int16:
		return x == y.(int16)
	case int32:
		return x == y.(int32)
	case int64:
		return x == y.(int64)
	case uint:
		return x == y.(uint)
	case uint8:
		if _, blob := y.(*jsonBlob); blob {
			return false
		}
		return x == y.(uint8)
	case uint16:
		return x == y.(uint16)
	case uint32:
		return x == y.(uint32)
	case uint64:
		return x == y.(uint64)
	case uintptr:
		return x == y.(uintptr)
	case float32:
		return x == y.(float32)
	case float64:
		return x == y.(float64)
	case string:
		if ys, ok := y.(string); ok {
			return x == ys
		}
		return i.strEq(x, y)
	case sstr:
		return i.strEq(x, y)
	case *value:
		return x == y.(*value)
	case *channel:
		return x == y.(*channel)
	case *omap:
		return x == y.(*omap)
	case unsafe.Pointer:
		return x == y.(unsafe.Pointer)
	case structure:
		ys := y.(structure)
		st := t.Underlying().(*types.Struct)
		var acc value = true
		for k := range x {
			f := st.Field(k)
			if f.Anonymous() || f.Name() != "_" {
				acc = i.vAnd(acc, i.equals(f.Type(), x[k], ys[k]))
				if b, ok := acc.(bool); ok && !b {
					return false
				}
			}
		}
		return acc
	case array:
		ya := y.(array)
		tElt := t.Underlying().(*types.Array).Elem()
		var acc value = true
		for k := range x {
			acc = i.vAnd(acc, i.equals(tElt, x[k], ya[k]))
			if b, ok := acc.(bool); ok && !b {
				return false
			}
		}
		return acc
	case iface:
		yi := y.(iface)
		if !sameType(x.t, yi.t) {
			return false
		}
		if x.t == nil {
			return true
		}
		return i.equals(x.t, x.v, yi.v)
	case *ssa.Function:
		if yf, ok := y.(*ssa.Function); ok {
			return x == yf
		}
		return false
	case *closure:
		if yc, ok := y.(*closure); ok {
			return x == yc
		}
		return false
	case *jsonBlob:
		yb, ok := y.(*jsonBlob)
		if !ok {
			// an idealised encoded document never equals a single plain byte (as byteEq)
			return false
		}
		return i.blobEq(x, yb)
	}
	panic(targetPanic{v: fmt.Sprintf("runtime error: comparing uncomparable type %s", t)})
}

// strEq compares two string values (string or sstr).
func (i *interpreter) strEq(x, y value) value {
	xb, yb := strBytes(x), strBytes(y)
	if len(xb) != len(yb) {
		return false
	}
	var acc value = true
	for k := range xb {
		acc = i.vAnd(acc, i.byteEq(xb[k], yb[k]))
		if b, ok := acc.(bool); ok && !b {
			return false
		}
	}
	return acc
}

func (i *interpreter) byteEq(a, b value) value {
	ab, aIsBlob := a.(*jsonBlob)
	bb, bIsBlob := b.(*jsonBlob)
	if aIsBlob || bIsBlob {
		if aIsBlob && bIsBlob {
			return i.blobEq(ab, bb)
		}
		return false
	}
	if ax, ok := a.(uint8); ok {
		if bx, ok := b.(uint8); ok {
			return ax == bx
		}
	}
	return mkval(types.Typ[types.Bool], i.tt.Eq(i.toTerm(a), i.toTerm(b)))
}

// strLess returns x < y (lexicographic, bytewise) as bool or sym.
func (i *interpreter) strLess(x, y value) value {
	xb, yb := strBytes(x), strBytes(y)
	// result = OR_k ( prefix_equal(k) AND x[k] < y[k] ) OR (all common equal AND len(x) < len(y))
	n := len(xb)
	if len(yb) < n {
		n = len(yb)
	}
	var res value = false
	var pre value = true
	for k := 0; k < n; k++ {
		var lt value
		ax, aok := xb[k].(uint8)
		bx, bok := yb[k].(uint8)
		if aok && bok {
			lt = ax < bx
		} else {
			lt = mkval(types.Typ[types.Bool], i.tt.App("bvult", 0, i.toTerm(xb[k]), i.toTerm(yb[k])))
		}
		res = i.vOr(res, i.vAnd(pre, lt))
		pre = i.vAnd(pre, i.byteEq(xb[k], yb[k]))
		if b, ok := pre.(bool); ok && !b {
			return res
		}
	}
	if len(xb) < len(yb) {
		res = i.vOr(res, pre)
	}
	return res
}

// load returns the value of type T in *addr.
func load(T types.Type, addr *value) value {
	switch T := T.Underlying().(type) {
	case *types.Struct:
		v := (*addr).(structure)
		a := make(structure, len(v))
		for i := range a {
			a[i] = load(T.Field(i).Type(), &v[i])
		}
		return a
	case *types.Array:
		v := (*addr).(array)
		a := make(array, len(v))
		for i := range a {
			a[i] = load(T.Elem(), &v[i])
		}
		return a
	default:
		return *addr
	}
}

// store stores value v of type T into *addr.
func store(T types.Type, addr *value, v value) {
	switch T := T.Underlying().(type) {
	case *types.Struct:
		lhs := (*addr).(structure)
		rhs := v.(structure)
		for i := range lhs {
			store(T.Field(i).Type(), &lhs[i], rhs[i])
		}
	case *types.Array:
		lhs := (*addr).(array)
		rhs := v.(array)
		for i := range lhs {
			store(T.Elem(), &lhs[i], rhs[i])
		}
	default:
		*addr = v
	}
}

// copyVal makes an unaliased copy of a struct/array value (other kinds are immutable or references).
func copyVal(v value) value {
	switch v := v.(type) {
	case structure:
		a := make(structure, len(v))
		for i := range v {
			a[i] = copyVal(v[i])
		}
		return a
	case array:
		a := make(array, len(v))
		for i := range v {
			a[i] = copyVal(v[i])
		}
		return a
	}
	return v
}

func writeValue(buf *bytes.Buffer, v value, depth int) {
	if depth > 6 {
		buf.WriteString("…")
		return
	}
	switch v := v.(type) {
	case nil, bool, int, int8, int16, int32, int64, uint, uint8, uint16, uint32, uint64, uintptr, float32, float64:
		fmt.Fprintf(buf, "%v", v)
	case string:
		fmt.Fprintf(buf, "%q", v)
	case sym:
		buf.WriteString(v.t.String())
	case sstr:
		buf.WriteString("sstr[")
		for k, e := range v.b {
			if k > 0 {
				buf.WriteString(" ")
			}
			writeValue(buf, e, depth+1)
		}
		buf.WriteString("]")
	case *omap:
		if v == nil {
			buf.WriteString("map(nil)")
			return
		}
		buf.WriteString("map[")
		for k := range v.keys {
			if k > 0 {
				buf.WriteString(" ")
			}
			writeValue(buf, v.keys[k], depth+1)
			buf.WriteString(":")
			writeValue(buf, v.vals[k], depth+1)
		}
		buf.WriteString("]")
	case *channel:
		fmt.Fprintf(buf, "chan#%p", v)
	case *value:
		if v == nil {
			buf.WriteString("<nil>")
		} else {
			buf.WriteString("&")
			writeValue(buf, *v, depth+1)
		}
	case iface:
		if v.t == nil {
			buf.WriteString("nil")
			return
		}
		fmt.Fprintf(buf, "(%s, ", v.t)
		writeValue(buf, v.v, depth+1)
		buf.WriteString(")")
	case structure:
		buf.WriteString("{")
		for i, e := range v {
			if i > 0 {
				buf.WriteString(" ")
			}
			writeValue(buf, e, depth+1)
		}
		buf.WriteString("}")
	case array:
		buf.WriteString("[")
		for i, e := range v {
			if i > 0 {
				buf.WriteString(" ")
			}
			writeValue(buf, e, depth+1)
		}
		buf.WriteString("]")
	case []value:
		buf.WriteString("[")
		for i, e := range v {
			if i > 0 {
				buf.WriteString(" ")
			}
			writeValue(buf, e, depth+1)
		}
		buf.WriteString("]")
	case *ssa.Function:
		if v == nil {
			buf.WriteString("func(nil)")
		} else {
			buf.WriteString(v.String())
		}
	case *ssa.Builtin:
		buf.WriteString(v.Name())
	case *closure:
		buf.WriteString("closure:" + v.Fn.String())
	case *jsonBlob:
		buf.WriteString("blob:")
		buf.WriteString(v.j.String())
	case tuple:
		buf.WriteString("(")
		for i, e := range v {
			if i > 0 {
				buf.WriteString(", ")
			}
			writeValue(buf, e, depth+1)
		}
		buf.WriteString(")")
	default:
		fmt.Fprintf(buf, "<%T>", v)
	}
}

func toString(v value) string {
	var b bytes.Buffer
	writeValue(&b, v, 0)
	return b.String()
}

// ------------------------------------------------------------------------
// Ordered maps

type omap struct {
	keys []value
	vals []value
}

func (m *omap) length() int {
	if m == nil {
		return 0
	}
	return len(m.keys)
}

// find returns the index of the entry whose key equals k, forking on
// solver-feasible symbolic equalities so that the map's shape stays concrete.
func (i *interpreter) mapFind(m *omap, kt types.Type, k value) int {
	if m == nil {
		return -1
	}
	for idx, ek := range m.keys {
		eq := i.equals(kt, ek, k)
		switch e := eq.(type) {
		case bool:
			if e {
				return idx
			}
		case sym:
			if i.decideBool(e.t, "mapkey") {
				return idx
			}
		}
	}
	return -1
}

func (i *interpreter) mapInsert(m *omap, kt types.Type, k, v value) {
	if m == nil {
		panic(targetPanic{v: "assignment to entry in nil map"})
	}
	if idx := i.mapFind(m, kt, k); idx >= 0 {
		m.vals[idx] = v
		return
	}
	m.keys = append(m.keys, k)
	m.vals = append(m.vals, v)
}

func (i *interpreter) mapDelete(m *omap, kt types.Type, k value) {
	if m == nil {
		return
	}
	if idx := i.mapFind(m, kt, k); idx >= 0 {
		m.keys = append(m.keys[:idx:idx], m.keys[idx+1:]...)
		m.vals = append(m.vals[:idx:idx], m.vals[idx+1:]...)
	}
}

type omapIter struct {
	keys []value
	vals []value
	pos  int
}

func (it *omapIter) next() tuple {
	if it.pos >= len(it.keys) {
		return tuple{false, nil, nil}
	}
	k, v := it.keys[it.pos], it.vals[it.pos]
	it.pos++
	return tuple{true, k, v}
}

type strIter struct {
	b   []value
	pos int
	tt  *TermTable
}

// next iterates a string.  Concrete strings decode UTF-8; a symbolic byte is
// treated as a one-byte rune (stated restriction: symbolic string bytes are
// not combined into multi-byte runes).
func (it *strIter) next() tuple {
	if it.pos >= len(it.b) {
		return tuple{false, nil, nil}
	}
	start := it.pos
	e := it.b[it.pos]
	if c, ok := e.(uint8); ok && c >= 0x80 {
		// try to decode a concrete multi-byte sequence
		var raw []byte
		for k := it.pos; k < len(it.b) && k < it.pos+4; k++ {
			if cb, ok := it.b[k].(uint8); ok {
				raw = append(raw, cb)
			} else {
				break
			}
		}
		r, n := decodeRune(raw)
		it.pos += n
		return tuple{true, start, r}
	}
	it.pos++
	switch e := e.(type) {
	case uint8:
		return tuple{true, start, int32(e)}
	case sym:
		return tuple{true, start, sym{it.tt.ZeroExt(e.t, 32)}}
	}
	panic(engineError("range over string containing an encoded blob"))
}

package main

// gosym: symbolic execution of go/ssa with an SMT solver.
//
//   gosym run -repo /repo -harness /verif/harness -pkg <import path> -func F1,F2
//             [-param k=v,...] [-known id,...] [-workers 16] [-max-paths N]
//             [-out result.json]
//
// Exit status: 0 always when the run itself completed (verdicts are in the
// JSON); 3 on usage / load errors (reported as harness-build in the JSON).

import (
	"encoding/json"
	"flag"
	"fmt"
	"os"
	"runtime"
	"strconv"
	"strings"
	"time"
)

type runOutput struct {
	Repo      string           `json:"repo"`
	Package   string           `json:"package"`
	LoadS     float64          `json:"load_s"`
	LoadError string           `json:"load_error,omitempty"`
	Results   []*harnessResult `json:"results"`
}

func main() {
	if len(os.Args) < 2 || os.Args[1] != "run" {
		fmt.Fprintln(os.Stderr, "usage: gosym run [flags]")
		os.Exit(3)
	}
	fs := flag.NewFlagSet("run", flag.ExitOnError)
	repo := fs.String("repo", "/repo", "repository working tree")
	harness := fs.String("harness", "/verif/harness", "harness directory (overlaid into the repo packages)")
	pkg := fs.String("pkg", "", "import path of the package holding the harness functions")
	funcs := fs.String("func", "", "comma-separated harness function names")
	params := fs.String("param", "", "comma-separated k=v integer parameters")
	known := fs.String("known", "", "comma-separated known-finding ids to carve out")
	workers := fs.Int("workers", runtime.NumCPU(), "worker count (one solver each)")
	maxPaths := fs.Int("max-paths", 20000, "path cap per harness")
	maxSteps := fs.Int64("max-steps", 3000000, "instruction cap per path")
	loopCap := fs.Int("loop-cap", 4096, "per-frame block visit cap")
	qTimeout := fs.Int("query-timeout-ms", 20000, "per-query solver timeout")
	samples := fs.Int("samples", 3, "number of sample paths to instantiate")
	solver := fs.String("solver", "z3", "solver binary (speaks SMT-LIB2 on stdin with -in)")
	timeout := fs.Duration("timeout", 10*time.Minute, "overall deadline per harness")
	out := fs.String("out", "", "write JSON result here (default stdout)")
	alloc := fs.Int("alloc-bound", 8, "largest symbolic allocation size explored")
	allV := fs.Bool("all-violations", false, "report every violating path (no de-duplication by label)")
	tracePath := fs.String("trace-decisions", "", "JSON file with a decisions array: run only that path and print a call trace to stderr")
	fs.Parse(os.Args[2:])

	ro := &runOutput{Repo: *repo, Package: *pkg}
	t0 := time.Now()
	m, err := loadMachine(*repo, *harness, []string{*pkg})
	ro.LoadS = time.Since(t0).Seconds()
	if err != nil {
		ro.LoadError = err.Error()
		emit(ro, *out)
		os.Exit(3)
	}
	m.allocBound = *alloc
	pm := map[string]int{}
	if *params != "" {
		for _, kv := range strings.Split(*params, ",") {
			p := strings.SplitN(kv, "=", 2)
			if len(p) == 2 {
				n, _ := strconv.Atoi(p[1])
				pm[p[0]] = n
			}
		}
	}
	km := map[string]bool{}
	if *known != "" {
		for _, k := range strings.Split(*known, ",") {
			km[k] = true
		}
	}
	for _, f := range strings.Split(*funcs, ",") {
		if f == "" {
			continue
		}
		cfg := &runConfig{
			workers: *workers, maxPaths: *maxPaths, maxSteps: *maxSteps, loopCap: *loopCap,
			timeoutMs: *qTimeout, known: km, params: pm, samples: *samples, solverBin: *solver,
			deadline: time.Now().Add(*timeout), allViolations: *allV,
		}
		if *tracePath != "" {
			data, err := os.ReadFile(*tracePath)
			if err != nil {
				fmt.Fprintln(os.Stderr, err)
				os.Exit(3)
			}
			var doc struct {
				Decisions []dec `json:"decisions"`
			}
			if err := json.Unmarshal(data, &doc); err != nil {
				fmt.Fprintln(os.Stderr, err)
				os.Exit(3)
			}
			m.traceOne(*pkg, f, cfg, doc.Decisions)
			continue
		}
		ro.Results = append(ro.Results, m.runHarness(*pkg, f, cfg))
	}
	emit(ro, *out)
}

func emit(ro *runOutput, out string) {
	data, _ := json.MarshalIndent(ro, "", " ")
	if out == "" {
		os.Stdout.Write(data)
		os.Stdout.Write([]byte("\n"))
		return
	}
	os.WriteFile(out, data, 0o644)
}

package main

// Terms: the symbolic scalar domain.  Bool and fixed-width bit-vectors only
// (Go integers wrap, so BV is the faithful encoding).  Terms are hash-consed
// per path so that each node is defined once in the solver session.

import (
	"fmt"
	"strings"
)

type Term struct {
	id    int
	op    string // "const", "var", or SMT-LIB operator name; "extract", "zext", "sext" carry p0/p1
	args  []*Term
	width int // 0 = Bool, else BV width
	cval  uint64
	name  string
	p0    int
	p1    int
	key   string
}

func (t *Term) isConst() bool { return t.op == "const" }
func (t *Term) isBool() bool  { return t.width == 0 }

func mask(w int) uint64 {
	if w >= 64 {
		return ^uint64(0)
	}
	return (uint64(1) << uint(w)) - 1
}

func signExt(v uint64, w int) int64 {
	if w >= 64 {
		return int64(v)
	}
	sh := uint(64 - w)
	return int64(v<<sh) >> sh
}

// TermTable hash-conses terms for one path.
type TermTable struct {
	byKey map[string]*Term
	all   []*Term
	nvars int
}

func newTermTable() *TermTable {
	return &TermTable{byKey: map[string]*Term{}}
}

func (tt *TermTable) intern(t *Term) *Term {
	var sb strings.Builder
	sb.WriteString(t.op)
	fmt.Fprintf(&sb, "/%d/%d/%d/%d/%s", t.width, t.cval, t.p0, t.p1, t.name)
	for _, a := range t.args {
		fmt.Fprintf(&sb, ",%d", a.id)
	}
	k := sb.String()
	if e, ok := tt.byKey[k]; ok {
		return e
	}
	t.key = k
	t.id = len(tt.all)
	tt.all = append(tt.all, t)
	tt.byKey[k] = t
	return t
}

func (tt *TermTable) Const(w int, v uint64) *Term {
	if w == 0 {
		v &= 1
	} else {
		v &= mask(w)
	}
	return tt.intern(&Term{op: "const", width: w, cval: v})
}

func (tt *TermTable) Bool(b bool) *Term {
	if b {
		return tt.Const(0, 1)
	}
	return tt.Const(0, 0)
}

func (tt *TermTable) Var(name string, w int) *Term {
	return tt.intern(&Term{op: "var", width: w, name: name})
}

func (tt *TermTable) FreshVar(prefix string, w int) *Term {
	tt.nvars++
	return tt.Var(fmt.Sprintf("%s!%d", prefix, tt.nvars), w)
}

func b2u(b bool) uint64 {
	if b {
		return 1
	}
	return 0
}

// evalConst folds an operator over constant arguments.  ok=false if not foldable.
func evalConst(op string, w int, a []uint64, aw int) (uint64, bool) {
	switch op {
	case "not":
		return a[0] ^ 1, true
	case "and":
		return a[0] & a[1], true
	case "or":
		return a[0] | a[1], true
	case "xor":
		return a[0] ^ a[1], true
	case "=":
		return b2u(a[0] == a[1]), true
	case "bvadd":
		return (a[0] + a[1]) & mask(w), true
	case "bvsub":
		return (a[0] - a[1]) & mask(w), true
	case "bvmul":
		return (a[0] * a[1]) & mask(w), true
	case "bvand":
		return a[0] & a[1], true
	case "bvor":
		return a[0] | a[1], true
	case "bvxor":
		return a[0] ^ a[1], true
	case "bvnot":
		return (^a[0]) & mask(w), true
	case "bvneg":
		return (-a[0]) & mask(w), true
	case "bvult":
		return b2u(a[0] < a[1]), true
	case "bvule":
		return b2u(a[0] <= a[1]), true
	case "bvslt":
		return b2u(signExt(a[0], aw) < signExt(a[1], aw)), true
	case "bvsle":
		return b2u(signExt(a[0], aw) <= signExt(a[1], aw)), true
	case "bvshl":
		if a[1] >= uint64(w) {
			return 0, true
		}
		return (a[0] << a[1]) & mask(w), true
	case "bvlshr":
		if a[1] >= uint64(w) {
			return 0, true
		}
		return (a[0] >> a[1]) & mask(w), true
	case "bvashr":
		s := signExt(a[0], w)
		sh := a[1]
		if sh >= uint64(w) {
			sh = uint64(w - 1)
		}
		return uint64(s>>sh) & mask(w), true
	case "bvudiv":
		if a[1] == 0 {
			return mask(w), true
		}
		return a[0] / a[1], true
	case "bvurem":
		if a[1] == 0 {
			return a[0], true
		}
		return a[0] % a[1], true
	case "bvsdiv":
		x, y := signExt(a[0], w), signExt(a[1], w)
		if y == 0 {
			if x < 0 {
				return 1, true
			}
			return mask(w), true
		}
		if y == -1 {
			return uint64(-x) & mask(w), true
		}
		return uint64(x/y) & mask(w), true
	case "bvsrem":
		x, y := signExt(a[0], w), signExt(a[1], w)
		if y == 0 {
			return a[0], true
		}
		if y == -1 {
			return 0, true
		}
		return uint64(x%y) & mask(w), true
	}
	return 0, false
}

// App builds an application with local simplification.
func (tt *TermTable) App(op string, w int, args ...*Term) *Term {
	allc := true
	for _, a := range args {
		if !a.isConst() {
			allc = false
		}
	}
	if allc && len(args) > 0 && len(args) <= 2 {
		vals := make([]uint64, len(args))
		for i, a := range args {
			vals[i] = a.cval
		}
		if v, ok := evalConst(op, w, vals, args[0].width); ok {
			return tt.Const(w, v)
		}
	}
	switch op {
	case "not":
		if args[0].op == "not" {
			return args[0].args[0]
		}
	case "and":
		x, y := args[0], args[1]
		if x.isConst() {
			if x.cval == 1 {
				return y
			}
			return x
		}
		if y.isConst() {
			if y.cval == 1 {
				return x
			}
			return y
		}
		if x == y {
			return x
		}
	case "or":
		x, y := args[0], args[1]
		if x.isConst() {
			if x.cval == 0 {
				return y
			}
			return x
		}
		if y.isConst() {
			if y.cval == 0 {
				return x
			}
			return y
		}
		if x == y {
			return x
		}
	case "=":
		if args[0] == args[1] {
			return tt.Bool(true)
		}
		if args[0].isBool() {
			if args[1].isConst() {
				if args[1].cval == 1 {
					return args[0]
				}
				return tt.App("not", 0, args[0])
			}
			if args[0].isConst() {
				if args[0].cval == 1 {
					return args[1]
				}
				return tt.App("not", 0, args[1])
			}
		}
	case "ite":
		c, x, y := args[0], args[1], args[2]
		if c.isConst() {
			if c.cval == 1 {
				return x
			}
			return y
		}
		if x == y {
			return x
		}
		if x.isBool() && x.isConst() && y.isConst() {
			if x.cval == 1 && y.cval == 0 {
				return c
			}
			if x.cval == 0 && y.cval == 1 {
				return tt.App("not", 0, c)
			}
		}
	case "bvadd", "bvor", "bvxor":
		if args[1].isConst() && args[1].cval == 0 {
			return args[0]
		}
		if args[0].isConst() && args[0].cval == 0 {
			return args[1]
		}
	case "bvsub", "bvshl", "bvlshr", "bvashr":
		if args[1].isConst() && args[1].cval == 0 {
			return args[0]
		}
	}
	return tt.intern(&Term{op: op, width: w, args: args})
}

func (tt *TermTable) Not(a *Term) *Term    { return tt.App("not", 0, a) }
func (tt *TermTable) And(a, b *Term) *Term { return tt.App("and", 0, a, b) }
func (tt *TermTable) Or(a, b *Term) *Term  { return tt.App("or", 0, a, b) }
func (tt *TermTable) Eq(a, b *Term) *Term {
	if a.width != b.width {
		panic(fmt.Sprintf("Eq: width mismatch %d vs %d", a.width, b.width))
	}
	return tt.App("=", 0, a, b)
}
func (tt *TermTable) Ite(c, a, b *Term) *Term { return tt.App("ite", a.width, c, a, b) }

func (tt *TermTable) Extract(hi, lo int, a *Term) *Term {
	if lo == 0 && hi == a.width-1 {
		return a
	}
	if a.isConst() {
		return tt.Const(hi-lo+1, a.cval>>uint(lo))
	}
	return tt.intern(&Term{op: "extract", width: hi - lo + 1, args: []*Term{a}, p0: hi, p1: lo})
}

func (tt *TermTable) ZeroExt(a *Term, w int) *Term {
	if w == a.width {
		return a
	}
	if w < a.width {
		return tt.Extract(w-1, 0, a)
	}
	if a.isConst() {
		return tt.Const(w, a.cval)
	}
	return tt.intern(&Term{op: "zext", width: w, args: []*Term{a}, p0: w - a.width})
}

func (tt *TermTable) SignExt(a *Term, w int) *Term {
	if w == a.width {
		return a
	}
	if w < a.width {
		return tt.Extract(w-1, 0, a)
	}
	if a.isConst() {
		return tt.Const(w, uint64(signExt(a.cval, a.width)))
	}
	return tt.intern(&Term{op: "sext", width: w, args: []*Term{a}, p0: w - a.width})
}

func sortStr(w int) string {
	if w == 0 {
		return "Bool"
	}
	return fmt.Sprintf("(_ BitVec %d)", w)
}

func (t *Term) ref() string {
	switch t.op {
	case "const":
		if t.width == 0 {
			if t.cval == 1 {
				return "true"
			}
			return "false"
		}
		return fmt.Sprintf("(_ bv%d %d)", t.cval, t.width)
	case "var":
		return "|" + t.name + "|"
	}
	return fmt.Sprintf("t%d", t.id)
}

// body renders the defining expression of a non-leaf term using refs of children.
func (t *Term) body() string {
	var sb strings.Builder
	sb.WriteString("(")
	switch t.op {
	case "extract":
		fmt.Fprintf(&sb, "(_ extract %d %d)", t.p0, t.p1)
	case "zext":
		fmt.Fprintf(&sb, "(_ zero_extend %d)", t.p0)
	case "sext":
		fmt.Fprintf(&sb, "(_ sign_extend %d)", t.p0)
	default:
		sb.WriteString(t.op)
	}
	for _, a := range t.args {
		sb.WriteString(" ")
		sb.WriteString(a.ref())
	}
	sb.WriteString(")")
	return sb.String()
}

// String renders a term as a tree (debugging / samples; may be large).
func (t *Term) String() string {
	return t.strDepth(6)
}

func (t *Term) strDepth(d int) string {
	switch t.op {
	case "const", "var":
		return t.ref()
	}
	if d == 0 {
		return "…"
	}
	var sb strings.Builder
	sb.WriteString("(")
	switch t.op {
	case "extract":
		fmt.Fprintf(&sb, "extract[%d:%d]", t.p0, t.p1)
	default:
		sb.WriteString(t.op)
	}
	for _, a := range t.args {
		sb.WriteString(" ")
		sb.WriteString(a.strDepth(d - 1))
	}
	sb.WriteString(")")
	return sb.String()
}

// eval evaluates a term under a model (var name -> value); missing vars are 0.
func (t *Term) eval(m map[string]uint64, memo map[int]uint64) uint64 {
	if v, ok := memo[t.id]; ok {
		return v
	}
	var r uint64
	switch t.op {
	case "const":
		r = t.cval
	case "var":
		r = m[t.name]
	case "ite":
		if t.args[0].eval(m, memo) == 1 {
			r = t.args[1].eval(m, memo)
		} else {
			r = t.args[2].eval(m, memo)
		}
	case "extract":
		r = (t.args[0].eval(m, memo) >> uint(t.p1)) & mask(t.width)
	case "zext":
		r = t.args[0].eval(m, memo)
	case "sext":
		r = uint64(signExt(t.args[0].eval(m, memo), t.args[0].width)) & mask(t.width)
	default:
		vals := make([]uint64, len(t.args))
		for i, a := range t.args {
			vals[i] = a.eval(m, memo)
		}
		v, ok := evalConst(t.op, t.width, vals, t.args[0].width)
		if !ok {
			panic("eval: unsupported op " + t.op)
		}
		r = v
	}
	memo[t.id] = r
	return r
}

package main

// Interpreter threads (cooperative; one real goroutine each, exactly one holds
// the baton), channels with Go's hand-off rules, select, and the sync
// primitives the encoded code uses.  Scheduling is deterministic
// (run-to-block, FIFO run queue) unless the harness enables schedule
// exploration, in which case switching at visible operations is a decision of
// the path (bounded by a preemption budget).

import (
	"fmt"
	"go/token"
	"go/types"

	"golang.org/x/tools/go/ssa"
)

type timer struct {
	at int64
	ch *channel
	tt types.Type
}

type thread struct {
	id      int
	i       *interpreter
	resume  chan struct{}
	name    string
	blocked string // what it is parked on ("" if runnable/running)
	dead    bool
	top     *frame
}

// ---- baton passing -------------------------------------------------------

// switchTo hands the baton from the running thread (cur) to next and parks cur
// until it is resumed.  If cur is dead it simply exits after the hand-off.
func (i *interpreter) handoff(cur *thread, next *thread, park bool) {
	i.cur = next
	next.resume <- struct{}{}
	if park {
		cur.wait()
	}
}

func (th *thread) wait() {
	select {
	case <-th.resume:
	case <-th.i.killed:
		panic(threadKilled{})
	}
}

// park blocks the current thread until another thread makes it runnable again.
func (i *interpreter) park(fr *frame, why string) {
	th := i.cur
	th.blocked = why
	th.top = fr
	i.scheduleNext(th, true)
	th.blocked = ""
}

// yield puts the current thread at the back of the run queue.
func (i *interpreter) yield(fr *frame) {
	if len(i.runq) == 0 {
		return
	}
	th := i.cur
	th.top = fr
	i.runq = append(i.runq, th)
	i.scheduleNext(th, true)
}

// ready makes th runnable.
func (i *interpreter) ready(th *thread) {
	if th.dead {
		return
	}
	for _, t := range i.runq {
		if t == th {
			return
		}
	}
	for _, t := range i.stalled {
		if t == th {
			return // runnable already (set aside by a stall decision); it is resumed when nothing else can run
		}
	}
	i.runq = append(i.runq, th)
}

// scheduleNext picks the next runnable thread; cur parks (park=true) or exits.
func (i *interpreter) scheduleNext(cur *thread, park bool) {
	if len(i.runq) == 0 && len(i.stalled) > 0 {
		w := i.stalled[0]
		i.stalled = i.stalled[1:]
		if w == cur && park {
			return
		}
		i.handoff(cur, w, park)
		return
	}
	if len(i.runq) == 0 {
		// quiescence
		if len(i.idleWait) > 0 {
			w := i.idleWait[0]
			i.idleWait = i.idleWait[1:]
			if w == cur && park {
				return // the waiter is the current thread: it simply continues
			}
			i.handoff(cur, w, park)
			return
		}
		// virtual time: fire the earliest pending timer
		if len(i.timers) > 0 {
			best := 0
			for k, t := range i.timers {
				if t.at < i.timers[best].at {
					best = k
				}
			}
			t := i.timers[best]
			i.timers = append(i.timers[:best:best], i.timers[best+1:]...)
			if t.at > i.now {
				i.now = t.at
			}
			i.timerFires++
			if i.timerFires > 64 {
				i.finish(pathEnd{kind: "unwind", msg: "more than 64 timer expirations on one path (polling loop)"})
				if park {
					cur.wait()
				}
				return
			}
			// deliver the (zero) time value; the receiver, if parked, becomes runnable
			tv := zero(t.tt.Underlying().(*types.Chan).Elem())
			if w := popWaiter(&t.ch.recvq); w != nil {
				i.complete(w, tv, true)
			} else {
				t.ch.buf = append(t.ch.buf, tv)
			}
			if len(i.runq) > 0 {
				i.scheduleNext(cur, park)
				return
			}
			// nobody was waiting on it: try the next timer / deadlock detection
			i.scheduleNext(cur, park)
			return
		}
		// nobody can run: global deadlock (or main exited, handled elsewhere)
		var desc string
		for _, t := range i.threads {
			if !t.dead {
				desc += fmt.Sprintf("[%s: %s] ", t.name, t.blocked)
			}
		}
		// recorded as a violation of its own so that it carries the path's inputs, the
		// order of stub effects and the schedule-dependence flag (for native replay)
		i.addViolation(nil, "deadlock", "deadlock", desc, nil)
		i.finish(pathEnd{kind: "deadlock", msg: desc})
		if park {
			cur.wait() // will be killed
		}
		return
	}
	if len(i.runq) > 1 {
		i.concurrent = true // the order of runnable threads is a schedule choice the real runtime makes freely
	}
	// non-preemptive switches are deterministic (FIFO); only preemptions at
	// visible operations are decisions of the path (CHESS-style bounding).
	k := 0
	if i.explore && i.freeSched && len(i.runq) > 1 {
		conds := make([]*Term, len(i.runq))
		k = i.decide("sched", conds)
	}
	next := i.runq[k]
	i.runq = append(i.runq[:k:k], i.runq[k+1:]...)
	if next == cur && park {
		return
	}
	i.handoff(cur, next, park)
}

// visible marks a visible operation: with schedule exploration enabled and
// preemption budget left, the path may switch to another runnable thread here.
func (i *interpreter) visible(fr *frame, what string) {
	if i.faultFn != nil && i.atomic == 0 && i.cur != nil {
		if i.decide("fault:"+what, make([]*Term, 2)) == 1 {
			fn := i.faultFn
			i.faultFn = nil
			i.events = append(i.events, "fault")
			nthreads := len(i.threads)
			i.atomic++
			call(i, fr, 0, fn, nil)
			i.atomic--
			// a fault that started a thread (e.g. a concurrent Close) takes effect NOW:
			// the new thread runs before the interrupted one continues
			if len(i.threads) > nthreads && len(i.runq) > 0 {
				newest := i.threads[len(i.threads)-1]
				for k, t := range i.runq {
					if t == newest {
						i.runq = append(i.runq[:k:k], i.runq[k+1:]...)
						th := i.cur
						th.top = fr
						i.runq = append(i.runq, th)
						i.handoff(th, newest, true)
						break
					}
				}
			}
		}
	}
	if !i.explore || i.preempts <= 0 || len(i.runq) == 0 || i.cur == nil || i.atomic > 0 {
		return
	}
	// alternatives: 0 = continue; 1..n = switch to runq[k-1] (current thread goes
	// to the back of the run queue); n+1 = stall: the current thread is set
	// aside until no other thread can run ("slow thread" schedules)
	conds := make([]*Term, 2+len(i.runq))
	k := i.decide("preempt:"+what, conds)
	if k == 0 {
		return
	}
	i.preempts--
	th := i.cur
	th.top = fr
	if k == 1+len(i.runq) {
		i.stalled = append(i.stalled, th)
		th.blocked = "stalled"
		i.scheduleNext(th, true)
		th.blocked = ""
		return
	}
	next := i.runq[k-1]
	i.runq = append(i.runq[:k-1:k-1], i.runq[k:]...)
	i.runq = append(i.runq, th)
	i.handoff(th, next, true)
}

// finish reports the end of the path to the worker (first report wins).
func (i *interpreter) finish(pe pathEnd) {
	select {
	case i.done <- pe:
	default:
	}
}

func (i *interpreter) spawn(fr *frame, pos token.Pos, fn value, args []value) *thread {
	th := &thread{id: i.nextTid, i: i, resume: make(chan struct{}, 1)}
	i.nextTid++
	switch f := fn.(type) {
	case *ssa.Function:
		th.name = fmt.Sprintf("T%d:%s", th.id, f.String())
	case *closure:
		th.name = fmt.Sprintf("T%d:%s", th.id, f.Fn.String())
	default:
		th.name = fmt.Sprintf("T%d", th.id)
	}
	i.threads = append(i.threads, th)
	i.runq = append(i.runq, th)
	i.wgThreads.Add(1)
	go func() {
		defer i.wgThreads.Done()
		i.threadMainBody(th, func(root *frame) { call(i, root, pos, fn, args) }, false)
	}()
	i.visible(fr, "go")
	return th
}

// waitIdle parks the caller until no other thread can run (quiescence).
func (i *interpreter) waitIdle(fr *frame) {
	for len(i.runq) > 0 || len(i.stalled) > 0 {
		th := i.cur
		i.idleWait = append(i.idleWait, th)
		th.blocked = "wait-idle"
		th.top = fr
		i.scheduleNext(th, true)
		th.blocked = ""
	}
}

// ---- channels -----------------------------------------------------------

type waiter struct {
	th    *thread
	val   value
	ok    bool
	done  bool
	sel   *selState
	idx   int
	send  bool
	panic bool
}

type selState struct {
	fired  bool
	chosen int
	val    value
	ok     bool
}

type channel struct {
	cap    int
	buf    []value
	closed bool
	recvq  []*waiter
	sendq  []*waiter
	id     int
}

func (i *interpreter) newChan(capacity int) *channel {
	i.nchans++
	return &channel{cap: capacity, id: i.nchans}
}

func popWaiter(q *[]*waiter) *waiter {
	for len(*q) > 0 {
		w := (*q)[0]
		*q = (*q)[1:]
		if w.done || (w.sel != nil && w.sel.fired) {
			continue
		}
		return w
	}
	return nil
}

func hasWaiter(q []*waiter) bool {
	for _, w := range q {
		if !(w.done || (w.sel != nil && w.sel.fired)) {
			return true
		}
	}
	return false
}

func (i *interpreter) complete(w *waiter, v value, ok bool) {
	w.done = true
	w.val = v
	w.ok = ok
	if w.sel != nil {
		w.sel.fired = true
		w.sel.chosen = w.idx
		w.sel.val = v
		w.sel.ok = ok
	}
	i.ready(w.th)
}

// trySend: non-blocking part of a send.
func (i *interpreter) trySend(fr *frame, c *channel, v value) bool {
	if c.closed {
		fr.tpanic("send on closed channel")
	}
	if w := popWaiter(&c.recvq); w != nil {
		i.complete(w, v, true)
		return true
	}
	if len(c.buf) < c.cap {
		c.buf = append(c.buf, v)
		return true
	}
	return false
}

func (i *interpreter) canSend(c *channel) bool {
	return c.closed || hasWaiter(c.recvq) || len(c.buf) < c.cap
}

func (i *interpreter) chanSend(fr *frame, c *channel, v value) {
	i.visible(fr, "send")
	if c == nil {
		i.park(fr, "send on nil channel")
		panic(engineError("resumed from nil-channel send"))
	}
	v = copyVal(v)
	if i.trySend(fr, c, v) {
		return
	}
	w := &waiter{th: i.cur, val: v, send: true}
	c.sendq = append(c.sendq, w)
	for !w.done {
		i.park(fr, fmt.Sprintf("chan send #%d", c.id))
	}
	if w.panic {
		fr.tpanic("send on closed channel")
	}
}

func (i *interpreter) tryRecv(c *channel) (value, bool, bool) {
	if len(c.buf) > 0 {
		v := c.buf[0]
		c.buf = c.buf[1:]
		if s := popWaiter(&c.sendq); s != nil {
			c.buf = append(c.buf, s.val)
			i.complete(s, nil, true)
		}
		return v, true, true
	}
	if s := popWaiter(&c.sendq); s != nil {
		v := s.val
		i.complete(s, nil, true)
		return v, true, true
	}
	if c.closed {
		return nil, false, true
	}
	return nil, false, false
}

func (i *interpreter) canRecv(c *channel) bool {
	return len(c.buf) > 0 || hasWaiter(c.sendq) || c.closed
}

func (i *interpreter) chanRecv(fr *frame, c *channel) (value, bool) {
	i.visible(fr, "recv")
	if c == nil {
		i.park(fr, "receive from nil channel")
		panic(engineError("resumed from nil-channel receive"))
	}
	if v, ok, done := i.tryRecv(c); done {
		return v, ok
	}
	w := &waiter{th: i.cur}
	c.recvq = append(c.recvq, w)
	for !w.done {
		i.park(fr, fmt.Sprintf("chan receive #%d", c.id))
	}
	return w.val, w.ok
}

func (i *interpreter) chanClose(fr *frame, c *channel) {
	i.visible(fr, "close")
	if c == nil {
		fr.tpanic("close of nil channel")
	}
	if c.closed {
		fr.tpanic("close of closed channel")
	}
	c.closed = true
	for {
		w := popWaiter(&c.recvq)
		if w == nil {
			break
		}
		i.complete(w, nil, false)
	}
	for {
		w := popWaiter(&c.sendq)
		if w == nil {
			break
		}
		w.panic = true
		i.complete(w, nil, false)
	}
}

func (i *interpreter) doSelect(fr *frame, instr *ssa.Select) value {
	i.visible(fr, "select")
	type scase struct {
		c    *channel
		send bool
		val  value
	}
	cases := make([]scase, len(instr.States))
	for k, st := range instr.States {
		c, _ := fr.get(st.Chan).(*channel)
		cases[k] = scase{c: c, send: st.Dir == types.SendOnly}
		if cases[k].send {
			cases[k].val = copyVal(fr.get(st.Send))
		}
	}
	result := func(chosen int, v value, ok bool) value {
		r := tuple{chosen, ok}
		for k, st := range instr.States {
			if st.Dir == types.RecvOnly {
				var rv value
				if k == chosen && ok {
					rv = v
				} else {
					rv = zero(st.Chan.Type().Underlying().(*types.Chan).Elem())
				}
				r = append(r, rv)
			}
		}
		return r
	}
	// pass 1: which cases are ready?
	var readyIdx []int
	for k, sc := range cases {
		if sc.c == nil {
			continue
		}
		if sc.send {
			if i.canSend(sc.c) {
				readyIdx = append(readyIdx, k)
			}
		} else if i.canRecv(sc.c) {
			readyIdx = append(readyIdx, k)
		}
	}
	if len(readyIdx) > 0 {
		pick := 0
		if (i.explore || i.exploreSelect) && len(readyIdx) > 1 {
			pick = i.decide("select", make([]*Term, len(readyIdx)))
		}
		k := readyIdx[pick]
		sc := cases[k]
		if sc.send {
			if !i.trySend(fr, sc.c, sc.val) {
				panic(engineError("select: send case not ready after readiness check"))
			}
			return result(k, nil, false)
		}
		v, ok, _ := i.tryRecv(sc.c)
		return result(k, v, ok)
	}
	if !instr.Blocking {
		return result(-1, nil, false)
	}
	// pass 2: enqueue on all channels and park
	st := &selState{}
	for k, sc := range cases {
		if sc.c == nil {
			continue
		}
		w := &waiter{th: i.cur, sel: st, idx: k, send: sc.send, val: sc.val}
		if sc.send {
			sc.c.sendq = append(sc.c.sendq, w)
		} else {
			sc.c.recvq = append(sc.c.recvq, w)
		}
	}
	for !st.fired {
		i.park(fr, "select")
	}
	sc := cases[st.chosen]
	if sc.send {
		// find whether the channel was closed under us
		if sc.c.closed {
			fr.tpanic("send on closed channel")
		}
		return result(st.chosen, nil, false)
	}
	return result(st.chosen, st.val, st.ok)
}

// ---- sync primitives ------------------------------------------------------

type mutexState struct {
	locked  bool
	readers int
	waiters []*thread
}

type wgState struct {
	n       int
	waiters []*thread
}

type condState struct {
	locker  iface
	waiters []*thread
}

type onceState struct{ done bool }

func (i *interpreter) mutex(p *value) *mutexState {
	m := i.mutexes[p]
	if m == nil {
		m = &mutexState{}
		i.mutexes[p] = m
	}
	return m
}

func (i *interpreter) wakeAll(ws *[]*thread) {
	for _, t := range *ws {
		i.ready(t)
	}
	*ws = nil
}

func (i *interpreter) mutexLock(fr *frame, p *value) {
	i.visible(fr, "lock")
	m := i.mutex(p)
	for m.locked || m.readers > 0 {
		m.waiters = append(m.waiters, i.cur)
		i.park(fr, "mutex")
	}
	m.locked = true
}

func (i *interpreter) mutexTryLock(fr *frame, p *value) bool {
	m := i.mutex(p)
	if m.locked || m.readers > 0 {
		return false
	}
	m.locked = true
	return true
}

func (i *interpreter) mutexUnlock(fr *frame, p *value) {
	m := i.mutex(p)
	if !m.locked {
		panic(targetPanic{v: "fatal error: sync: unlock of unlocked mutex", stack: fr.stack()})
	}
	m.locked = false
	i.wakeAll(&m.waiters)
	i.visible(fr, "unlock")
}

func (i *interpreter) mutexRLock(fr *frame, p *value) {
	i.visible(fr, "rlock")
	m := i.mutex(p)
	for m.locked {
		m.waiters = append(m.waiters, i.cur)
		i.park(fr, "rwmutex(r)")
	}
	m.readers++
}

func (i *interpreter) mutexRUnlock(fr *frame, p *value) {
	m := i.mutex(p)
	if m.readers <= 0 {
		panic(targetPanic{v: "fatal error: sync: RUnlock of unlocked RWMutex", stack: fr.stack()})
	}
	m.readers--
	if m.readers == 0 {
		i.wakeAll(&m.waiters)
	}
	i.visible(fr, "runlock")
}

func (i *interpreter) wg(p *value) *wgState {
	w := i.wgs[p]
	if w == nil {
		w = &wgState{}
		i.wgs[p] = w
	}
	return w
}

func (i *interpreter) wgAdd(fr *frame, p *value, n int) {
	w := i.wg(p)
	w.n += n
	if w.n < 0 {
		panic(targetPanic{v: "sync: negative WaitGroup counter", stack: fr.stack()})
	}
	if w.n == 0 {
		i.wakeAll(&w.waiters)
	}
}

func (i *interpreter) wgWait(fr *frame, p *value) {
	i.visible(fr, "wg.wait")
	w := i.wg(p)
	for w.n > 0 {
		w.waiters = append(w.waiters, i.cur)
		i.park(fr, "waitgroup")
	}
}

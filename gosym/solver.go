package main

// One SMT solver process per worker (`z3 -in`), kept alive across paths.
// Any `(error`, `unknown` or timeout is reported as resUnknown and makes the
// run INCONCLUSIVE; it is never read as a pass.

import (
	"bufio"
	"fmt"
	"io"
	"os"
	"os/exec"
	"strconv"
	"strings"
	"time"
)

type satResult int

const (
	resSat satResult = iota
	resUnsat
	resUnknown
)

func (r satResult) String() string {
	switch r {
	case resSat:
		return "sat"
	case resUnsat:
		return "unsat"
	}
	return "unknown"
}

type Solver struct {
	cmd      *exec.Cmd
	in       io.WriteCloser
	out      *bufio.Reader
	defined  map[int]bool
	declared map[string]bool
	queries  int
	nsat     int
	nunsat   int
	nunknown int
	elapsed  time.Duration
	timeout  int // ms
	logw     io.Writer
	bin      string
	args     []string
	lastErr  string
}

func newSolver(bin string, args []string, timeoutMs int) (*Solver, error) {
	if strings.Contains(bin, "cvc5") {
		// cvc5 reads SMT-LIB2 from stdin; incremental mode is needed for push/pop
		args = []string{"--incremental", "--lang", "smt2", "--produce-models", "--tlimit-per=" + strconv.Itoa(timeoutMs)}
	}
	s := &Solver{bin: bin, args: args, timeout: timeoutMs}
	if err := s.start(); err != nil {
		return nil, err
	}
	return s, nil
}

func (s *Solver) start() error {
	s.cmd = exec.Command(s.bin, s.args...)
	in, err := s.cmd.StdinPipe()
	if err != nil {
		return err
	}
	out, err := s.cmd.StdoutPipe()
	if err != nil {
		return err
	}
	s.cmd.Stderr = os.Stderr
	if err := s.cmd.Start(); err != nil {
		return err
	}
	s.in = in
	s.out = bufio.NewReaderSize(out, 1<<16)
	s.resetSession()
	return nil
}

func (s *Solver) send(str string) {
	if s.logw != nil {
		io.WriteString(s.logw, str)
		io.WriteString(s.logw, "\n")
	}
	io.WriteString(s.in, str)
	io.WriteString(s.in, "\n")
}

func (s *Solver) resetSession() {
	s.send("(reset)")
	if strings.Contains(s.bin, "z3") {
		s.send(fmt.Sprintf("(set-option :timeout %d)", s.timeout))
	}
	if strings.Contains(s.bin, "cvc5") {
		s.send("(set-logic ALL)")
	}
	s.defined = map[int]bool{}
	s.declared = map[string]bool{}
}

func (s *Solver) close() {
	if s.in != nil {
		s.send("(exit)")
		s.in.Close()
	}
	if s.cmd != nil {
		done := make(chan struct{})
		go func() { s.cmd.Wait(); close(done) }()
		select {
		case <-done:
		case <-time.After(2 * time.Second):
			s.cmd.Process.Kill()
		}
	}
}

// define makes sure t (and all sub-terms) are defined at the current level.
// Callers must invoke it before any push so that definitions survive the pop.
func (s *Solver) define(t *Term) {
	switch t.op {
	case "const":
		return
	case "var":
		if !s.declared[t.name] {
			s.declared[t.name] = true
			s.send(fmt.Sprintf("(declare-const |%s| %s)", t.name, sortStr(t.width)))
		}
		return
	}
	if s.defined[t.id] {
		return
	}
	// iterative post-order to avoid deep recursion on long ite chains
	type item struct {
		t    *Term
		next int
	}
	stack := []item{{t, 0}}
	for len(stack) > 0 {
		top := &stack[len(stack)-1]
		if top.next < len(top.t.args) {
			a := top.t.args[top.next]
			top.next++
			switch a.op {
			case "const":
			case "var":
				if !s.declared[a.name] {
					s.declared[a.name] = true
					s.send(fmt.Sprintf("(declare-const |%s| %s)", a.name, sortStr(a.width)))
				}
			default:
				if !s.defined[a.id] {
					stack = append(stack, item{a, 0})
				}
			}
			continue
		}
		tt := top.t
		if !s.defined[tt.id] {
			s.defined[tt.id] = true
			s.send(fmt.Sprintf("(define-fun t%d () %s %s)", tt.id, sortStr(tt.width), tt.body()))
		}
		stack = stack[:len(stack)-1]
	}
}

func (s *Solver) assert(t *Term) {
	if t.isConst() && t.cval == 1 {
		return
	}
	s.define(t)
	s.send("(assert " + t.ref() + ")")
}

func (s *Solver) readLine() (string, error) {
	line, err := s.out.ReadString('\n')
	return strings.TrimSpace(line), err
}

func (s *Solver) checkSatRaw() satResult {
	s.queries++
	t0 := time.Now()
	s.send("(check-sat)")
	res := resUnknown
	for {
		line, err := s.readLine()
		if err != nil {
			s.lastErr = "solver died: " + err.Error()
			// restart the process so that later paths can proceed
			s.start()
			res = resUnknown
			break
		}
		if line == "" {
			continue
		}
		if line == "sat" {
			res = resSat
			break
		}
		if line == "unsat" {
			res = resUnsat
			break
		}
		if line == "unknown" || line == "timeout" {
			res = resUnknown
			break
		}
		if strings.HasPrefix(line, "(error") {
			s.lastErr = line
			// keep reading: the check-sat answer still follows, but it is not trusted
			for {
				l2, err := s.readLine()
				if err != nil || l2 == "sat" || l2 == "unsat" || l2 == "unknown" {
					break
				}
			}
			res = resUnknown
			break
		}
		// unexpected output
		s.lastErr = "unexpected solver output: " + line
	}
	s.elapsed += time.Since(t0)
	switch res {
	case resSat:
		s.nsat++
	case resUnsat:
		s.nunsat++
	default:
		s.nunknown++
	}
	return res
}

// check decides satisfiability of the asserted path condition ∧ extra (extra may be nil).
func (s *Solver) check(extra *Term) satResult {
	if extra != nil {
		if extra.isConst() {
			if extra.cval == 0 {
				return resUnsat
			}
			extra = nil
		}
	}
	if extra == nil {
		return s.checkSatRaw()
	}
	s.define(extra)
	s.send("(push 1)")
	s.send("(assert " + extra.ref() + ")")
	r := s.checkSatRaw()
	s.send("(pop 1)")
	return r
}

// checkModel is check, and on sat also returns values for the given variables.
func (s *Solver) checkModel(extra *Term, vars []*Term) (satResult, map[string]uint64) {
	if extra != nil && extra.isConst() {
		if extra.cval == 0 {
			return resUnsat, nil
		}
		extra = nil
	}
	if extra != nil {
		s.define(extra)
	}
	for _, v := range vars {
		s.define(v)
	}
	s.send("(push 1)")
	if extra != nil {
		s.send("(assert " + extra.ref() + ")")
	}
	r := s.checkSatRaw()
	var model map[string]uint64
	if r == resSat {
		model = map[string]uint64{}
		for _, v := range vars {
			s.send("(get-value (" + v.ref() + "))")
			line, err := s.readLine()
			if err != nil {
				r = resUnknown
				break
			}
			// ((|name| #x00ff)) or ((|name| true)) ; may span one line for scalars
			val, ok := parseValueLine(line)
			if !ok {
				s.lastErr = "cannot parse get-value answer: " + line
				r = resUnknown
				break
			}
			model[v.name] = val
		}
	}
	s.send("(pop 1)")
	return r, model
}

func parseValueLine(line string) (uint64, bool) {
	line = strings.TrimSpace(line)
	if !strings.HasPrefix(line, "((") || !strings.HasSuffix(line, "))") {
		return 0, false
	}
	inner := line[2 : len(line)-2]
	// value is the last token
	idx := strings.LastIndexAny(inner, " \t")
	if idx < 0 {
		return 0, false
	}
	v := strings.TrimSpace(inner[idx+1:])
	switch {
	case v == "true":
		return 1, true
	case v == "false":
		return 0, true
	case strings.HasPrefix(v, "#x"):
		u, err := strconv.ParseUint(v[2:], 16, 64)
		return u, err == nil
	case strings.HasPrefix(v, "#b"):
		u, err := strconv.ParseUint(v[2:], 2, 64)
		return u, err == nil
	}
	// (_ bvN w) form
	if j := strings.Index(inner, "(_ bv"); j >= 0 {
		rest := inner[j+5:]
		k := strings.IndexByte(rest, ' ')
		if k > 0 {
			u, err := strconv.ParseUint(rest[:k], 10, 64)
			return u, err == nil
		}
	}
	return 0, false
}

// Derived from golang.org/x/tools/go/ssa/interp (BSD licence, see LICENSE.xtools).
// A symbolic interpreter for go/ssa: one `interpreter` value is the state of
// ONE path; paths are explored by re-execution along a decision prefix.

package main

import (
	"fmt"
	"go/token"
	"go/types"
	"os"
	"slices"
	"strings"
	"sync"

	"golang.org/x/tools/go/ssa"
)

type continuation int

const (
	kNext continuation = iota
	kReturn
	kJump
)

// targetPanic: the program under analysis panicked (explicitly or by a run-time error).
type targetPanic struct {
	v     value
	stack string
}

func (p targetPanic) String() string { return toString(p.v) }

// engineError: the interpreter met something it does not model; the path is INCONCLUSIVE.
type engineError string

// pathEnd: non-local exit of the current path.
type pathEnd struct {
	kind string // "infeasible", "assume", "unwind", "cut", "deadlock", "done"
	msg  string
}

// threadKilled unwinds a parked interpreter thread when its path is over.
type threadKilled struct{}

type deferred struct {
	fn    value
	args  []value
	instr *ssa.Defer
	tail  *deferred
}

type frame struct {
	i                *interpreter
	th               *thread
	caller           *frame
	fn               *ssa.Function
	block, prevBlock *ssa.BasicBlock
	env              map[ssa.Value]value
	locals           []value
	defers           *deferred
	result           value
	panicking        bool
	panic            interface{}
	phitemps         []value
	visits           map[*ssa.BasicBlock]int
	curInstr         ssa.Instruction
}

type violation struct {
	Label    string            `json:"label"`
	Kind     string            `json:"kind"` // "assert", "panic", "deadlock"
	Msg      string            `json:"msg"`
	Model    map[string]uint64 `json:"model"`
	Inputs   []ndValue         `json:"inputs"`
	Decision []dec             `json:"decisions"`
	Stack    string            `json:"stack,omitempty"`
	Known    string            `json:"known_finding,omitempty"`
	Events   []string          `json:"events,omitempty"`
	Observed []string          `json:"observed,omitempty"`
	Sched    bool              `json:"schedule_dependent,omitempty"`
}

type ndValue struct {
	Name  string `json:"name"`
	Kind  string `json:"kind"`
	Value uint64 `json:"value"`
	Sym   bool   `json:"symbolic"`
}

type ndRecord struct {
	name string
	kind string
	term *Term // nil if the value was decided by forking (then conc holds it)
	conc uint64
}

// interpreter is the state of one path.
type interpreter struct {
	m       *machine
	prog    *ssa.Program
	tt      *TermTable
	solver  *Solver
	globals map[*ssa.Global]*value

	prefix []dec
	taken  []dec
	forks  [][]dec
	pc     []*Term
	nds    []ndRecord

	threads      []*thread
	cur          *thread
	runq         []*thread
	nextTid      int
	done         chan pathEnd
	killed       chan struct{}
	explore      bool
	freeSched    bool
	everExplored bool
	atomic       int
	tracing      bool
	atlases      map[*value]*atlasRec
	cborTypes    map[string]*atlasRec
	handles      map[*value]iface
	faultFn      value
	concurrent   bool
	symSizes     int
	ropeMode     bool
	timers       []*timer
	now          int64
	timerFires   int
	preempts     int
	idleWait     []*thread
	stalled      []*thread

	steps         int64
	maxSteps      int64
	loopCap       int
	covers        map[string]bool
	violations    []violation
	unknown       []string // reasons making this path inconclusive
	cuts          []string // parts of the input space deliberately not explored on this path
	trace         []string
	observed      []string // observable trace (for translator validation)
	events        []string // order of stub effects (vstub.Event) on this path
	mutexes       map[*value]*mutexState
	wgs           map[*value]*wgState
	conds         map[*value]*condState
	onces         map[*value]*onceState
	hashes        []hashEntry
	initDone      map[*ssa.Package]bool
	encoded       map[string]bool // functions whose SSA body was executed on this path
	stubsUsed     map[string]bool
	knownOn       map[string]bool // known-finding ids enabled for this run
	lenient       int
	nasserts      int
	exploreSelect bool   // the choice among several ready select cases is a path decision
	fmtFr         *frame // frame on whose behalf the formatter calls Error methods
	fmtDepth      int
	allocLimit    int64 // vstub.AllocLimit: symbolic allocations above it are violations
	params        map[string]int
	nchans        int
	wgThreads     sync.WaitGroup
}

func (fr *frame) get(key ssa.Value) value {
	switch key := key.(type) {
	case nil:
		return nil
	case *ssa.Function, *ssa.Builtin:
		return key
	case *ssa.Const:
		return constValue(key)
	case *ssa.Global:
		return fr.i.global(key)
	}
	if r, ok := fr.env[key]; ok {
		return r
	}
	panic(engineError(fmt.Sprintf("get: no value for %T: %v in %s", key, key.Name(), fr.fn)))
}

func (i *interpreter) global(g *ssa.Global) *value {
	if r, ok := i.globals[g]; ok {
		return r
	}
	// first touch of a package's variable: allocate (and initialise the package leniently)
	i.ensureInit(g.Pkg)
	if r, ok := i.globals[g]; ok {
		return r
	}
	cell := zero(mustDeref(g.Type()))
	// a sentinel error of a package whose initialiser is not interpreted: a unique error value
	if it, ok := mustDeref(g.Type()).Underlying().(*types.Interface); ok && it.NumMethods() == 1 && it.Method(0).Name() == "Error" {
		cell = i.newError("<" + g.Pkg.Pkg.Path() + "." + g.Name() + ">")
	}
	i.globals[g] = &cell
	return &cell
}

func mustDeref(t types.Type) types.Type {
	if p, ok := t.Underlying().(*types.Pointer); ok {
		return p.Elem()
	}
	panic(engineError("mustDeref: not a pointer: " + t.String()))
}

func (fr *frame) runDefer(d *deferred) {
	var ok bool
	defer func() {
		if !ok {
			r := recover()
			switch r.(type) {
			case pathEnd, threadKilled, engineError:
				panic(r)
			}
			fr.panicking = true
			fr.panic = r
		}
	}()
	call(fr.i, fr, d.instr.Pos(), d.fn, d.args)
	ok = true
}

func (fr *frame) runDefers() {
	for d := fr.defers; d != nil; d = d.tail {
		fr.runDefer(d)
	}
	fr.defers = nil
	if fr.panicking {
		panic(fr.panic)
	}
}

func lookupMethod(i *interpreter, typ types.Type, meth *types.Func) *ssa.Function {
	return i.prog.LookupMethod(typ, meth.Pkg(), meth.Name())
}

func (fr *frame) stack() string {
	var sb strings.Builder
	n := 0
	for f := fr; f != nil && n < 24; f = f.caller {
		pos := ""
		if f.curInstr != nil && f.curInstr.Pos() != token.NoPos {
			p := f.i.prog.Fset.Position(f.curInstr.Pos())
			pos = fmt.Sprintf(" (%s:%d)", shortFile(p.Filename), p.Line)
		}
		sb.WriteString(f.fn.String() + pos + "\n")
		n++
	}
	return sb.String()
}

func shortFile(f string) string {
	if k := strings.LastIndex(f, "/"); k >= 0 {
		if j := strings.LastIndex(f[:k], "/"); j >= 0 {
			return f[j+1:]
		}
	}
	return f
}

func (fr *frame) tpanic(msg string) {
	panic(targetPanic{v: "runtime error: " + msg, stack: fr.stack()})
}

// derefPtr checks for nil.
func (fr *frame) ptr(v value) *value {
	p, ok := v.(*value)
	if !ok {
		panic(engineError(fmt.Sprintf("expected pointer, got %T in %s", v, fr.fn)))
	}
	if p == nil {
		fr.tpanic("invalid memory address or nil pointer dereference")
	}
	return p
}

func visitInstr(fr *frame, instr ssa.Instruction) continuation {
	i := fr.i
	switch instr := instr.(type) {
	case *ssa.DebugRef:
		// no-op

	case *ssa.UnOp:
		fr.env[instr] = fr.unop(instr, fr.get(instr.X))

	case *ssa.BinOp:
		fr.env[instr] = fr.binop(instr.Op, instr.X.Type(), instr.Y.Type(), fr.get(instr.X), fr.get(instr.Y))

	case *ssa.Call:
		if i.lenient > 0 && instr.Call.Method != nil {
			if recv, ok := fr.get(instr.Call.Value).(iface); ok && recv.t == nil {
				// lenient package initialisation: an unmodelled value (e.g. reflectlite.Type) is nil
				fr.env[instr] = zero(instr.Type())
				break
			}
		}
		fn, args := prepareCall(fr, &instr.Call)
		fr.env[instr] = call(fr.i, fr, instr.Pos(), fn, args)

	case *ssa.ChangeInterface:
		fr.env[instr] = fr.get(instr.X)

	case *ssa.ChangeType:
		fr.env[instr] = fr.get(instr.X)

	case *ssa.Convert:
		fr.env[instr] = fr.conv(instr.Type(), instr.X.Type(), fr.get(instr.X))

	case *ssa.SliceToArrayPointer:
		panic(engineError("SliceToArrayPointer"))

	case *ssa.MakeInterface:
		fr.env[instr] = iface{t: instr.X.Type(), v: fr.get(instr.X)}

	case *ssa.Extract:
		fr.env[instr] = fr.get(instr.Tuple).(tuple)[instr.Index]

	case *ssa.Slice:
		fr.env[instr] = fr.slice(instr, fr.get(instr.X), fr.get(instr.Low), fr.get(instr.High), fr.get(instr.Max))

	case *ssa.Return:
		switch len(instr.Results) {
		case 0:
		case 1:
			fr.result = fr.get(instr.Results[0])
		default:
			var res []value
			for _, r := range instr.Results {
				res = append(res, fr.get(r))
			}
			fr.result = tuple(res)
		}
		fr.block = nil
		return kReturn

	case *ssa.RunDefers:
		fr.runDefers()

	case *ssa.Panic:
		panic(targetPanic{v: fr.get(instr.X), stack: fr.stack()})

	case *ssa.Send:
		ch := fr.get(instr.Chan).(*channel)
		i.chanSend(fr, ch, fr.get(instr.X))

	case *ssa.Store:
		store(mustDeref(instr.Addr.Type()), fr.ptr(fr.get(instr.Addr)), fr.get(instr.Val))

	case *ssa.If:
		succ := 1
		switch c := fr.get(instr.Cond).(type) {
		case bool:
			if c {
				succ = 0
			}
		case sym:
			if i.decideBool(c.t, "if") {
				succ = 0
			}
		default:
			panic(engineError(fmt.Sprintf("If on %T", c)))
		}
		fr.prevBlock, fr.block = fr.block, fr.block.Succs[succ]
		return kJump

	case *ssa.Jump:
		fr.prevBlock, fr.block = fr.block, fr.block.Succs[0]
		return kJump

	case *ssa.Defer:
		fn, args := prepareCall(fr, &instr.Call)
		defers := &fr.defers
		if instr.DeferStack != nil {
			if into := fr.get(instr.DeferStack); into != nil {
				defers = into.(**deferred)
			}
		}
		*defers = &deferred{fn: fn, args: args, instr: instr, tail: *defers}

	case *ssa.Go:
		fn, args := prepareCall(fr, &instr.Call)
		i.spawn(fr, instr.Pos(), fn, args)

	case *ssa.MakeChan:
		fr.env[instr] = i.newChan(int(fr.concInt(fr.get(instr.Size), "makechan")))

	case *ssa.Alloc:
		var addr *value
		if instr.Heap {
			addr = new(value)
			fr.env[instr] = addr
		} else {
			addr = fr.env[instr].(*value)
		}
		*addr = zero(mustDeref(instr.Type()))

	case *ssa.MakeSlice:
		if ls, isS := fr.get(instr.Len).(sym); isS && i.ropeMode {
			if eb, ok := instr.Type().Underlying().(*types.Slice).Elem().Underlying().(*types.Basic); ok && eb.Kind() == types.Uint8 {
				// a byte buffer of symbolic length: kept symbolic (see rope.go)
				_, lsigned, _ := intInfo(instr.Len.Type())
				if lsigned && i.decideBool(i.tt.App("bvslt", 0, ls.t, i.tt.Const(ls.t.width, 0)), "makeslice<0") {
					fr.tpanic("makeslice: len out of range")
				}
				fr.env[instr] = &rope{segs: []ropeSeg{{kind: segHole, length: i.tt.ZeroExt(ls.t, 64)}}}
				break
			}
		}
		n := fr.concLen(fr.get(instr.Len), instr.Len.Type(), "makeslice: len out of range")
		c := fr.concLen(fr.get(instr.Cap), instr.Cap.Type(), "makeslice: cap out of range")
		if n > c {
			fr.tpanic("makeslice: cap out of range")
		}
		sl := make([]value, c)
		tElt := instr.Type().Underlying().(*types.Slice).Elem()
		for k := range sl {
			sl[k] = zero(tElt)
		}
		fr.env[instr] = sl[:n]

	case *ssa.MakeMap:
		fr.env[instr] = &omap{}

	case *ssa.Range:
		fr.env[instr] = fr.rangeIter(fr.get(instr.X), instr.X.Type())

	case *ssa.Next:
		fr.env[instr] = fr.get(instr.Iter).(iter).next()

	case *ssa.FieldAddr:
		p := fr.ptr(fr.get(instr.X))
		fr.env[instr] = &(*p).(structure)[instr.Field]

	case *ssa.Field:
		fr.env[instr] = fr.get(instr.X).(structure)[instr.Field]

	case *ssa.IndexAddr:
		x := fr.get(instr.X)
		switch x := x.(type) {
		case []value:
			idx := fr.index(fr.get(instr.Index), len(x))
			fr.env[instr] = &x[idx]
		case *value: // *array
			if x == nil {
				fr.tpanic("invalid memory address or nil pointer dereference")
			}
			a := (*x).(array)
			idx := fr.index(fr.get(instr.Index), len(a))
			fr.env[instr] = &a[idx]
		default:
			panic(engineError(fmt.Sprintf("unexpected x type in IndexAddr: %T", x)))
		}

	case *ssa.Index:
		x := fr.get(instr.X)
		switch x := x.(type) {
		case array:
			idx := fr.index(fr.get(instr.Index), len(x))
			fr.env[instr] = x[idx]
		case string:
			fr.env[instr] = fr.strIndex(x, fr.get(instr.Index))
		case sstr:
			fr.env[instr] = fr.strIndex(x, fr.get(instr.Index))
		default:
			panic(engineError(fmt.Sprintf("unexpected x type in Index: %T", x)))
		}

	case *ssa.Lookup:
		fr.env[instr] = fr.lookup(instr, fr.get(instr.X), fr.get(instr.Index))

	case *ssa.MapUpdate:
		m := fr.get(instr.Map).(*omap)
		kt := instr.Map.Type().Underlying().(*types.Map).Key()
		if m == nil {
			fr.tpanic("assignment to entry in nil map")
		}
		i.mapInsert(m, kt, fr.get(instr.Key), copyVal(fr.get(instr.Value)))

	case *ssa.TypeAssert:
		fr.env[instr] = fr.typeAssert(instr, fr.get(instr.X).(iface))

	case *ssa.MakeClosure:
		var bindings []value
		for _, binding := range instr.Bindings {
			bindings = append(bindings, fr.get(binding))
		}
		fr.env[instr] = &closure{instr.Fn.(*ssa.Function), bindings}

	case *ssa.Phi:
		panic(engineError("unreachable phi"))

	case *ssa.Select:
		fr.env[instr] = i.doSelect(fr, instr)

	default:
		panic(engineError(fmt.Sprintf("unexpected instruction: %T", instr)))
	}
	return kNext
}

func prepareCall(fr *frame, call *ssa.CallCommon) (fn value, args []value) {
	v := fr.get(call.Value)
	if call.Method == nil {
		fn = v
	} else {
		recv := v.(iface)
		if recv.t == nil {
			fr.tpanic("invalid memory address or nil pointer dereference (method " + call.Method.Name() + " invoked on nil interface)")
		}
		if f := lookupMethod(fr.i, recv.t, call.Method); f == nil {
			panic(engineError(fmt.Sprintf("method set for dynamic type %v does not contain %s", recv.t, call.Method)))
		} else {
			fn = f
		}
		args = append(args, recv.v)
	}
	for _, arg := range call.Args {
		args = append(args, fr.get(arg))
	}
	return
}

func call(i *interpreter, caller *frame, callpos token.Pos, fn value, args []value) value {
	switch fn := fn.(type) {
	case *ssa.Function:
		if fn == nil {
			caller.tpanic("invalid memory address or nil pointer dereference (call of nil func)")
		}
		return callSSA(i, caller, callpos, fn, args, nil)
	case *closure:
		return callSSA(i, caller, callpos, fn.Fn, args, fn.Env)
	case *ssa.Builtin:
		return callBuiltin(caller, callpos, fn, args)
	}
	panic(engineError(fmt.Sprintf("cannot call %T", fn)))
}

func callSSA(i *interpreter, caller *frame, callpos token.Pos, fn *ssa.Function, args []value, env []value) value {
	fr := &frame{i: i, caller: caller, fn: fn}
	if caller != nil {
		fr.th = caller.th
	}
	if fn.Parent() == nil {
		if r, handled := i.m.dispatchExternal(fr, fn, args); handled {
			return r
		}
	}
	if fn.Blocks == nil {
		// try building the package lazily
		if fn.Pkg != nil {
			i.m.buildPkg(fn.Pkg)
		}
		if fn.Blocks == nil {
			if i.lenient > 0 {
				return zeroResult(fn)
			}
			panic(engineError("no code for function: " + fn.String()))
		}
	}
	if fn.TypeParams().Len() > 0 && len(fn.TypeArgs()) == 0 {
		panic(engineError("uninstantiated generic: " + fn.String()))
	}
	if !i.m.mayExecute(fn) {
		if i.lenient > 0 {
			return zeroResult(fn)
		}
		panic(engineError("unmodelled call: " + fn.String()))
	}
	return execBody(fr, args, env)
}

// execBody interprets fr.fn's SSA body.
func execBody(fr *frame, args []value, env []value) value {
	i, fn := fr.i, fr.fn
	if i.tracing && i.lenient == 0 {
		pp := fnPkgPath(fn)
		if fn.Parent() != nil {
			pp = fnPkgPath(fn.Parent())
		}
		if strings.HasPrefix(pp, "berty.tech/go-orbit-db/stores") || strings.HasPrefix(pp, "berty.tech/go-orbit-db/base") {
			depth := 0
			for f := fr.caller; f != nil; f = f.caller {
				depth++
			}
			name := "?"
			if i.cur != nil {
				name = i.cur.name
				if k := strings.Index(name, ":"); k > 0 {
					name = name[:k]
				}
			}
			fmt.Fprintf(os.Stderr, "%-4s %s%s\n", name, strings.Repeat(" ", depth), fn.String())
		}
	}
	if i.encoded != nil && fn.Parent() == nil && i.lenient == 0 {
		i.encoded[fn.String()] = true
	}
	fr.env = make(map[ssa.Value]value)
	fr.block = fn.Blocks[0]
	fr.locals = make([]value, len(fn.Locals))
	for k, l := range fn.Locals {
		fr.locals[k] = zero(mustDeref(l.Type()))
		fr.env[l] = &fr.locals[k]
	}
	for k, p := range fn.Params {
		fr.env[p] = args[k]
	}
	for k, fv := range fn.FreeVars {
		fr.env[fv] = env[k]
	}
	for fr.block != nil {
		runFrame(fr)
	}
	return fr.result
}

func runFrame(fr *frame) {
	defer func() {
		if fr.block == nil {
			return // normal return
		}
		r := recover()
		switch r.(type) {
		case pathEnd, threadKilled, engineError:
			panic(r)
		case targetPanic:
		default:
			// a Go run-time error inside the interpreter itself: engine bug, not a target panic
			panic(engineError(fmt.Sprintf("interpreter fault in %s: %v", fr.fn, r)))
		}
		fr.panicking = true
		fr.panic = r
		fr.runDefers()
		fr.block = fr.fn.Recover
		if fr.block == nil {
			// recovered in a function without named results: return zero values
			fr.result = zeroResult(fr.fn)
		}
	}()

	for {
		if fr.visits == nil {
			fr.visits = map[*ssa.BasicBlock]int{}
		}
		fr.visits[fr.block]++
		if fr.visits[fr.block] > fr.i.loopCap {
			panic(pathEnd{kind: "unwind", msg: fmt.Sprintf("loop bound %d exceeded in %s", fr.i.loopCap, fr.fn)})
		}
		nonPhis := executePhis(fr)
		for _, instr := range nonPhis {
			fr.i.steps++
			if fr.i.steps > fr.i.maxSteps {
				panic(pathEnd{kind: "unwind", msg: fmt.Sprintf("instruction budget %d exceeded in %s", fr.i.maxSteps, fr.fn)})
			}
			fr.curInstr = instr
			if visitInstr(fr, instr) == kReturn {
				return
			}
		}
	}
}

func zeroResult(fn *ssa.Function) value {
	res := fn.Signature.Results()
	switch res.Len() {
	case 0:
		return nil
	case 1:
		return zero(res.At(0).Type())
	}
	t := make(tuple, res.Len())
	for k := range t {
		t[k] = zero(res.At(k).Type())
	}
	return t
}

func executePhis(fr *frame) []ssa.Instruction {
	firstNonPhi := -1
	for i, instr := range fr.block.Instrs {
		if _, ok := instr.(*ssa.Phi); !ok {
			firstNonPhi = i
			break
		}
	}
	nonPhis := fr.block.Instrs[firstNonPhi:]
	if firstNonPhi > 0 {
		phis := fr.block.Instrs[:firstNonPhi]
		predIndex := slices.Index(fr.block.Preds, fr.prevBlock)
		fr.phitemps = fr.phitemps[:0]
		for _, phi := range phis {
			phi := phi.(*ssa.Phi)
			fr.phitemps = append(fr.phitemps, fr.get(phi.Edges[predIndex]))
		}
		for i, phi := range phis {
			fr.env[phi.(*ssa.Phi)] = fr.phitemps[i]
		}
	}
	return nonPhis
}

func doRecover(caller *frame) value {
	if caller != nil && !caller.panicking &&
		caller.caller != nil && caller.caller.panicking {
		caller.caller.panicking = false
		p := caller.caller.panic
		caller.caller.panic = nil
		switch p := p.(type) {
		case targetPanic:
			if s, ok := p.v.(string); ok {
				// a run-time error raised by the interpreter on behalf of the target
				return iface{t: caller.i.m.runtimeErrorString, v: s}
			}
			return p.v
		default:
			panic(engineError(fmt.Sprintf("unexpected panic type %T in target call to recover()", p)))
		}
	}
	return iface{}
}

// ------------------------------------------------------------------------
// Decisions, path condition

// decide picks one of len(conds) mutually exclusive alternatives.  A nil cond is
// unconstrained (pure choice, e.g. scheduling).  Along the recorded prefix the
// stored choice is replayed without solver queries; at the frontier every
// alternative is checked for feasibility, the first feasible one is taken and
// the others are queued as new prefixes.
func (i *interpreter) decide(tag string, conds []*Term) int {
	pos := len(i.taken)
	if pos < len(i.prefix) {
		c := i.prefix[pos].C
		if c >= len(conds) {
			panic(engineError(fmt.Sprintf("replay divergence at decision %d (%s): choice %d of %d", pos, tag, c, len(conds))))
		}
		i.taken = append(i.taken, dec{C: c})
		if conds[c] != nil {
			i.pc = append(i.pc, conds[c])
			i.solver.assert(conds[c])
		}
		return c
	}
	chosen := -1
	for k, c := range conds {
		feasible := true
		if c != nil {
			if c.isConst() {
				feasible = c.cval == 1
			} else {
				r := i.solver.check(c)
				switch r {
				case resUnsat:
					feasible = false
				case resUnknown:
					i.unknown = append(i.unknown, "solver unknown at "+tag+": "+i.solver.lastErr)
				}
			}
		}
		if !feasible {
			continue
		}
		if chosen < 0 {
			chosen = k
		} else {
			np := make([]dec, pos+1)
			copy(np, i.taken)
			np[pos] = dec{C: k}
			i.forks = append(i.forks, np)
		}
	}
	if chosen < 0 {
		panic(pathEnd{kind: "infeasible", msg: "no feasible alternative at " + tag})
	}
	i.taken = append(i.taken, dec{C: chosen})
	if conds[chosen] != nil {
		i.pc = append(i.pc, conds[chosen])
		i.solver.assert(conds[chosen])
	}
	return chosen
}

// dec is one recorded decision: the index of the alternative taken and, for
// value concretisation, the concrete value chosen.
type dec struct {
	C int    `json:"c"`
	V uint64 `json:"v,omitempty"`
}

// decideValue makes the symbolic term t concrete: at the frontier all feasible
// values (at most maxConcretize) are enumerated with the solver and one path is
// created per value; along a prefix the recorded value is re-asserted.
func (i *interpreter) decideValue(tag string, t *Term) uint64 {
	pos := len(i.taken)
	if pos < len(i.prefix) {
		d := i.prefix[pos]
		i.taken = append(i.taken, d)
		c := i.tt.Eq(t, i.tt.Const(t.width, d.V))
		i.pc = append(i.pc, c)
		i.solver.assert(c)
		return d.V
	}
	var vals []uint64
	block := i.tt.Bool(true)
	for len(vals) <= maxConcretize {
		v := i.tt.FreshVar("cv", t.width)
		q := i.tt.And(block, i.tt.Eq(v, t))
		r, model := i.solver.checkModel(q, []*Term{v})
		if r == resUnsat {
			break
		}
		if r == resUnknown {
			i.unknown = append(i.unknown, "solver unknown while concretising "+tag+": "+i.solver.lastErr)
			break
		}
		val := model[v.name]
		vals = append(vals, val)
		block = i.tt.And(block, i.tt.Not(i.tt.Eq(t, i.tt.Const(t.width, val))))
	}
	if len(vals) == 0 {
		panic(pathEnd{kind: "infeasible", msg: "no feasible value at " + tag})
	}
	if len(vals) > maxConcretize {
		i.cuts = append(i.cuts, fmt.Sprintf("%s: more than %d feasible values, remainder not explored", tag, maxConcretize))
		vals = vals[:maxConcretize]
	}
	for k := 1; k < len(vals); k++ {
		np := make([]dec, pos+1)
		copy(np, i.taken)
		np[pos] = dec{C: k, V: vals[k]}
		i.forks = append(i.forks, np)
	}
	d := dec{C: 0, V: vals[0]}
	i.taken = append(i.taken, d)
	c := i.tt.Eq(t, i.tt.Const(t.width, d.V))
	i.pc = append(i.pc, c)
	i.solver.assert(c)
	return d.V
}

func (i *interpreter) decideBool(c *Term, tag string) bool {
	if c.isConst() {
		return c.cval == 1
	}
	return i.decide(tag, []*Term{c, i.tt.Not(c)}) == 0
}

// assume adds c to the path condition; the path ends silently if that is infeasible.
func (i *interpreter) assume(c *Term) {
	if c.isConst() {
		if c.cval == 0 {
			panic(pathEnd{kind: "assume", msg: "assumption is false"})
		}
		return
	}
	r := i.solver.check(c)
	if r == resUnsat {
		panic(pathEnd{kind: "assume", msg: "assumption infeasible"})
	}
	if r == resUnknown {
		i.unknown = append(i.unknown, "solver unknown at assume: "+i.solver.lastErr)
	}
	i.pc = append(i.pc, c)
	i.solver.assert(c)
}

// ndVars lists the terms of all symbolic inputs created so far.
func (i *interpreter) ndVars() []*Term {
	var vs []*Term
	for _, r := range i.nds {
		if r.term != nil {
			vs = append(vs, r.term)
		}
	}
	return vs
}

func (i *interpreter) inputsFromModel(model map[string]uint64) []ndValue {
	var out []ndValue
	for _, r := range i.nds {
		if r.term != nil {
			out = append(out, ndValue{Name: r.name, Kind: r.kind, Value: model[r.term.name], Sym: true})
		} else {
			out = append(out, ndValue{Name: r.name, Kind: r.kind, Value: r.conc})
		}
	}
	return out
}

// assert checks pc ∧ ¬c.  sat ⇒ a violation with a model is recorded.
// The path then continues under c (if feasible).
func (i *interpreter) assertTerm(fr *frame, c *Term, label string) {
	if c.isConst() && c.cval == 1 {
		return
	}
	neg := i.tt.Not(c)
	r, model := i.solver.checkModel(neg, i.ndVars())
	switch r {
	case resSat:
		i.addViolation(fr, "assert", label, "assertion can be false", model)
	case resUnknown:
		i.unknown = append(i.unknown, "solver unknown at assert "+label+": "+i.solver.lastErr)
	}
	i.assume(c)
}

func (i *interpreter) addViolation(fr *frame, kind, label, msg string, model map[string]uint64) {
	if model == nil {
		r, m := i.solver.checkModel(nil, i.ndVars())
		if r == resSat {
			model = m
		} else {
			model = map[string]uint64{}
		}
	}
	st := ""
	if fr != nil {
		st = fr.stack()
	}
	i.violations = append(i.violations, violation{
		Label: label, Kind: kind, Msg: msg, Model: model,
		Inputs: i.inputsFromModel(model), Decision: append([]dec(nil), i.taken...), Stack: st,
		Events: append([]string(nil), i.events...), Sched: i.everExplored || i.concurrent,
		Observed: append([]string(nil), i.observed...),
	})
}

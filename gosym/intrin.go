package main

// Environment model: interpreter intrinsics for functions whose real body is
// out of reach (runtime, reflection, unsafe, assembly, crypto, formatting,
// logging), and the table of replacements by functions written in Go in the
// harness support package vstub (which are themselves interpreted).
// Every intrinsic/replacement that is hit on a path is recorded in the
// evidence (`stubs`).

import (
	"encoding/hex"
	"fmt"
	"go/types"
	"strconv"
	"strings"

	"golang.org/x/tools/go/ssa"
)

type intrinsic func(fr *frame, fn *ssa.Function, args []value) value

func (m *machine) dispatchExternal(fr *frame, fn *ssa.Function, args []value) (value, bool) {
	i := fr.i
	name := fn.String()
	if fn.Synthetic == "package initializer" {
		i.ensureInit(fn.Pkg)
		return nil, true
	}
	if in, ok := m.intrinsics[name]; ok {
		if i.stubsUsed != nil {
			i.stubsUsed[name] = true
		}
		return in(fr, fn, args), true
	}
	if rep, ok := m.replacements[name]; ok {
		if i.stubsUsed != nil {
			i.stubsUsed[name+" => "+rep.String()] = true
		}
		return callSSA(i, fr.caller, 0, rep, args, nil), true
	}
	pp := fnPkgPath(fn)
	if pp != "" && hasPkgPrefix(pp, m.zeroPolicy) {
		if i.stubsUsed != nil {
			i.stubsUsed[pp+".* (no-op, zero results)"] = true
		}
		return zeroResult(fn), true
	}
	return nil, false
}

func (m *machine) replace(name, vstubFn string) {
	f := m.lookupFunc(vstubPath, vstubFn)
	if f == nil {
		// replacement not present in this vstub build: leave unmodelled
		return
	}
	m.replacements[name] = f
}

const vs = vstubPath + "."

func (m *machine) registerIntrinsics() {
	m.intrinsics = map[string]intrinsic{}
	m.replacements = map[string]*ssa.Function{}
	in := m.intrinsics

	// ---- harness primitives
	nd := func(kind string, t types.Type) intrinsic {
		return func(fr *frame, fn *ssa.Function, args []value) value {
			i := fr.i
			name := concString(args[0])
			w, _, _ := intInfo(t)
			v := i.tt.Var(fmt.Sprintf("%s#%d", name, len(i.nds)), w)
			i.nds = append(i.nds, ndRecord{name: name, kind: kind, term: v})
			return sym{v}
		}
	}
	in[vs+"NdInt"] = nd("int", types.Typ[types.Int])
	in[vs+"NdInt64"] = nd("int64", types.Typ[types.Int64])
	in[vs+"NdUint64"] = nd("uint64", types.Typ[types.Uint64])
	in[vs+"NdUint16"] = nd("uint16", types.Typ[types.Uint16])
	in[vs+"NdByte"] = nd("byte", types.Typ[types.Uint8])
	in[vs+"NdBool"] = nd("bool", types.Typ[types.Bool])
	in[vs+"NdChoice"] = func(fr *frame, fn *ssa.Function, args []value) value {
		i := fr.i
		name := concString(args[0])
		n := int(asInt64(args[1]))
		if n <= 0 {
			panic(engineError("NdChoice with n<=0"))
		}
		k := i.decide("choice:"+name, make([]*Term, n))
		i.nds = append(i.nds, ndRecord{name: name, kind: "choice", conc: uint64(k)})
		return k
	}
	in[vs+"Param"] = func(fr *frame, fn *ssa.Function, args []value) value {
		if v, ok := fr.i.params[concString(args[0])]; ok {
			return v
		}
		return int(asInt64(args[1]))
	}
	in[vs+"Assume"] = func(fr *frame, fn *ssa.Function, args []value) value {
		switch c := args[0].(type) {
		case bool:
			if !c {
				panic(pathEnd{kind: "assume", msg: "assumption false"})
			}
		case sym:
			fr.i.assume(c.t)
		}
		return nil
	}
	in[vs+"Assert"] = func(fr *frame, fn *ssa.Function, args []value) value {
		i := fr.i
		label := concString(args[1])
		i.nasserts++
		switch c := args[0].(type) {
		case bool:
			if !c {
				i.addViolation(fr, "assert", label, "assertion is false on this path", nil)
				panic(pathEnd{kind: "violated", msg: label})
			}
		case sym:
			i.assertTerm(fr, c.t, label)
		}
		return nil
	}
	in[vs+"AllocLimit"] = func(fr *frame, fn *ssa.Function, args []value) value {
		fr.i.allocLimit = asInt64(args[0])
		return nil
	}
	in[vs+"Cover"] = func(fr *frame, fn *ssa.Function, args []value) value {
		fr.i.covers[concString(args[0])] = true
		return nil
	}
	in[vs+"Observe"] = func(fr *frame, fn *ssa.Function, args []value) value {
		if s, ok := args[0].(string); ok {
			fr.i.observed = append(fr.i.observed, s)
		} else {
			fr.i.observed = append(fr.i.observed, toString(args[0]))
		}
		return nil
	}
	in[vs+"KnownFinding"] = func(fr *frame, fn *ssa.Function, args []value) value {
		return fr.i.knownOn[concString(args[0])]
	}
	in[vs+"WaitIdle"] = func(fr *frame, fn *ssa.Function, args []value) value {
		fr.i.waitIdle(fr)
		return nil
	}
	in[vs+"ExploreSchedules"] = func(fr *frame, fn *ssa.Function, args []value) value {
		n := int(asInt64(args[0]))
		fr.i.explore = n > 0
		fr.i.preempts = n
		if n > 0 {
			fr.i.everExplored = true
		}
		return nil
	}
	in[vs+"ExploreSelects"] = func(fr *frame, fn *ssa.Function, args []value) value {
		on, _ := args[0].(bool)
		fr.i.exploreSelect = on
		if on {
			fr.i.everExplored = true
		}
		return nil
	}
	in[vs+"Yield"] = func(fr *frame, fn *ssa.Function, args []value) value {
		fr.i.visible(fr, "yield")
		return nil
	}
	in[vs+"EventBegin"] = func(fr *frame, fn *ssa.Function, args []value) value {
		lab := toString(args[0])
		if s, ok := args[0].(string); ok {
			lab = s
		}
		fr.i.visible(fr, "event:"+lab)
		fr.i.events = append(fr.i.events, lab)
		fr.i.atomic++
		return 0
	}
	in[vs+"EventEnd"] = func(fr *frame, fn *ssa.Function, args []value) value {
		if fr.i.atomic > 0 {
			fr.i.atomic--
		}
		return nil
	}
	in[vs+"FaultAtAnyStep"] = func(fr *frame, fn *ssa.Function, args []value) value {
		fr.i.faultFn = args[0]
		fr.i.everExplored = true
		return nil
	}
	in[vs+"FaultDisarm"] = func(fr *frame, fn *ssa.Function, args []value) value {
		fr.i.faultFn = nil
		return nil
	}
	in[vs+"LiveThreads"] = func(fr *frame, fn *ssa.Function, args []value) value {
		sub := concString(args[0])
		n := 0
		for _, t := range fr.i.threads {
			if t.dead || t == fr.i.cur {
				continue
			}
			if strings.Contains(t.name, sub) {
				n++
			}
		}
		return n
	}
	in[vs+"SymbolicBlobSizes"] = func(fr *frame, fn *ssa.Function, args []value) value {
		fr.i.symSizes = int(asInt64(args[0]))
		if fr.i.symSizes > 0 {
			fr.i.ropeMode = true
		}
		return nil
	}
	in[vs+"NativeBigPayload"] = func(fr *frame, fn *ssa.Function, args []value) value { return false }
	in[vs+"Dir"] = func(fr *frame, fn *ssa.Function, args []value) value { return args[0] }
	in[vs+"Hash"] = func(fr *frame, fn *ssa.Function, args []value) value {
		return fr.i.contentToken(args[0])
	}
	in[vs+"TypeKey"] = func(fr *frame, fn *ssa.Function, args []value) value {
		itf := args[0].(iface)
		if itf.t == nil {
			return "<nil>"
		}
		t := itf.t
		if p, ok := t.(*types.Pointer); ok {
			t = p.Elem()
		}
		return t.String()
	}

	// ---- sync
	lock := func(fr *frame, fn *ssa.Function, args []value) value {
		fr.i.mutexLock(fr, fr.ptr(args[0]))
		return nil
	}
	unlock := func(fr *frame, fn *ssa.Function, args []value) value {
		fr.i.mutexUnlock(fr, fr.ptr(args[0]))
		return nil
	}
	in["(*sync.Mutex).Lock"] = lock
	in["(*sync.Mutex).Unlock"] = unlock
	in["(*sync.Mutex).TryLock"] = func(fr *frame, fn *ssa.Function, args []value) value {
		return fr.i.mutexTryLock(fr, fr.ptr(args[0]))
	}
	in["(*sync.RWMutex).Lock"] = lock
	in["(*sync.RWMutex).Unlock"] = unlock
	in["(*sync.RWMutex).RLock"] = func(fr *frame, fn *ssa.Function, args []value) value {
		fr.i.mutexRLock(fr, fr.ptr(args[0]))
		return nil
	}
	in["(*sync.RWMutex).RUnlock"] = func(fr *frame, fn *ssa.Function, args []value) value {
		fr.i.mutexRUnlock(fr, fr.ptr(args[0]))
		return nil
	}
	in["(*sync.WaitGroup).Add"] = func(fr *frame, fn *ssa.Function, args []value) value {
		fr.i.wgAdd(fr, fr.ptr(args[0]), int(fr.concInt(args[1], "wg.Add")))
		return nil
	}
	in["(*sync.WaitGroup).Done"] = func(fr *frame, fn *ssa.Function, args []value) value {
		fr.i.wgAdd(fr, fr.ptr(args[0]), -1)
		return nil
	}
	in["(*sync.WaitGroup).Wait"] = func(fr *frame, fn *ssa.Function, args []value) value {
		fr.i.wgWait(fr, fr.ptr(args[0]))
		return nil
	}
	in["(*sync.Once).Do"] = func(fr *frame, fn *ssa.Function, args []value) value {
		i := fr.i
		p := fr.ptr(args[0])
		o := i.onces[p]
		if o == nil {
			o = &onceState{}
			i.onces[p] = o
		}
		if !o.done {
			o.done = true
			call(i, fr, 0, args[1], nil)
		}
		return nil
	}
	in["sync.NewCond"] = func(fr *frame, fn *ssa.Function, args []value) value {
		// *sync.Cond: a heap cell holding the real struct's zero value; state is kept aside
		i := fr.i
		ct := fn.Signature.Results().At(0).Type().(*types.Pointer).Elem()
		cell := zero(ct)
		st := ct.Underlying().(*types.Struct)
		for k := 0; k < st.NumFields(); k++ {
			if st.Field(k).Name() == "L" {
				cell.(structure)[k] = args[0]
			}
		}
		p := &cell
		i.conds[p] = &condState{locker: args[0].(iface)}
		return p
	}
	in["(*sync.Cond).Wait"] = func(fr *frame, fn *ssa.Function, args []value) value {
		i := fr.i
		p := fr.ptr(args[0])
		c := i.conds[p]
		if c == nil {
			panic(engineError("sync.Cond not created by NewCond"))
		}
		// as sync.Cond: register as a waiter BEFORE releasing the lock, so that a
		// Signal issued between the unlock and the park is not lost
		me := i.cur
		c.waiters = append(c.waiters, me)
		i.lockerCall(fr, c.locker, "Unlock")
		for {
			still := false
			for _, w := range c.waiters {
				if w == me {
					still = true
				}
			}
			if !still {
				break
			}
			i.park(fr, "cond")
		}
		i.lockerCall(fr, c.locker, "Lock")
		return nil
	}
	in["(*sync.Cond).Signal"] = func(fr *frame, fn *ssa.Function, args []value) value {
		i := fr.i
		c := i.conds[fr.ptr(args[0])]
		if c != nil && len(c.waiters) > 0 {
			w := c.waiters[0]
			c.waiters = c.waiters[1:]
			i.ready(w)
		}
		i.visible(fr, "cond.signal")
		return nil
	}
	in["(*sync.Cond).Broadcast"] = func(fr *frame, fn *ssa.Function, args []value) value {
		i := fr.i
		c := i.conds[fr.ptr(args[0])]
		if c != nil {
			ws := c.waiters
			c.waiters = nil
			for _, w := range ws {
				i.ready(w)
			}
		}
		i.visible(fr, "cond.broadcast")
		return nil
	}

	// ---- errors / fmt
	in["fmt.Errorf"] = func(fr *frame, fn *ssa.Function, args []value) value {
		format := args[0]
		va, _ := args[1].([]value)
		fr.i.fmtFr = fr
		msg := fr.i.sprintf(format, va)
		if fs, ok := format.(string); ok && strings.Contains(fs, "%w") {
			for _, a := range va {
				if it, ok := a.(iface); ok && it.t != nil && implementsError(it.t) {
					cell := value(structure{msg, it})
					return iface{t: fr.i.m.wrapErrorType, v: &cell}
				}
			}
		}
		return fr.i.newError(msg)
	}
	sprintf := func(fr *frame, fn *ssa.Function, args []value) value {
		va, _ := args[1].([]value)
		fr.i.fmtFr = fr
		return fr.i.sprintf(args[0], va)
	}
	in["fmt.Sprintf"] = sprintf
	in["fmt.Sprint"] = func(fr *frame, fn *ssa.Function, args []value) value {
		va, _ := args[0].([]value)
		fr.i.fmtFr = fr
		var parts []value
		for _, a := range va {
			parts = append(parts, strBytes(fr.i.fmtArg(a, 'v'))...)
		}
		return mkstr(parts)
	}
	noop := func(fr *frame, fn *ssa.Function, args []value) value { return zeroResult(fn) }
	in["fmt.Printf"] = noop
	in["fmt.Println"] = noop
	in["fmt.Print"] = noop
	in["fmt.Fprintf"] = noop
	in["(*fmt.wrapError).Error"] = func(fr *frame, fn *ssa.Function, args []value) value {
		return (*fr.ptr(args[0])).(structure)[0]
	}
	in["(*fmt.wrapError).Unwrap"] = func(fr *frame, fn *ssa.Function, args []value) value {
		return (*fr.ptr(args[0])).(structure)[1]
	}
	in["errors.Is"] = func(fr *frame, fn *ssa.Function, args []value) value {
		return fr.i.errorsIs(fr, args[0].(iface), args[1].(iface))
	}
	in["github.com/pkg/errors.Is"] = in["errors.Is"]
	in["errors.As"] = func(fr *frame, fn *ssa.Function, args []value) value {
		i := fr.i
		err := args[0].(iface)
		tgt := args[1].(iface)
		if tgt.t == nil {
			fr.tpanic("errors: target cannot be nil")
		}
		pt, ok := tgt.t.Underlying().(*types.Pointer)
		if !ok {
			fr.tpanic("errors: target must be a non-nil pointer")
		}
		cell := tgt.v.(*value)
		want := pt.Elem()
		for depth := 0; depth < 64 && err.t != nil; depth++ {
			if types.AssignableTo(err.t, want) {
				if types.IsInterface(want) {
					*cell = err
				} else {
					*cell = err.v
				}
				return true
			}
			next := i.unwrapErr(fr, err).(iface)
			err = next
		}
		return false
	}
	in["github.com/pkg/errors.As"] = in["errors.As"]
	in["errors.Unwrap"] = func(fr *frame, fn *ssa.Function, args []value) value {
		return fr.i.unwrapErr(fr, args[0].(iface))
	}
	in["github.com/pkg/errors.New"] = func(fr *frame, fn *ssa.Function, args []value) value {
		return fr.i.newError(args[0])
	}
	in["github.com/pkg/errors.Errorf"] = in["fmt.Errorf"]
	in["github.com/pkg/errors.Wrap"] = func(fr *frame, fn *ssa.Function, args []value) value {
		it := args[0].(iface)
		if it.t == nil {
			return iface{}
		}
		cell := value(structure{args[1], it})
		return iface{t: fr.i.m.wrapErrorType, v: &cell}
	}

	// ---- time
	in["time.After"] = func(fr *frame, fn *ssa.Function, args []value) value {
		// virtual time: the timer fires only when no thread can run and nobody waits
		// for quiescence (see scheduleNext); time never advances while work is pending
		i := fr.i
		c := i.newChan(1)
		d := asInt64(args[0])
		i.timers = append(i.timers, &timer{at: i.now + d, ch: c, tt: fn.Signature.Results().At(0).Type()})
		return c
	}
	// virtual clock: time.Now is the interpreter's virtual time (it advances only when a
	// timer fires); the Time value is built directly (wall = nanoseconds, ext = seconds
	// since year 1, no monotonic reading, UTC), its methods are interpreted from source
	in["time.Now"] = func(fr *frame, fn *ssa.Function, args []value) value {
		t := zeroResult(fn).(structure)
		const unixToInternal = 62135596800
		now := fr.i.now
		t[0] = uint64(now % 1000000000)
		t[1] = int64(unixToInternal + 1700000000 + now/1000000000)
		return t
	}
	// context.DeadlineExceeded's methods (package context itself is modelled, not interpreted)
	in["(context.deadlineExceededError).Error"] = func(fr *frame, fn *ssa.Function, args []value) value {
		return "context deadline exceeded"
	}
	in["(context.deadlineExceededError).Timeout"] = func(fr *frame, fn *ssa.Function, args []value) value {
		return true
	}
	in["(context.deadlineExceededError).Temporary"] = func(fr *frame, fn *ssa.Function, args []value) value {
		return true
	}
	in["time.Sleep"] = func(fr *frame, fn *ssa.Function, args []value) value {
		fr.i.yield(fr)
		return nil
	}

	// ---- strconv / misc pure helpers with unsafe or asm inside
	in["strconv.Itoa"] = func(fr *frame, fn *ssa.Function, args []value) value {
		return strconv.Itoa(int(fr.concInt(args[0], "Itoa")))
	}
	in["strconv.FormatInt"] = func(fr *frame, fn *ssa.Function, args []value) value {
		return strconv.FormatInt(fr.concInt(args[0], "FormatInt"), int(asInt64(args[1])))
	}
	in["encoding/hex.EncodeToString"] = func(fr *frame, fn *ssa.Function, args []value) value {
		// injective stand-in: the bytes themselves (possibly symbolic), prefixed
		b := args[0].([]value)
		out := append([]value{uint8('h'), uint8('x'), uint8(':')}, b...)
		return mkstr(out)
	}

	in["encoding/hex.DecodeString"] = func(fr *frame, fn *ssa.Function, args []value) value {
		// inverse of the stand-in above; genuine hex text (concrete) is decoded for real
		b := strBytes(args[0])
		if len(b) >= 3 && b[0] == value(uint8('h')) && b[1] == value(uint8('x')) && b[2] == value(uint8(':')) {
			return tuple{append([]value{}, b[3:]...), iface{}}
		}
		if cs, ok := args[0].(string); ok {
			raw, err := hex.DecodeString(cs)
			if err != nil {
				return tuple{[]value(nil), fr.i.newError("encoding/hex: invalid input")}
			}
			out := make([]value, len(raw))
			for k, c := range raw {
				out[k] = c
			}
			return tuple{out, iface{}}
		}
		return tuple{[]value(nil), fr.i.newError("encoding/hex: invalid input")}
	}

	// ---- sort
	sortSlice := func(fr *frame, fn *ssa.Function, args []value) value {
		itf := args[0].(iface)
		sl := itf.v.([]value)
		less := args[1]
		i := fr.i
		isLess := func(a, b int) bool {
			r := call(i, fr, 0, less, []value{a, b})
			switch r := r.(type) {
			case bool:
				return r
			case sym:
				return i.decideBool(r.t, "sort.less")
			}
			panic(engineError("sort less result"))
		}
		// stable insertion sort driven by the real less closure (which indexes the same backing slice)
		for a := 1; a < len(sl); a++ {
			for b := a; b > 0 && isLess(b, b-1); b-- {
				sl[b], sl[b-1] = sl[b-1], sl[b]
			}
		}
		return nil
	}
	in["sort.Slice"] = sortSlice
	in["sort.SliceStable"] = sortSlice

	m.registerCodecIntrinsics()
	m.registerEnvIntrinsics()
	m.registerCBORIntrinsics()
	m.registerRopeIntrinsics()
	m.registerReplacements()
	m.registerAtomicIntrinsics()
	m.registerEnvReplacements()
}

func implementsError(t types.Type) bool {
	ms := types.NewMethodSet(t)
	for k := 0; k < ms.Len(); k++ {
		if ms.At(k).Obj().Name() == "Error" {
			return true
		}
	}
	return false
}

func concString(v value) string {
	s, ok := v.(string)
	if !ok {
		panic(engineError(fmt.Sprintf("expected concrete string, got %T", v)))
	}
	return s
}

func (i *interpreter) newError(msg value) value {
	cell := value(structure{msg})
	return iface{t: i.m.errorStringType, v: &cell}
}

// lockerCall invokes Lock/Unlock on a sync.Locker interface value.
func (i *interpreter) lockerCall(fr *frame, l iface, method string) {
	ms := i.prog.MethodSets.MethodSet(l.t)
	for k := 0; k < ms.Len(); k++ {
		if ms.At(k).Obj().Name() == method {
			f := i.prog.MethodValue(ms.At(k))
			call(i, fr, 0, f, []value{l.v})
			return
		}
	}
	panic(engineError("locker method not found: " + method))
}

func (i *interpreter) callMethod(fr *frame, recv iface, method string, args ...value) (value, bool) {
	if recv.t == nil {
		return nil, false
	}
	ms := i.prog.MethodSets.MethodSet(recv.t)
	for k := 0; k < ms.Len(); k++ {
		if ms.At(k).Obj().Name() == method {
			f := i.prog.MethodValue(ms.At(k))
			if f == nil {
				return nil, false
			}
			return call(i, fr, 0, f, append([]value{recv.v}, args...)), true
		}
	}
	return nil, false
}

func (i *interpreter) unwrapErr(fr *frame, e iface) value {
	r, ok := i.callMethod(fr, e, "Unwrap")
	if !ok {
		return iface{}
	}
	if it, ok := r.(iface); ok {
		return it
	}
	return iface{}
}

func (i *interpreter) errorsIs(fr *frame, err, target iface) value {
	for n := 0; n < 32; n++ {
		if err.t == nil {
			return target.t == nil
		}
		if sameType(err.t, target.t) {
			if _, isPtr := err.t.Underlying().(*types.Pointer); isPtr {
				if err.v.(*value) == target.v.(*value) {
					return true
				}
			} else if types.Comparable(err.t) {
				eq := i.equals(err.t, err.v, target.v)
				switch e := eq.(type) {
				case bool:
					if e {
						return true
					}
				case sym:
					if i.decideBool(e.t, "errors.Is") {
						return true
					}
				}
			}
		}
		if r, ok := i.callMethod(fr, err, "Is", target); ok {
			if b, ok := r.(bool); ok && b {
				return true
			}
		}
		// Unwrap() []error (errors.Join, fmt.Errorf with several %w): any branch may match
		if r, ok := i.callMethod(fr, err, "Unwrap"); ok {
			if list, isList := r.([]value); isList {
				for _, x := range list {
					if xi, ok := x.(iface); ok && xi.t != nil {
						if b, ok := i.errorsIs(fr, xi, target).(bool); ok && b {
							return true
						}
					}
				}
				return false
			}
		}
		next := i.unwrapErr(fr, err).(iface)
		if next.t == nil {
			return false
		}
		err = next
	}
	return false
}

// fmtArg renders one formatting operand.
func (i *interpreter) fmtArg(a value, verb byte) value {
	if it, ok := a.(iface); ok {
		if it.t == nil {
			return "<nil>"
		}
		if verb == 's' || verb == 'v' || verb == 'w' || verb == 'q' {
			if implementsError(it.t) {
				// the error's own text, computed by its real Error method
				if i.fmtFr != nil && i.fmtDepth < 8 {
					i.fmtDepth++
					r, ok := i.callMethod(i.fmtFr, it, "Error")
					i.fmtDepth--
					if ok {
						switch r.(type) {
						case string, sstr:
							return r
						}
					}
				}
				return "<error>"
			}
		}
		a = it.v
	}
	switch x := a.(type) {
	case string:
		if verb == 'q' {
			return strconv.Quote(x)
		}
		return x
	case sstr:
		return x
	case structure:
		if verb == 'v' {
			out := []value{uint8('{')}
			for k, e := range x {
				if k > 0 {
					out = append(out, uint8(' '))
				}
				out = append(out, strBytes(i.fmtArg(e, 'v'))...)
			}
			out = append(out, uint8('}'))
			return mkstr(out)
		}
	case bool:
		return strconv.FormatBool(x)
	case int, int8, int16, int32, int64:
		if verb == 'c' {
			return string(rune(asInt64(x)))
		}
		if verb == 'x' {
			return strconv.FormatInt(asInt64(x), 16)
		}
		return strconv.FormatInt(asInt64(x), 10)
	case uint, uint8, uint16, uint32, uint64, uintptr:
		if verb == 'x' {
			return strconv.FormatUint(uint64(asInt64(x)), 16)
		}
		return strconv.FormatUint(uint64(asInt64(x)), 10)
	case float64:
		return strconv.FormatFloat(x, 'g', -1, 64)
	case float32:
		return strconv.FormatFloat(float64(x), 'g', -1, 32)
	case sym:
		return "<sym>"
	case array:
		return i.fmtArg([]value(x), verb)
	case []value:
		if verb == 'x' {
			allConc := len(x) > 0
			for _, e := range x {
				if _, ok := e.(uint8); !ok {
					allConc = false
				}
			}
			if allConc {
				var sb strings.Builder
				for _, e := range x {
					fmt.Fprintf(&sb, "%02x", e.(uint8))
				}
				return sb.String()
			}
		}
		if verb == 's' || verb == 'x' {
			allBytes := true
			for _, e := range x {
				switch e.(type) {
				case uint8, sym, *jsonBlob:
				default:
					allBytes = false
				}
			}
			if allBytes {
				return mkstr(x)
			}
		}
		if verb == 'v' || verb == 'q' || verb == 'd' || verb == 's' {
			out := []value{uint8('[')}
			for k, e := range x {
				if k > 0 {
					out = append(out, uint8(' '))
				}
				out = append(out, strBytes(i.fmtArg(e, verb))...)
			}
			out = append(out, uint8(']'))
			return mkstr(out)
		}
	}
	return "<val>"
}

// sprintf is a small formatter: %s %d %v %x %q %w %c with concrete or symbolic operands.
func (i *interpreter) sprintf(format value, args []value) value {
	fs, ok := format.(string)
	if !ok {
		return "<fmt>"
	}
	var out []value
	ai := 0
	for k := 0; k < len(fs); k++ {
		c := fs[k]
		if c != '%' || k+1 >= len(fs) {
			out = append(out, c)
			continue
		}
		k++
		// skip flags / width
		for k < len(fs) && strings.IndexByte("+-# 0123456789.", fs[k]) >= 0 {
			k++
		}
		if k >= len(fs) {
			break
		}
		verb := fs[k]
		if verb == '%' {
			out = append(out, uint8('%'))
			continue
		}
		if ai < len(args) {
			out = append(out, strBytes(i.fmtArg(args[ai], verb))...)
			ai++
		} else {
			out = append(out, strBytes("%!"+string(verb)+"(MISSING)")...)
		}
	}
	return mkstr(out)
}

// ---- content addressing -------------------------------------------------

type hashEntry struct {
	content value
	token   string
}

// contentToken implements perfect hashing: structurally equal contents share a
// token; symbolic equality forks the path.
func (i *interpreter) contentToken(x value) value {
	norm := i.normalize(x, 0)
	for _, h := range i.hashes {
		eq := i.deepEq(h.content, norm)
		switch e := eq.(type) {
		case bool:
			if e {
				return h.token
			}
		case sym:
			if i.decideBool(e.t, "hash-eq") {
				return h.token
			}
		}
	}
	tok := fmt.Sprintf("zdpuVerif%03d", len(i.hashes)+1)
	i.hashes = append(i.hashes, hashEntry{content: norm, token: tok})
	return tok
}

// normalize produces a pointer-free deep copy (pointers are followed) used as hashed content.
func (i *interpreter) normalize(x value, depth int) value {
	if depth > 40 {
		panic(engineError("normalize: structure too deep (cycle?)"))
	}
	switch v := x.(type) {
	case *value:
		if v == nil {
			return tuple{"nilptr"}
		}
		return tuple{"ptr", i.normalize(*v, depth+1)}
	case structure:
		out := make(tuple, 0, len(v)+1)
		out = append(out, "struct")
		for _, e := range v {
			out = append(out, i.normalize(e, depth+1))
		}
		return out
	case array:
		out := make(tuple, 0, len(v)+1)
		out = append(out, "array")
		for _, e := range v {
			out = append(out, i.normalize(e, depth+1))
		}
		return out
	case []value:
		out := make(tuple, 0, len(v)+1)
		out = append(out, "slice")
		for _, e := range v {
			out = append(out, i.normalize(e, depth+1))
		}
		return out
	case iface:
		if v.t == nil {
			return tuple{"nil"}
		}
		return tuple{"iface", v.t.String(), i.normalize(v.v, depth+1)}
	case *omap:
		out := tuple{"map"}
		if v != nil {
			for k := range v.keys {
				out = append(out, i.normalize(v.keys[k], depth+1), i.normalize(v.vals[k], depth+1))
			}
		}
		return out
	case sstr:
		return mkstr(v.b)
	case *closure, *ssa.Function, *channel:
		return tuple{"opaque"}
	}
	return x
}

// deepEq compares two normalized contents.
func (i *interpreter) deepEq(a, b value) value {
	switch x := a.(type) {
	case tuple:
		y, ok := b.(tuple)
		if !ok || len(x) != len(y) {
			return false
		}
		var acc value = true
		for k := range x {
			acc = i.vAnd(acc, i.deepEq(x[k], y[k]))
			if bb, ok := acc.(bool); ok && !bb {
				return false
			}
		}
		return acc
	case string, sstr:
		if !isStrVal(b) {
			return false
		}
		return i.strEq(a, b)
	case *jsonBlob:
		y, ok := b.(*jsonBlob)
		if !ok {
			return false
		}
		return i.blobEq(x, y)
	case sym:
		if _, isT := b.(tuple); isT {
			return false
		}
		if isStrVal(b) {
			return false
		}
		tb := i.toTerm(b)
		if tb.width != x.t.width {
			return false
		}
		return mkval(types.Typ[types.Bool], i.tt.Eq(x.t, tb))
	}
	if ys, ok := b.(sym); ok {
		ta := i.toTerm(a)
		if ta.width != ys.t.width {
			return false
		}
		return mkval(types.Typ[types.Bool], i.tt.Eq(ta, ys.t))
	}
	if _, isT := b.(tuple); isT {
		return false
	}
	if isStrVal(b) {
		return false
	}
	return a == b
}

package main

// registerReplacements maps external functions to implementations written in
// Go inside the harness support package vstub; those are interpreted like any
// other code (and therefore handle symbolic bytes by forking).
func (m *machine) registerReplacements() {
	for name, repl := range map[string]string{
		"strings.Contains":   "StringsContains",
		"strings.HasPrefix":  "StringsHasPrefix",
		"strings.HasSuffix":  "StringsHasSuffix",
		"strings.Index":      "StringsIndex",
		"strings.Join":       "StringsJoin",
		"strings.Repeat":     "StringsRepeat",
		"strings.ReplaceAll": "StringsReplaceAll",
		"strings.Split":      "StringsSplit",
		"strings.ToLower":    "StringsToLower",
		"strings.TrimPrefix": "StringsTrimPrefix",
		"strings.TrimSuffix": "StringsTrimSuffix",
		"strings.Compare":    "StringsCompare",
		"strings.LastIndex":  "StringsLastIndex",
		"bytes.Compare":      "BytesCompare",
		"bytes.Equal":        "BytesEqual",

		"github.com/ipfs/go-libipfs/files.NewBytesFile": "NewMemFile",
		"github.com/ipfs/boxo/files.NewBytesFile":       "NewMemFile",

		"context.Background":  "CtxBackground",
		"context.TODO":        "CtxBackground",
		"context.WithCancel":  "CtxWithCancel",
		"context.WithTimeout": "CtxWithTimeout",
	} {
		m.replace(name, repl)
	}
}

package main

// registerReplacements maps external functions to implementations written in
// Go inside the harness support package vstub; those are interpreted like any
// other code (and therefore handle symbolic bytes by forking).
func (m *machine) registerReplacements() {
	for name, repl := range map[string]string{
		"strings.Contains":   "StringsContains",
		"strings.HasPrefix":  "StringsHasPrefix",
		"strings.HasSuffix":  "StringsHasSuffix",
		"strings.Index":      "StringsIndex",
		"strings.Join":       "StringsJoin",
		"strings.Repeat":     "StringsRepeat",
		"strings.ReplaceAll": "StringsReplaceAll",
		"strings.Split":      "StringsSplit",
		"strings.ToLower":    "StringsToLower",
		"strings.TrimPrefix": "StringsTrimPrefix",
		"strings.TrimSuffix": "StringsTrimSuffix",
		"strings.Compare":    "StringsCompare",
		"strings.LastIndex":  "StringsLastIndex",
		"bytes.Compare":      "BytesCompare",
		"bytes.Equal":        "BytesEqual",

		"github.com/ipfs/go-libipfs/files.NewBytesFile": "NewMemFile",
		"github.com/ipfs/boxo/files.NewBytesFile":       "NewMemFile",

		"crypto/sha256.New":    "NewSha256",
		"crypto/sha256.Sum256": "Sum256",
		"crypto/sha1.New":      "NewSha1",
		"crypto/sha1.Sum":      "Sum1",
		"crypto/sha512.New":    "NewSha512",
		"crypto/md5.New":       "NewMd5",
		"crypto/md5.Sum":       "SumMd5",
		"hash/fnv.New32":       "NewFnv32",
		"hash/fnv.New32a":      "NewFnv32",
		"hash/fnv.New64":       "NewFnv64",
		"hash/fnv.New64a":      "NewFnv64",

		"github.com/libp2p/go-libp2p/core/crypto.GenerateSecp256k1Key":            "GenerateSecp256k1Key",
		"github.com/libp2p/go-libp2p/core/crypto.UnmarshalSecp256k1PrivateKey":    "UnmarshalSecp256k1PrivateKey",
		"github.com/libp2p/go-libp2p/core/crypto.UnmarshalSecp256k1PublicKey":     "UnmarshalSecp256k1PublicKey",
		"(github.com/libp2p/go-libp2p/core/crypto/pb.KeyType).String":             "KeyTypeString",
		"berty.tech/go-ipfs-log/identityprovider.compressedToUncompressedS256Key": "SameBytes",

		"(*sync.Map).Load":             "SyncMapLoad",
		"(*sync.Map).Store":            "SyncMapStore",
		"(*sync.Map).LoadOrStore":      "SyncMapLoadOrStore",
		"(*sync.Map).LoadAndDelete":    "SyncMapLoadAndDelete",
		"(*sync.Map).Delete":           "SyncMapDelete",
		"(*sync.Map).Swap":             "SyncMapSwap",
		"(*sync.Map).CompareAndSwap":   "SyncMapCompareAndSwap",
		"(*sync.Map).CompareAndDelete": "SyncMapCompareAndDelete",
		"(*sync.Map).Range":            "SyncMapRange",
		"(*sync.Map).Clear":            "SyncMapClear",
		"(*sync.Pool).Get":             "SyncPoolGet",
		"(*sync.Pool).Put":             "SyncPoolPut",

		"(*strings.Builder).WriteString": "BuilderWriteString",
		"(*strings.Builder).WriteByte":   "BuilderWriteByte",
		"(*strings.Builder).Write":       "BuilderWrite",
		"(*strings.Builder).WriteRune":   "BuilderWriteRune",
		"(*strings.Builder).String":      "BuilderString",
		"(*strings.Builder).Len":         "BuilderLen",
		"(*strings.Builder).Cap":         "BuilderCap",
		"(*strings.Builder).Grow":        "BuilderGrow",
		"(*strings.Builder).Reset":       "BuilderReset",

		"encoding/json.NewDecoder":                       "JSONNewDecoder",
		"(*encoding/json.Decoder).Decode":                "JSONDecoderDecode",
		"(*encoding/json.Decoder).More":                  "JSONDecoderMore",
		"(*encoding/json.Decoder).DisallowUnknownFields": "JSONDecoderDisallowUnknownFields",
		"(*encoding/json.Decoder).UseNumber":             "JSONDecoderUseNumber",
		"encoding/json.NewEncoder":                       "JSONNewEncoder",
		"(*encoding/json.Encoder).Encode":                "JSONEncoderEncode",
		"(*encoding/json.Encoder).SetIndent":             "JSONEncoderSetIndent",
		"(*encoding/json.Encoder).SetEscapeHTML":         "JSONEncoderSetEscapeHTML",

		"internal/bytealg.CountString":         "BACountString",
		"internal/bytealg.Count":               "BACount",
		"internal/bytealg.IndexByte":           "BAIndexByte",
		"internal/bytealg.IndexByteString":     "BAIndexByteString",
		"internal/bytealg.LastIndexByte":       "BALastIndexByte",
		"internal/bytealg.LastIndexByteString": "BALastIndexByteString",
		"internal/bytealg.IndexString":         "BAIndexString",
		"internal/bytealg.Index":               "BAIndex",
		"internal/bytealg.Equal":               "BAEqual",
		"internal/bytealg.Compare":             "BACompare",

		"time.NewTimer":       "TimeNewTimer",
		"time.AfterFunc":      "TimeAfterFunc",
		"(*time.Timer).Stop":  "TimerStop",
		"(*time.Timer).Reset": "TimerReset",
		"time.NewTicker":      "TimeNewTicker",
		"(*time.Ticker).Stop": "TickerStop",
		"time.Tick":           "TimeTick",

		"context.Background":      "CtxBackground",
		"context.TODO":            "CtxBackground",
		"context.WithCancel":      "CtxWithCancel",
		"context.WithTimeout":     "CtxWithTimeout",
		"context.WithDeadline":    "CtxWithDeadline",
		"context.WithValue":       "CtxWithValue",
		"context.WithoutCancel":   "CtxWithoutCancel",
		"context.Cause":           "CtxCause",
		"context.WithCancelCause": "CtxWithCancelCause",
		"context.AfterFunc":       "CtxAfterFunc",
	} {
		m.replace(name, repl)
	}
	// libp2p-pubsub's concrete types (Topic, Subscription, TopicEventHandler)
	// cannot be stubbed through an interface: their methods are replaced by
	// scripted stand-ins that live in the pubsubraw harness file itself.
	rawPkg := repoModule + "/pubsub/pubsubraw"
	const ps = "github.com/libp2p/go-libp2p-pubsub"
	for name, repl := range map[string]string{
		"(*" + ps + ".PubSub).Join":                     "verifRawJoin",
		"(*" + ps + ".Topic).Publish":                   "verifRawPublish",
		"(*" + ps + ".Topic).ListPeers":                 "verifRawListPeers",
		"(*" + ps + ".Topic).EventHandler":              "verifRawEventHandler",
		"(*" + ps + ".Topic).Subscribe":                 "verifRawSubscribe",
		"(*" + ps + ".TopicEventHandler).NextPeerEvent": "verifRawNextPeerEvent",
		"(*" + ps + ".TopicEventHandler).Cancel":        "verifRawHandlerCancel",
		"(*" + ps + ".Subscription).Next":               "verifRawNext",
		"(*" + ps + ".Subscription).Cancel":             "verifRawSubCancel",
		ps + ".WithBufferSize":                          "verifRawWithBufferSize",
	} {
		if f := m.lookupFunc(rawPkg, repl); f != nil {
			m.replacements[name] = f
		}
	}
}

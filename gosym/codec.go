package main

// Idealised injective codec for encoding/json: a document is a tree in the JSON
// data model (not bytes).  Marshal is type-directed by struct tags taken from
// go/types (omitempty, "-", names); Unmarshal is type-directed by the target
// type.  Marshal∘Unmarshal round-trips exactly as encoding/json does for the
// types involved; byte-level behaviour of encoding/json is outside the claim.
// An encoded document appears to the program as a []byte of length 1 whose
// single element is the *jsonBlob.

import (
	"fmt"
	"go/types"
	"reflect"
	"sort"
	"strings"

	"golang.org/x/tools/go/ssa"
)

type jkind int

const (
	jNull jkind = iota
	jBool
	jNum
	jStr
	jBytes
	jArr
	jObj
	jCid
)

type jv struct {
	kind jkind
	b    value // bool | sym
	n    value // integer value (concrete or sym) with nt
	nt   types.Type
	s    value // string | sstr (jStr, jCid) ; []value for jBytes
	arr  []*jv
	keys []string
	vals []*jv
}

type jsonBlob struct {
	j    *jv
	kind string // "json" | "cbor"
}

func (j *jv) String() string {
	var sb strings.Builder
	j.write(&sb, 0)
	return sb.String()
}

func (j *jv) write(sb *strings.Builder, d int) {
	if d > 8 {
		sb.WriteString("…")
		return
	}
	switch j.kind {
	case jNull:
		sb.WriteString("null")
	case jBool:
		sb.WriteString(toString(j.b))
	case jNum:
		sb.WriteString(toString(j.n))
	case jStr:
		sb.WriteString(toString(j.s))
	case jBytes:
		sb.WriteString("b64" + toString(j.s))
	case jCid:
		sb.WriteString("{\"/\":" + toString(j.s) + "}")
	case jArr:
		sb.WriteString("[")
		for k, e := range j.arr {
			if k > 0 {
				sb.WriteString(",")
			}
			e.write(sb, d+1)
		}
		sb.WriteString("]")
	case jObj:
		sb.WriteString("{")
		for k := range j.keys {
			if k > 0 {
				sb.WriteString(",")
			}
			fmt.Fprintf(sb, "%q:", j.keys[k])
			j.vals[k].write(sb, d+1)
		}
		sb.WriteString("}")
	}
}

func (i *interpreter) blobEq(a, b *jsonBlob) value {
	if a == b {
		return true
	}
	return i.jvEq(a.j, b.j)
}

func (i *interpreter) jvEq(a, b *jv) value {
	if a.kind != b.kind {
		return false
	}
	switch a.kind {
	case jNull:
		return true
	case jBool:
		return i.equals(types.Typ[types.Bool], a.b, b.b)
	case jNum:
		ta, tb := i.toTerm(a.n), i.toTerm(b.n)
		if ta.width != tb.width {
			// compare as 64-bit
			ta, tb = i.tt.SignExt(ta, 64), i.tt.SignExt(tb, 64)
		}
		return mkval(types.Typ[types.Bool], i.tt.Eq(ta, tb))
	case jStr, jCid:
		return i.strEq(a.s, b.s)
	case jBytes:
		x, y := a.s.([]value), b.s.([]value)
		if len(x) != len(y) {
			return false
		}
		var acc value = true
		for k := range x {
			acc = i.vAnd(acc, i.byteEq(x[k], y[k]))
			if bb, ok := acc.(bool); ok && !bb {
				return false
			}
		}
		return acc
	case jArr:
		if len(a.arr) != len(b.arr) {
			return false
		}
		var acc value = true
		for k := range a.arr {
			acc = i.vAnd(acc, i.jvEq(a.arr[k], b.arr[k]))
			if bb, ok := acc.(bool); ok && !bb {
				return false
			}
		}
		return acc
	case jObj:
		if len(a.keys) != len(b.keys) {
			return false
		}
		var acc value = true
		for k := range a.keys {
			if a.keys[k] != b.keys[k] {
				return false
			}
			acc = i.vAnd(acc, i.jvEq(a.vals[k], b.vals[k]))
			if bb, ok := acc.(bool); ok && !bb {
				return false
			}
		}
		return acc
	}
	return false
}

type jsonField struct {
	idx       int
	name      string
	omitempty bool
	asString  bool
	typ       types.Type
}

func isCidType(t types.Type) bool {
	n, ok := t.(*types.Named)
	return ok && n.Obj().Name() == "Cid" && n.Obj().Pkg() != nil && n.Obj().Pkg().Path() == "github.com/ipfs/go-cid"
}

// jsonFields lists the fields of struct type st as encoding/json sees them
// (exported, tags honoured).  Embedded structs are not flattened (none of the
// encoded types relies on that); they are encoded as a nested object.
func jsonFields(st *types.Struct) []jsonField {
	var out []jsonField
	for k := 0; k < st.NumFields(); k++ {
		f := st.Field(k)
		if !f.Exported() {
			continue
		}
		tag := reflect.StructTag(st.Tag(k)).Get("json")
		if tag == "-" {
			continue
		}
		name := f.Name()
		jf := jsonField{idx: k, typ: f.Type()}
		if tag != "" {
			parts := strings.Split(tag, ",")
			if parts[0] != "" {
				name = parts[0]
			}
			for _, o := range parts[1:] {
				switch o {
				case "omitempty":
					jf.omitempty = true
				case "string":
					jf.asString = true
				}
			}
		}
		jf.name = name
		out = append(out, jf)
	}
	return out
}

func (i *interpreter) isEmptyJSON(t types.Type, v value) bool {
	switch u := t.Underlying().(type) {
	case *types.Basic:
		switch x := v.(type) {
		case bool:
			return !x
		case string:
			return x == ""
		case sstr:
			return len(x.b) == 0
		case sym:
			// omitempty on a symbolic scalar: fork on zero
			var z *Term
			if x.t.width == 0 {
				z = i.tt.Not(x.t)
			} else {
				z = i.tt.Eq(x.t, i.tt.Const(x.t.width, 0))
			}
			return i.decideBool(z, "omitempty")
		}
		if u.Info()&types.IsInteger != 0 {
			return asInt64(v) == 0
		}
		if f, ok := v.(float64); ok {
			return f == 0
		}
		return false
	case *types.Slice:
		return len(v.([]value)) == 0
	case *types.Map:
		return v.(*omap).length() == 0
	case *types.Pointer:
		return v.(*value) == nil
	case *types.Interface:
		return v.(iface).t == nil
	case *types.Array:
		return u.Len() == 0
	}
	return false
}

func (i *interpreter) toJSON(t types.Type, v value, depth int) *jv {
	if depth > 30 {
		panic(engineError("json: structure too deep"))
	}
	if isCidType(t) {
		s := v.(structure)[0]
		if strLen(s) == 0 {
			return &jv{kind: jNull}
		}
		return &jv{kind: jCid, s: s}
	}
	switch u := t.Underlying().(type) {
	case *types.Basic:
		switch {
		case u.Info()&types.IsBoolean != 0:
			return &jv{kind: jBool, b: v}
		case u.Info()&types.IsString != 0:
			return &jv{kind: jStr, s: v}
		case u.Info()&types.IsInteger != 0:
			return &jv{kind: jNum, n: v, nt: t}
		case u.Info()&types.IsFloat != 0:
			return &jv{kind: jNum, n: v, nt: t}
		}
	case *types.Pointer:
		p := v.(*value)
		if p == nil {
			return &jv{kind: jNull}
		}
		return i.toJSON(u.Elem(), *p, depth+1)
	case *types.Interface:
		it := v.(iface)
		if it.t == nil {
			return &jv{kind: jNull}
		}
		return i.toJSON(it.t, it.v, depth+1)
	case *types.Slice:
		sl := v.([]value)
		if sl == nil {
			return &jv{kind: jNull}
		}
		if eb, ok := u.Elem().Underlying().(*types.Basic); ok && eb.Kind() == types.Uint8 {
			return &jv{kind: jBytes, s: append([]value(nil), sl...)}
		}
		out := &jv{kind: jArr, arr: []*jv{}}
		for _, e := range sl {
			out.arr = append(out.arr, i.toJSON(u.Elem(), e, depth+1))
		}
		return out
	case *types.Array:
		out := &jv{kind: jArr, arr: []*jv{}}
		for _, e := range v.(array) {
			out.arr = append(out.arr, i.toJSON(u.Elem(), e, depth+1))
		}
		return out
	case *types.Map:
		m := v.(*omap)
		if m == nil {
			return &jv{kind: jNull}
		}
		out := &jv{kind: jObj}
		type kvp struct {
			k string
			v *jv
		}
		var kvs []kvp
		for k := range m.keys {
			ks, ok := m.keys[k].(string)
			if !ok {
				panic(engineError("json: map with symbolic or non-string key"))
			}
			kvs = append(kvs, kvp{ks, i.toJSON(u.Elem(), m.vals[k], depth+1)})
		}
		sort.SliceStable(kvs, func(a, b int) bool { return kvs[a].k < kvs[b].k })
		for _, e := range kvs {
			out.keys = append(out.keys, e.k)
			out.vals = append(out.vals, e.v)
		}
		return out
	case *types.Struct:
		sv := v.(structure)
		out := &jv{kind: jObj}
		for _, f := range jsonFields(u) {
			fv := sv[f.idx]
			if f.omitempty && i.isEmptyJSON(f.typ, fv) {
				continue
			}
			out.keys = append(out.keys, f.name)
			out.vals = append(out.vals, i.toJSON(f.typ, fv, depth+1))
		}
		return out
	}
	panic(engineError("json: cannot encode type " + t.String()))
}

type jsonErr struct{ msg string }

// fromJSON decodes j into the cell at p of type t (encoding/json semantics:
// null leaves non-nillable values untouched, missing fields untouched).
func (i *interpreter) fromJSON(t types.Type, p *value, j *jv, depth int) *jsonErr {
	if isCidType(t) {
		switch j.kind {
		case jNull:
			*p = structure{""}
			return nil
		case jCid:
			*p = structure{j.s}
			return nil
		}
		return &jsonErr{"cannot unmarshal into cid.Cid"}
	}
	switch u := t.Underlying().(type) {
	case *types.Basic:
		if j.kind == jNull {
			return nil
		}
		switch {
		case u.Info()&types.IsBoolean != 0:
			if j.kind != jBool {
				return &jsonErr{"cannot unmarshal into bool"}
			}
			*p = j.b
		case u.Info()&types.IsString != 0:
			if j.kind != jStr {
				return &jsonErr{"cannot unmarshal into string"}
			}
			*p = j.s
		case u.Info()&types.IsInteger != 0:
			if j.kind != jNum {
				return &jsonErr{"cannot unmarshal into integer"}
			}
			// same-width round trip only; a width change goes through the 64-bit value
			sw, ssigned, _ := intInfo(j.nt)
			dw, _, _ := intInfo(t)
			tm := i.toTerm(j.n)
			switch {
			case sw == dw:
			case dw < sw:
				tm = i.tt.Extract(dw-1, 0, tm) // overflow would be an UnmarshalTypeError in reality
			case ssigned:
				tm = i.tt.SignExt(tm, dw)
			default:
				tm = i.tt.ZeroExt(tm, dw)
			}
			*p = mkval(t, tm)
		default:
			if j.kind != jNum {
				return &jsonErr{"cannot unmarshal into number"}
			}
			*p = j.n
		}
		return nil
	case *types.Pointer:
		if j.kind == jNull {
			*p = (*value)(nil)
			return nil
		}
		cur := (*p).(*value)
		if cur == nil {
			cell := zero(u.Elem())
			cur = &cell
			*p = cur
		}
		return i.fromJSON(u.Elem(), cur, j, depth+1)
	case *types.Interface:
		if j.kind == jNull {
			*p = iface{}
			return nil
		}
		if u.NumMethods() != 0 {
			return &jsonErr{"cannot unmarshal into non-empty interface " + t.String()}
		}
		*p = i.genericJSON(j)
		return nil
	case *types.Slice:
		if j.kind == jNull {
			*p = []value(nil)
			return nil
		}
		if eb, ok := u.Elem().Underlying().(*types.Basic); ok && eb.Kind() == types.Uint8 {
			if j.kind == jBytes {
				*p = append([]value{}, j.s.([]value)...)
				return nil
			}
			return &jsonErr{"cannot unmarshal into []byte"}
		}
		if j.kind != jArr {
			return &jsonErr{"cannot unmarshal into slice"}
		}
		// As encoding/json: the existing slice is reused.  Elements are decoded IN
		// PLACE into the existing backing array (a non-nil pointer element is
		// followed, not replaced), the slice is grown by 1.5x when full, and
		// truncated to the number of decoded elements at the end.
		cur, _ := (*p).([]value)
		var first *jsonErr
		for k, e := range j.arr {
			if k >= cap(cur) {
				newcap := cap(cur) + cap(cur)/2
				if newcap < 4 {
					newcap = 4
				}
				nv := make([]value, len(cur), newcap)
				copy(nv, cur)
				full := nv[:newcap]
				for idx := len(cur); idx < newcap; idx++ {
					full[idx] = zero(u.Elem())
				}
				cur = nv
			}
			if k >= len(cur) {
				cur = cur[:k+1]
				if cur[k] == nil {
					cur[k] = zero(u.Elem())
				}
			}
			if err := i.fromJSON(u.Elem(), &cur[k], e, depth+1); err != nil && first == nil {
				first = err
			}
		}
		if len(j.arr) == 0 {
			cur = []value{}
		} else {
			cur = cur[:len(j.arr)]
		}
		*p = cur
		return first
	case *types.Map:
		if j.kind == jNull {
			*p = (*omap)(nil)
			return nil
		}
		if j.kind != jObj {
			return &jsonErr{"cannot unmarshal into map"}
		}
		m, _ := (*p).(*omap)
		if m == nil {
			m = &omap{}
			*p = m
		}
		var first *jsonErr
		for k := range j.keys {
			cell := zero(u.Elem())
			if err := i.fromJSON(u.Elem(), &cell, j.vals[k], depth+1); err != nil && first == nil {
				first = err
			}
			i.mapInsert(m, u.Key(), j.keys[k], cell)
		}
		return first
	case *types.Struct:
		if j.kind == jNull {
			return nil
		}
		if j.kind != jObj {
			return &jsonErr{"cannot unmarshal into struct " + t.String()}
		}
		sv := (*p).(structure)
		fields := jsonFields(u)
		var first *jsonErr
		for k := range j.keys {
			for _, f := range fields {
				if f.name == j.keys[k] || strings.EqualFold(f.name, j.keys[k]) {
					if err := i.fromJSON(f.typ, &sv[f.idx], j.vals[k], depth+1); err != nil && first == nil {
						first = err
					}
					break
				}
			}
		}
		return first
	}
	return &jsonErr{"json: cannot decode into " + t.String()}
}

// genericJSON decodes into interface{}.
func (i *interpreter) genericJSON(j *jv) value {
	emptyIface := types.NewInterfaceType(nil, nil)
	switch j.kind {
	case jNull:
		return iface{}
	case jBool:
		return iface{t: types.Typ[types.Bool], v: j.b}
	case jStr:
		return iface{t: types.Typ[types.String], v: j.s}
	case jCid:
		m := &omap{keys: []value{"/"}, vals: []value{iface{t: types.Typ[types.String], v: j.s}}}
		return iface{t: types.NewMap(types.Typ[types.String], emptyIface), v: m}
	case jBytes:
		// base64 text in reality; kept as an opaque string carrying the bytes
		return iface{t: types.Typ[types.String], v: mkstr(append([]value{uint8('b'), uint8('6'), uint8('4'), uint8(':')}, j.s.([]value)...))}
	case jNum:
		switch n := j.n.(type) {
		case sym:
			panic(engineError("json: symbolic number decoded into interface{} (float64)"))
		case float64:
			return iface{t: types.Typ[types.Float64], v: n}
		default:
			return iface{t: types.Typ[types.Float64], v: float64(asInt64(n))}
		}
	case jArr:
		out := make([]value, len(j.arr))
		for k, e := range j.arr {
			out[k] = i.genericJSON(e)
		}
		return iface{t: types.NewSlice(emptyIface), v: out}
	case jObj:
		m := &omap{}
		for k := range j.keys {
			m.keys = append(m.keys, j.keys[k])
			m.vals = append(m.vals, i.genericJSON(j.vals[k]))
		}
		return iface{t: types.NewMap(types.Typ[types.String], emptyIface), v: m}
	}
	return iface{}
}

func blobOf(b value) *jsonBlob {
	sl, ok := b.([]value)
	if !ok || len(sl) != 1 {
		return nil
	}
	bl, _ := sl[0].(*jsonBlob)
	return bl
}

func (m *machine) registerCodecIntrinsics() {
	in := m.intrinsics
	in["encoding/json.Marshal"] = func(fr *frame, fn *ssa.Function, args []value) value {
		it := args[0].(iface)
		var j *jv
		if it.t == nil {
			j = &jv{kind: jNull}
		} else {
			j = fr.i.toJSON(it.t, it.v, 0)
		}
		bl := &jsonBlob{j: j, kind: "json"}
		if fr.i.symSizes > 0 {
			return tuple{fr.i.newBlobRope(bl, fr.i.symSizes), iface{}}
		}
		return tuple{[]value{bl}, iface{}}
	}
	in["encoding/json.Unmarshal"] = func(fr *frame, fn *ssa.Function, args []value) value {
		i := fr.i
		bl := blobOf(args[0])
		if rb, isRope := ropeBlob(args[0]); isRope {
			bl = rb
		}
		if bl == nil {
			// raw bytes that no Marshal produced: a parse error (byte-level JSON is outside the model)
			return i.newError("json: malformed input (raw bytes)")
		}
		it := args[1].(iface)
		pt, ok := it.t.Underlying().(*types.Pointer)
		if !ok || it.v.(*value) == nil {
			return i.newError("json: Unmarshal(non-pointer or nil)")
		}
		if err := i.fromJSON(pt.Elem(), it.v.(*value), bl.j, 0); err != nil {
			return i.newError("json: " + err.msg)
		}
		return iface{}
	}
}

package main

// Idealised CBOR codec driven by the atlases the REAL source registers:
// atlas.BuildEntry(T{}).StructMap().AddField(name, StructMapEntry{SerialName,
// OmitEmpty})...Complete() and cbornode.RegisterCborType are intrinsics that
// record the field list, so the encoded form of a manifest contains exactly
// the fields the source says (a source change to an atlas changes the
// encoding).  io.WriteCBOR / io.ReadCBOR go through the harness block store
// (vstub.CborPut / vstub.CborGet); cbornode.DecodeInto is type-directed.

import (
	"fmt"
	"go/types"

	"golang.org/x/tools/go/ssa"
)

type atlasField struct {
	goName    string
	serial    string
	omitEmpty bool
}

type atlasRec struct {
	typ       types.Type
	fields    []atlasField
	structMap bool
}

const atlasPkg = "github.com/polydawn/refmt/obj/atlas"

func (i *interpreter) atlasOf(p value) *atlasRec {
	pp, ok := p.(*value)
	if !ok || pp == nil {
		return nil
	}
	return i.atlases[pp]
}

func (i *interpreter) cborFieldsFor(t types.Type) *atlasRec {
	return i.cborTypes[t.String()]
}

func (i *interpreter) toCBOR(t types.Type, v value, depth int) *jv {
	if depth > 20 {
		panic(engineError("cbor: structure too deep"))
	}
	if isCidType(t) {
		s := v.(structure)[0]
		if strLen(s) == 0 {
			return &jv{kind: jNull}
		}
		return &jv{kind: jCid, s: s}
	}
	switch u := t.Underlying().(type) {
	case *types.Basic:
		switch {
		case u.Info()&types.IsBoolean != 0:
			return &jv{kind: jBool, b: v}
		case u.Info()&types.IsString != 0:
			return &jv{kind: jStr, s: v}
		case u.Info()&types.IsInteger != 0:
			return &jv{kind: jNum, n: v, nt: t}
		}
	case *types.Pointer:
		p := v.(*value)
		if p == nil {
			return &jv{kind: jNull}
		}
		return i.toCBOR(u.Elem(), *p, depth+1)
	case *types.Interface:
		it := v.(iface)
		if it.t == nil {
			return &jv{kind: jNull}
		}
		return i.toCBOR(it.t, it.v, depth+1)
	case *types.Slice:
		sl := v.([]value)
		if eb, ok := u.Elem().Underlying().(*types.Basic); ok && eb.Kind() == types.Uint8 {
			return &jv{kind: jBytes, s: append([]value(nil), sl...)}
		}
		out := &jv{kind: jArr, arr: []*jv{}}
		for _, e := range sl {
			out.arr = append(out.arr, i.toCBOR(u.Elem(), e, depth+1))
		}
		return out
	case *types.Struct:
		rec := i.cborFieldsFor(t)
		if rec == nil {
			panic(targetPanic{v: "cbor: no atlas registered for type " + t.String()})
		}
		sv := v.(structure)
		out := &jv{kind: jObj}
		for _, f := range rec.fields {
			idx := -1
			for k := 0; k < u.NumFields(); k++ {
				if u.Field(k).Name() == f.goName {
					idx = k
				}
			}
			if idx < 0 {
				panic(targetPanic{v: "cbor: atlas names unknown field " + f.goName})
			}
			ft := u.Field(idx).Type()
			if f.omitEmpty && i.isEmptyJSON(ft, sv[idx]) {
				continue
			}
			out.keys = append(out.keys, f.serial)
			out.vals = append(out.vals, i.toCBOR(ft, sv[idx], depth+1))
		}
		return out
	}
	panic(engineError("cbor: cannot encode type " + t.String()))
}

func (i *interpreter) fromCBOR(t types.Type, p *value, j *jv, depth int) *jsonErr {
	if isCidType(t) {
		switch j.kind {
		case jNull:
			*p = structure{""}
			return nil
		case jCid:
			*p = structure{j.s}
			return nil
		}
		return &jsonErr{"cbor: not a link"}
	}
	switch u := t.Underlying().(type) {
	case *types.Basic:
		switch {
		case u.Info()&types.IsBoolean != 0:
			if j.kind != jBool {
				return &jsonErr{"cbor: not a bool"}
			}
			*p = j.b
		case u.Info()&types.IsString != 0:
			if j.kind != jStr {
				return &jsonErr{"cbor: not a string"}
			}
			*p = j.s
		case u.Info()&types.IsInteger != 0:
			if j.kind != jNum {
				return &jsonErr{"cbor: not a number"}
			}
			*p = j.n
		}
		return nil
	case *types.Pointer:
		if j.kind == jNull {
			*p = (*value)(nil)
			return nil
		}
		cur := (*p).(*value)
		if cur == nil {
			cell := zero(u.Elem())
			cur = &cell
			*p = cur
		}
		return i.fromCBOR(u.Elem(), cur, j, depth+1)
	case *types.Struct:
		if j.kind != jObj {
			return &jsonErr{"cbor: not a map"}
		}
		rec := i.cborFieldsFor(t)
		if rec == nil {
			return &jsonErr{"cbor: no atlas registered for type " + t.String()}
		}
		sv := (*p).(structure)
		for k := range j.keys {
			for _, f := range rec.fields {
				if f.serial == j.keys[k] {
					for fi := 0; fi < u.NumFields(); fi++ {
						if u.Field(fi).Name() == f.goName {
							if err := i.fromCBOR(u.Field(fi).Type(), &sv[fi], j.vals[k], depth+1); err != nil {
								return err
							}
						}
					}
				}
			}
		}
		return nil
	case *types.Slice:
		if j.kind == jBytes {
			*p = append([]value{}, j.s.([]value)...)
			return nil
		}
	}
	return &jsonErr{"cbor: cannot decode into " + t.String()}
}

func (m *machine) registerCBORIntrinsics() {
	in := m.intrinsics
	in[atlasPkg+".BuildEntry"] = func(fr *frame, fn *ssa.Function, args []value) value {
		it := args[0].(iface)
		cell := zero(fn.Signature.Results().At(0).Type().(*types.Pointer).Elem())
		p := &cell
		fr.i.atlases[p] = &atlasRec{typ: it.t}
		return p
	}
	same := func(fr *frame, fn *ssa.Function, args []value) value {
		// builder methods return the same builder (typed differently in Go; identity is what matters here)
		return args[0]
	}
	in["(*"+atlasPkg+".BuilderCore).StructMap"] = func(fr *frame, fn *ssa.Function, args []value) value {
		if r := fr.i.atlasOf(args[0]); r != nil {
			r.structMap = true
		}
		return args[0]
	}
	in["(*"+atlasPkg+".BuilderStructMap).AddField"] = func(fr *frame, fn *ssa.Function, args []value) value {
		r := fr.i.atlasOf(args[0])
		if r == nil {
			return args[0]
		}
		entry := args[2].(structure)
		st := fn.Signature.Params().At(1).Type().Underlying().(*types.Struct)
		f := atlasField{goName: concString(args[1])}
		for k := 0; k < st.NumFields(); k++ {
			switch st.Field(k).Name() {
			case "SerialName":
				f.serial = concString(entry[k])
			case "OmitEmpty":
				f.omitEmpty, _ = entry[k].(bool)
			}
		}
		if f.serial == "" {
			f.serial = f.goName
		}
		r.fields = append(r.fields, f)
		return args[0]
	}
	in["(*"+atlasPkg+".BuilderStructMap).Complete"] = same
	in["(*"+atlasPkg+".BuilderStructMap).Autogenerate"] = same
	in["(*"+atlasPkg+".BuilderCore).Transform"] = same
	in["(*"+atlasPkg+".BuilderTransform).TransformMarshal"] = same
	in["(*"+atlasPkg+".BuilderTransform).TransformUnmarshal"] = same
	in["(*"+atlasPkg+".BuilderTransform).Complete"] = same
	in[atlasPkg+".MakeMarshalTransformFunc"] = func(fr *frame, fn *ssa.Function, args []value) value { return zeroResult(fn) }
	in[atlasPkg+".MakeUnmarshalTransformFunc"] = func(fr *frame, fn *ssa.Function, args []value) value { return zeroResult(fn) }
	in["github.com/ipfs/go-ipld-cbor.RegisterCborType"] = func(fr *frame, fn *ssa.Function, args []value) value {
		it := args[0].(iface)
		if it.t == nil {
			return nil
		}
		if r := fr.i.atlasOf(it.v); r != nil && r.typ != nil {
			fr.i.cborTypes[r.typ.String()] = r
		}
		return nil
	}
	in["berty.tech/go-ipfs-log/io.WriteCBOR"] = func(fr *frame, fn *ssa.Function, args []value) value {
		i := fr.i
		it := args[2].(iface)
		if it.t == nil {
			return tuple{structure{""}, i.newError("cbor: nil object")}
		}
		j := i.toCBOR(it.t, it.v, 0)
		blob := []value{&jsonBlob{j: j, kind: "cbor"}}
		put := m.lookupFunc(vstubPath, "CborPut")
		if put == nil {
			panic(engineError("vstub.CborPut missing"))
		}
		c := callSSA(i, fr, 0, put, []value{args[1], blob}, nil)
		return tuple{c, iface{}}
	}
	in["berty.tech/go-ipfs-log/io.ReadCBOR"] = func(fr *frame, fn *ssa.Function, args []value) value {
		get := m.lookupFunc(vstubPath, "CborGet")
		if get == nil {
			panic(engineError("vstub.CborGet missing"))
		}
		return callSSA(fr.i, fr, 0, get, []value{args[0], args[1], args[2]}, nil)
	}
	in["github.com/ipfs/go-ipld-cbor.DecodeInto"] = func(fr *frame, fn *ssa.Function, args []value) value {
		i := fr.i
		bl := blobOf(args[0])
		if bl == nil {
			return i.newError("cbor: malformed input")
		}
		it := args[1].(iface)
		pt, ok := it.t.Underlying().(*types.Pointer)
		if !ok || it.v.(*value) == nil {
			return i.newError("cbor: DecodeInto(non-pointer)")
		}
		target := it.v.(*value)
		tt := pt.Elem()
		// DecodeInto(&ptrToStruct): allocate through the extra pointer level
		if err := i.fromCBOR(tt, target, bl.j, 0); err != nil {
			return i.newError(err.msg)
		}
		return iface{}
	}
	_ = fmt.Sprint
}

package main

// Rope bytes: a []byte whose segments may have SYMBOLIC lengths.  Used to let
// the solver reason about length-prefixed framing (snapshots): an encoded
// document is one segment of symbolic length, a length prefix is a concrete
// 2-byte segment with symbolic byte values, and a read at a symbolic offset
// asks the solver whether offset and length coincide with a written segment —
// if they may not, the bytes read are unconstrained garbage.

import (
	"fmt"
	"go/types"

	"golang.org/x/tools/go/ssa"
)

type ropeSegKind int

const (
	segBytes ropeSegKind = iota // concrete number of bytes (values may be symbolic)
	segBlob                     // an encoded document of symbolic length
	segGarbage                  // unconstrained bytes of symbolic length
	segHole                     // a fresh buffer (make([]byte, n)) not yet written
)

type ropeSeg struct {
	kind   ropeSegKind
	bytes  []value
	blob   *jsonBlob
	length *Term // BV64
}

// rope is a reference value (like a slice header pointing at a backing store).
type rope struct {
	segs []ropeSeg
}

func (i *interpreter) segLen(s ropeSeg) *Term {
	if s.kind == segBytes {
		return i.tt.Const(64, uint64(len(s.bytes)))
	}
	return s.length
}

func (i *interpreter) ropeLen(r *rope) *Term {
	t := i.tt.Const(64, 0)
	for _, s := range r.segs {
		t = i.tt.App("bvadd", 64, t, i.segLen(s))
	}
	return t
}

func asRope(v value) *rope {
	switch x := v.(type) {
	case *rope:
		return x
	case []value:
		if len(x) == 0 {
			return &rope{}
		}
		return &rope{segs: []ropeSeg{{kind: segBytes, bytes: append([]value(nil), x...)}}}
	case string:
		return asRope(strBytes(x))
	case sstr:
		return asRope(x.b)
	}
	panic(engineError(fmt.Sprintf("asRope: %T", v)))
}

func ropeAppend(a, b value) *rope {
	ra, rb := asRope(a), asRope(b)
	out := &rope{segs: append(append([]ropeSeg{}, ra.segs...), rb.segs...)}
	return out
}

// newBlobRope wraps an encoded document with a fresh symbolic length in [2, max].
func (i *interpreter) newBlobRope(bl *jsonBlob, max int) *rope {
	l := i.tt.Var(fmt.Sprintf("bloblen#%d", len(i.nds)), 64)
	i.nds = append(i.nds, ndRecord{name: "bloblen", kind: "int", term: l})
	i.assume(i.tt.App("bvuge", 0, l, i.tt.Const(64, 2)))
	i.assume(i.tt.App("bvule", 0, l, i.tt.Const(64, uint64(max))))
	return &rope{segs: []ropeSeg{{kind: segBlob, blob: bl, length: l}}}
}

func ropeBlob(v value) (*jsonBlob, bool) {
	r, ok := v.(*rope)
	if !ok {
		return nil, false
	}
	if len(r.segs) == 1 && r.segs[0].kind == segBlob {
		return r.segs[0].blob, true
	}
	return nil, true // a rope, but not exactly one document: malformed input
}

// fileRead implements vstub.FileRead(f *MemFile, p []byte) (int, error).
func (m *machine) registerRopeIntrinsics() {
	m.intrinsics[vs+"FileRead"] = func(fr *frame, fn *ssa.Function, args []value) value {
		i := fr.i
		fp := fr.ptr(args[0])
		fs := (*fp).(structure)
		st := mustDeref(fn.Signature.Params().At(0).Type()).Underlying().(*types.Struct)
		dataIdx, posIdx := -1, -1
		for k := 0; k < st.NumFields(); k++ {
			switch st.Field(k).Name() {
			case "Data":
				dataIdx = k
			case "Pos":
				posIdx = k
			}
		}
		intT := types.Typ[types.Int]
		eof := func() value {
			g := m.pkgs["io"].Var("EOF")
			return *i.global(g)
		}
		data := fs[dataIdx]
		_, dataRope := data.(*rope)
		pr, bufRope := args[1].(*rope)
		if !dataRope && !bufRope && !isSym(fs[posIdx]) {
			// plain bytes.Reader semantics
			d := data.([]value)
			p := args[1].([]value)
			pos := int(asInt64(fs[posIdx]))
			if pos >= len(d) {
				return tuple{0, eof()}
			}
			n := copy(p, d[pos:])
			fs[posIdx] = pos + n
			return tuple{n, iface{}}
		}
		r := asRope(data)
		tt := i.tt
		P := i.toTerm(fs[posIdx])
		var N *Term
		var pconc []value
		if bufRope {
			if len(pr.segs) != 1 {
				panic(engineError("FileRead into a buffer that is not a fresh make([]byte, n)"))
			}
			N = i.segLen(pr.segs[0])
		} else {
			pconc = args[1].([]value)
			N = tt.Const(64, uint64(len(pconc)))
		}
		total := i.ropeLen(r)
		if i.decideBool(tt.App("bvuge", 0, P, total), "read-eof") {
			return tuple{0, eof()}
		}
		start := tt.Const(64, 0)
		for _, s := range r.segs {
			sl := i.segLen(s)
			aligned := tt.And(tt.Eq(P, start), tt.Eq(sl, N))
			compatible := (bufRope && s.kind == segBlob) || (!bufRope && s.kind == segBytes && len(s.bytes) == len(pconc))
			if compatible && i.decideBool(aligned, "read-aligned") {
				if bufRope {
					pr.segs = []ropeSeg{s}
				} else {
					copy(pconc, s.bytes)
				}
				fs[posIdx] = mkval(intT, tt.App("bvadd", 64, P, N))
				return tuple{mkval(intT, N), iface{}}
			}
			start = tt.App("bvadd", 64, start, sl)
		}
		// no written segment coincides with the request: the bytes are unconstrained
		i.observed = append(i.observed, "misaligned-read")
		if bufRope {
			pr.segs = []ropeSeg{{kind: segGarbage, length: N}}
		} else {
			for k := range pconc {
				pconc[k] = sym{tt.FreshVar("garbage", 8)}
			}
		}
		fs[posIdx] = mkval(intT, tt.App("bvadd", 64, P, N))
		return tuple{mkval(intT, N), iface{}}
	}
}

package main

// Loading: the encoding is regenerated from /repo's working tree on every run.
// go/packages loads the target packages with an overlay that injects the
// harness files into the real packages and adds the virtual support package
// internal/vstub; go/ssa bodies are built lazily per package.

import (
	"fmt"
	"go/types"
	"os"
	"path/filepath"
	"sort"
	"strings"
	"sync"

	"golang.org/x/tools/go/packages"
	"golang.org/x/tools/go/ssa"
	"golang.org/x/tools/go/ssa/ssautil"
)

const repoModule = "berty.tech/go-orbit-db"
const vstubPath = repoModule + "/internal/vstub"

type machine struct {
	prog               *ssa.Program
	pkgs               map[string]*ssa.Package
	buildMu            sync.Mutex
	built              map[*ssa.Package]bool
	runtimeErrorString types.Type
	errorStringType    types.Type // *errors.errorString
	wrapErrorType      types.Type // *fmt.wrapError
	rootFn             *ssa.Function
	intrinsics         map[string]intrinsic
	replacements       map[string]*ssa.Function
	allocBound         int
	repoDir            string
	overlay            map[string][]byte
	overlayReal        map[string]string // virtual path -> real path (for native replay)
	loadErrors         []string
	execPrefixes       []string
	initPrefixes       []string
	zeroPolicy         []string
	sharedInit         map[string]bool
	sharedMu           sync.Mutex
	sharedGlobals      map[*ssa.Global]*value
	sharedDone         map[*ssa.Package]bool
}

// harnessOverlay maps /verif/harness/<pkgdir>/<file>.go to <repo>/<pkgdir>/zz_verif_<file>.go
// and /verif/harness/vstub/*.go to <repo>/internal/vstub/*.go.
func harnessOverlay(repoDir, harnessDir string) (map[string][]byte, map[string]string, error) {
	ov := map[string][]byte{}
	real := map[string]string{}
	err := filepath.Walk(harnessDir, func(p string, info os.FileInfo, err error) error {
		if err != nil {
			return err
		}
		if info.IsDir() || !strings.HasSuffix(p, ".go") {
			return nil
		}
		rel, _ := filepath.Rel(harnessDir, p)
		dir := filepath.Dir(rel)
		base := filepath.Base(rel)
		var target string
		if dir == "vstub" || dir == "vstubodb" {
			target = filepath.Join(repoDir, "internal", dir, base)
		} else {
			target = filepath.Join(repoDir, dir, "zz_verif_"+base)
		}
		data, err := os.ReadFile(p)
		if err != nil {
			return err
		}
		ov[target] = data
		real[target] = p
		return nil
	})
	return ov, real, err
}

func loadMachine(repoDir, harnessDir string, patterns []string) (*machine, error) {
	ov, real, err := harnessOverlay(repoDir, harnessDir)
	if err != nil {
		return nil, err
	}
	// never let the go command rewrite /repo/go.mod (the overlay imports some
	// indirect dependencies directly): work on a private copy of go.mod/go.sum
	modDir, err := os.MkdirTemp("", "gosym-mod")
	if err != nil {
		return nil, err
	}
	defer os.RemoveAll(modDir)
	for _, f := range []string{"go.mod", "go.sum"} {
		data, err := os.ReadFile(filepath.Join(repoDir, f))
		if err != nil {
			return nil, err
		}
		if err := os.WriteFile(filepath.Join(modDir, f), data, 0o644); err != nil {
			return nil, err
		}
	}
	cfg := &packages.Config{
		Mode: packages.NeedName | packages.NeedFiles | packages.NeedCompiledGoFiles |
			packages.NeedImports | packages.NeedDeps | packages.NeedTypes |
			packages.NeedSyntax | packages.NeedTypesInfo | packages.NeedTypesSizes,
		Dir:     repoDir,
		Overlay: ov,
		Env:     append(os.Environ(), "GOFLAGS=-mod=mod -modfile="+filepath.Join(modDir, "go.mod"), "GOPROXY=off", "GOSUMDB=off", "GOTOOLCHAIN=local"),
		Tests:   false,
	}
	pats := append([]string{}, patterns...)
	pats = append(pats, vstubPath, repoModule+"/internal/vstubodb")
	initial, err := packages.Load(cfg, pats...)
	if err != nil {
		return nil, fmt.Errorf("packages.Load: %w", err)
	}
	m := &machine{
		pkgs: map[string]*ssa.Package{}, built: map[*ssa.Package]bool{},
		repoDir: repoDir, overlay: ov, overlayReal: real, allocBound: 8,
	}
	packages.Visit(initial, nil, func(p *packages.Package) {
		for _, e := range p.Errors {
			if strings.HasPrefix(p.PkgPath, "berty.tech/") {
				m.loadErrors = append(m.loadErrors, e.Error())
			}
		}
	})
	if len(m.loadErrors) > 0 {
		sort.Strings(m.loadErrors)
		return m, fmt.Errorf("harness-build: %s", strings.Join(m.loadErrors, "; "))
	}
	prog, _ := ssautil.AllPackages(initial, ssa.InstantiateGenerics)
	m.prog = prog
	for _, p := range prog.AllPackages() {
		m.pkgs[p.Pkg.Path()] = p
	}
	if rt := m.pkgs["runtime"]; rt != nil {
		m.runtimeErrorString = rt.Type("errorString").Object().Type()
	}
	if ep := m.pkgs["errors"]; ep != nil {
		m.errorStringType = types.NewPointer(ep.Type("errorString").Object().Type())
	}
	if fp := m.pkgs["fmt"]; fp != nil {
		m.wrapErrorType = types.NewPointer(fp.Type("wrapError").Object().Type())
	}
	m.rootFn = prog.NewFunction("<root>", types.NewSignatureType(nil, nil, nil, nil, nil, false), "root frame")
	m.execPrefixes = []string{
		"berty.tech/go-orbit-db", "berty.tech/go-ipfs-log",
		"errors", "sort", "path", "unicode/utf8", "unicode", "encoding/binary", "bufio", "io", "container/list",
		"golang.org/x/sync/semaphore", "golang.org/x/sync/errgroup", "golang.org/x/sync/singleflight", "strconv", "container/heap", "math", "math/bits", "bytes", "strings", "slices", "cmp",
		"github.com/ipfs/go-datastore", "github.com/ipfs/go-datastore/query", "github.com/ipfs/boxo/path",
		"github.com/hashicorp/golang-lru", "encoding/base64", "encoding/hex", "net/url", "sync/atomic", "unicode/utf16", "time", "internal/stringslite", "internal/bytealg", "internal/itoa", "maps", "iter",
		// not used by the unchanged tree; interpreted so that a change which starts using it is decided rather than inconclusive
		"regexp", "regexp/syntax",
	}
	m.initPrefixes = []string{
		"berty.tech/go-orbit-db", "berty.tech/go-ipfs-log", "errors", "io", "bufio", "encoding/binary",
		"github.com/ipfs/go-datastore", "context", "path", "golang.org/x/sync/semaphore", "golang.org/x/sync/errgroup", "golang.org/x/sync/singleflight", "github.com/ipfs/boxo/path",
		"encoding/base64", "strings", "bytes", "strconv",
		// package-level tables of the interpreted library packages (an uninitialised table
		// would silently compute wrong results); package unicode itself is modelled by
		// intrinsics (its tables are huge)
		"unicode/utf8", "unicode/utf16", "math/bits", "math", "sort", "container/list", "container/heap",
		"slices", "cmp", "encoding/hex", "net/url", "time", "github.com/hashicorp/golang-lru", "maps", "iter",
		"internal/stringslite", "internal/itoa", "regexp", "regexp/syntax",
	}
	m.sharedInit = map[string]bool{}
	for _, pth := range []string{"strconv", "unicode/utf8", "unicode/utf16", "math/bits", "math", "encoding/base64", "encoding/hex",
		"strings", "bytes", "internal/itoa", "internal/stringslite", "sort", "slices", "cmp", "net/url", "time", "maps", "iter"} {
		m.sharedInit[pth] = true
	}
	m.sharedGlobals = map[*ssa.Global]*value{}
	m.sharedDone = map[*ssa.Package]bool{}
	m.zeroPolicy = []string{"go.uber.org/zap", "go.opentelemetry.io/otel", "github.com/ipfs/kubo/core/coreiface/options"}
	m.registerIntrinsics()
	return m, nil
}

func hasPkgPrefix(path string, prefixes []string) bool {
	for _, p := range prefixes {
		if path == p || strings.HasPrefix(path, p+"/") {
			return true
		}
	}
	return false
}

func (m *machine) buildPkg(p *ssa.Package) {
	m.buildMu.Lock()
	defer m.buildMu.Unlock()
	if m.built[p] {
		return
	}
	p.Build()
	m.built[p] = true
}

func fnPkgPath(fn *ssa.Function) string {
	if fn.Pkg != nil {
		return fn.Pkg.Pkg.Path()
	}
	if fn.Origin() != nil && fn.Origin().Pkg != nil {
		return fn.Origin().Pkg.Pkg.Path()
	}
	// wrappers and bound-method closures have no package; look at the receiver/object
	if o := fn.Object(); o != nil && o.Pkg() != nil {
		return o.Pkg().Path()
	}
	return ""
}

// mayExecute reports whether fn's SSA body is interpreted.
func (m *machine) mayExecute(fn *ssa.Function) bool {
	if fn.Parent() != nil {
		return true // anonymous function: policy of its parent already applied
	}
	if fn.Pkg == nil && fn.Synthetic != "" {
		return true // wrapper / bound method / thunk: it only delegates; the callee is checked when called
	}
	pp := fnPkgPath(fn)
	if pp == "" {
		return true // synthetic wrapper; its callee is checked when called
	}
	return hasPkgPrefix(pp, m.execPrefixes)
}

func (m *machine) lookupFunc(pkgPath, name string) *ssa.Function {
	p := m.pkgs[pkgPath]
	if p == nil {
		return nil
	}
	m.buildPkg(p)
	return p.Func(name)
}

// ensureInit runs pkg's package initialiser once per path, leniently: only
// initialisers of packages under initPrefixes are interpreted, calls the engine
// does not model yield zero values (so that package variables such as event
// lists and sentinel errors hold their real values).
func (i *interpreter) ensureInit(p *ssa.Package) {
	if p == nil || i.initDone[p] {
		return
	}
	i.initDone[p] = true
	if !hasPkgPrefix(p.Pkg.Path(), i.m.initPrefixes) {
		return
	}
	// library packages whose package-level variables are immutable tables (and their own
	// sentinel errors) are initialised ONCE per run and their cells shared by all paths
	if i.m.sharedInit[p.Pkg.Path()] {
		i.m.sharedMu.Lock()
		if i.m.sharedDone[p] {
			for n := range p.Members {
				if g, ok := p.Members[n].(*ssa.Global); ok {
					if c, have := i.m.sharedGlobals[g]; have {
						i.globals[g] = c
					}
				}
			}
			i.m.sharedMu.Unlock()
			return
		}
		i.m.sharedMu.Unlock()
		// not published yet: this path runs the initialiser (possibly at the same time as
		// another worker; the first to finish publishes, the other keeps its private cells)
		defer func() {
			i.m.sharedMu.Lock()
			if !i.m.sharedDone[p] {
				for n := range p.Members {
					if g, ok := p.Members[n].(*ssa.Global); ok {
						if c, have := i.globals[g]; have {
							i.m.sharedGlobals[g] = c
						}
					}
				}
				i.m.sharedDone[p] = true
			}
			i.m.sharedMu.Unlock()
		}()
	}
	i.m.buildPkg(p)
	// allocate the package's globals
	names := make([]string, 0, len(p.Members))
	for n := range p.Members {
		names = append(names, n)
	}
	sort.Strings(names)
	for _, n := range names {
		if g, ok := p.Members[n].(*ssa.Global); ok {
			if _, have := i.globals[g]; !have {
				cell := zero(mustDeref(g.Type()))
				i.globals[g] = &cell
			}
		}
	}
	initFn := p.Func("init")
	if initFn == nil || initFn.Blocks == nil {
		return
	}
	i.lenient++
	defer func() { i.lenient-- }()
	root := &frame{i: i, th: i.cur, fn: i.m.rootFn}
	fr := &frame{i: i, caller: root, th: i.cur, fn: initFn}
	execBody(fr, nil, nil)
}
